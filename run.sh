#!/bin/bash
# Entry point of every registered check.
#   ./run.sh <ID> quick|thorough      (honours VERIF_SEED, default 0)
#   ./run.sh replay <file>
# exit 0 = property held on everything explored, 1 = violation (VIOLATION line on stdout),
# 2 = inconclusive (build/infrastructure/watchdog), never reported as a violation.
set -u
cd "$(dirname "$0")"
export CARGO_NET_OFFLINE=true
SEED="${VERIF_SEED:-0}"
case "$SEED" in ''|*[!0-9]*) SEED=0;; esac

build_eqv() {
    ( cd harness && cargo build -q -p eqlog-cli -p eqv ) >&2 || { echo "INFRA: building harness failed" >&2; exit 2; }
}
build_rt() {
    ( cd harness/rt && cargo build -q --release ) >&2 || { echo "INFRA: building eqv-rt failed" >&2; exit 2; }
}

if [ "${1:-}" = "replay" ]; then
    f="${2:?replay file}"
    if grep -q 'eqv-rt-replay' "$f" 2>/dev/null; then
        build_rt
        exec /verif/.cache/target-rt/release/eqv-rt replay "$f"
    fi
    build_eqv
    exec /verif/.cache/target/debug/eqv replay "$f"
fi

ID="${1:?property id}"
TIER="${2:-${VERIF_TIER:-quick}}"
case "$ID" in
    C08|C14|C18)
        build_rt
        exec /verif/.cache/target-rt/release/eqv-rt check "$ID" --tier "$TIER" --seed "$SEED"
        ;;
    *)
        build_eqv
        exec /verif/.cache/target/debug/eqv check "$ID" --tier "$TIER" --seed "$SEED"
        ;;
esac
