#!/usr/bin/env python3
"""Generates /verif/MANIFEST.json from the table below (single source of truth)."""
import json, os, subprocess

CLAIMED = {
 "C01": dict(level="exploration", technique="property-based testing: generated programs x generated API histories; oracle = naive re-evaluation of every flat rule (independent reference elaborator) over the dumped closed model",
             text="Generated-input search: typed program generator (all rule shapes) x proptest API histories against the real generated code; after every completed close the dumped model is checked for closedness under every rule by a naive evaluator. Finds missing derivations on the explored programs/histories; says nothing beyond them.",
             note="Trusts the reference elaborator (paths, stages, type inference) and the driver adapter; closes of programs with `!` are bounded and bounded cases discarded.", ref="3/C01"),
 "C02": dict(level="exploration", technique="property-based testing: differential against a reference naive chase, compared up to the forced isomorphism",
             text="Differential testing: the closed model must be isomorphic (fixing caller-created ids, extended along function graphs) to the free model computed by an independent naive chase; plus element-id accounting against the staged strategy.",
             note="Only cases whose reference chase terminates within the bound (60 elements / 300 rounds) are judged.", ref="3/C02"),
 "C04": dict(level="exploration", technique="property-based testing: invariants over public dumps, exhaustive point queries on all id combinations and private index copies",
             text="After every close the public iterators, point queries on every id combination (roots and non-roots), enum case queries and every private index copy (column orders, new/old, diagonals, element index) are compared with one another.",
             note="Private fields are read by an adapter textually included into the generated module; field names are parsed from the emitted struct.", ref="3/C04"),
 "C05": dict(level="exploration", technique="model-based (stateful) property testing against a reference union-find and tuple sets",
             text="Stateful model-based testing: after every API call the full public state is compared with a reference state (dense ids, equivalence, tuples, define hit/miss).",
             note="Tuple queries are only judged while no equate_ happened since the last close, as the property states.", ref="3/C05"),
 "C06": dict(level="exploration", technique="property-based testing with a deterministic iteration bound as livelock detector",
             text="For programs without `!`: id counts and class counts before/after every close, and close_until with a counting condition whose iteration count is compared with a combinatorial bound (no wall clock).",
             note="Termination cannot be established by testing; a livelock is detected through the iteration bound only.", ref="3/C06"),
 "C03": dict(level="exploration", technique="metamorphic property testing: one fact set rendered into many API histories, final models compared up to isomorphism; idempotence of close",
             text="Metamorphic testing: a generated fact set (ground atoms with nested terms over named generators) is rendered into a one-shot history and k permuted histories with intermediate closes, duplicated assertions and different generator creation orders; all final models must be isomorphic (generators matched by name) and a second close must change nothing. Renderings may also suspend evaluation between assertions (close_until stopped after 1-4 evaluations); programs include relations with up to 5 columns.",
             note="Implementation-vs-implementation comparison; bounded (diverging) fact sets are discarded.", ref="3/C03"),
 "C07": dict(level="exploration", technique="two-phase property testing: trace-derived monotone conditions, homomorphism into the reference free model, resumption compared with the reference chase",
             text="Phase A records the state at every evaluation of the condition; a monotone condition over public queries that first turns true strictly inside the run is derived from the trace; phase B checks the return-value contract, containment of every stopping/observed state in the reference free model, a second close_until right after the early return (same condition: must return true at its first evaluation; or a condition that turns true later), and that close() after the early return(s) (plus further facts) reaches the free model.",
             note="Judged only where the reference chase terminates within its bound; conditions range over holds/defined/equal on caller-known ids and their and/or combinations.", ref="3/C07"),
 "C09": dict(level="exploration", technique="generated-program compile testing: repository CLI + real rustc in module and component mode",
             text="Every generated program (typed generator, wide profile: arities up to 9, constants, nullary predicates, enums; model programs) is compiled by the repository CLI; accepted programs must compile with rustc and link against the runtime in both build modes and run an empty history. In addition modules derived from the full surface grammar (models with member types/predicates/functions/rules, Mor types, dom/cod, morphism application, enums, named arguments; mostly well-typed by construction) must, when accepted, compile as a library in module mode and pass the component build.",
             note="Identifier pools avoid Rust keywords and generator-emitted names, as the property states. Two recorded findings (primed symbol names; sibling models sharing a member name) are excluded from generation by construction and demonstrated by replays.", ref="3/C09, 11.2"),
 "C10": dict(level="exploration", technique="mutation-based differential testing: single-defect mutants with by-construction verdicts + reference-free metamorphic relations",
             text="Well-formed generated programs must be accepted; single-defect mutants (19 operators) must be rejected with an error whose class and line belong to the injected defect; alpha-renaming, declaration permutation, re-layout and unused declarations must preserve verdict and class. Mutants are judged in a varied layout (comments with multi-byte characters before the defect) and must stay rejected when the well-formed rules of the original program are appended (rule-locality).",
             note="The reference verdict of a mutant is the set of admissible (class, line) pairs given by its operator, not a complete second implementation of the static semantics; fragment without models and casing errors.", ref="3/C10"),
 "C11": dict(level="exploration", technique="mutation-based fuzzing of source text (token, line-ending and byte level) with a diagnostic-grammar oracle",
             text="Corpus (programs of the typed generator, modules derived from the full surface grammar with and without semantic noise, repository theories and error tests) x 1-3 mutations per input; the compiler must exit 0 or 1, and every diagnostic must parse, name a line inside the file and print complete input lines containing it.",
             note="Inputs are valid UTF-8 of at most 8 KB; time-outs are inconclusive. Coverage-guided fuzzing of the compiler was rejected (DESIGN section 6).", ref="3/C11"),
 "C12": dict(level="fault_enumeration", technique="stateful property testing over edit/build histories with injected faults: enumerated kill points incl. torn writes (LD_PRELOAD), enumerated compiler faults (exit 1 early / after a partial write, death taking the build along, death by a signal alone)",
             text="Histories over several versions of a theory with builds killed before their k-th file-system mutation or in the middle of the k-th write (k enumerated for short histories), and with every kind of rustc failure on every component; after every successful build the complete output and component trees are compared with a clean build; no-op builds must not touch the file system. Versions of a theory are generated edits, minimal in-rule edits (two arguments of one atom swapped: the module text of a component build stays unchanged) and layout-/white-space-only edits.",
             note="Crash = process death between two file-system calls of the compiler (and inside rustc's output write); page-cache loss is not modelled. A stand-in for rustc produces byte-comparable libraries.", ref="3/C12"),
 "C13": dict(level="exploration", technique="differential testing of repeated compilations (threads, directories, cwd, environment) with byte comparison",
             text="Each program is compiled 12 times (module/component; repeat; RAYON_NUM_THREADS 1/2/3/16; different absolute and relative directories; different environment) and all generated files and digests are compared byte for byte. Modules derived from the full surface grammar (models, member types, morphisms) are compiled under the same variants.",
             note="Component libraries are produced by a deterministic stand-in for rustc.", ref="3/C13"),
 "C15": dict(level="exploration", technique="property-based testing of enum destructuring + static API scan + rejected mutants",
             text="After every close every id of every enum type is destructured (<enum>_cases and <enum>_case) and re-constructed; the emitted API is scanned for element constructors that bypass constructors; mutant rules defining non-constructor enum terms must be rejected.",
             note="Histories create enum elements only through constructor applications because the API offers nothing else.", ref="3/C15"),
 "C16": dict(level="exploration", technique="property-based testing: generated programs; (static) executable predicate over the emitted rule functions for all 2^n new/old labellings per family; (dynamic) generated API histories, the emitted rule functions of one iteration executed into fresh deltas and the multiset of enumerated matches compared with a naive nested-loop enumeration over the dumped new/old tables",
             text="Static: for every generated program the emitted sub-rule families are parsed (flat-rule comment and index fields read per premise position) and every new/old labelling is checked to be admitted by exactly one sub-rule (none for all-old). Dynamic: on states reached by generated histories (before closes, inside partially run close_until, at the end) every rule is run once into a fresh ModelDelta; every match with a new tuple must be pushed exactly once and no all-old match at all. The static part also runs on modules derived from the full surface grammar (member relations, morphism rules).",
             note="Atoms and conclusions of a family are read from the flat-rule comments (whether the source rule was lowered correctly is C01/C02). Rules with empty premise and premise atoms the judge cannot interpret are skipped and counted.", ref="3/C16 and 11.2"),
 "C17": dict(level="exploration", technique="property-based testing of model programs against a reference chase with inheritance spelled out as rules (isomorphism after every close)",
             text="Generated programs with one model declaration and rules over member atoms; generated acyclic morphism graphs, member/global facts and schedules (morphism rows, facts and closes interleaved); after every close the model must be closed and isomorphic to the reference chase in which inheritance along morphisms is an ordinary rule. Schedules also place closes between morphism rows before any fact exists, so that the dom/cod tables are split into an old and a new half when the facts arrive.",
             note="Member relations range over global types only; morphism graphs acyclic by construction; the trigger of the recorded finding (morphism rows after a close that saw facts) is excluded from generation and demonstrated by a replay.", ref="3/C17"),
 "C19": dict(level="exploration", technique="text comparison of module vs component outputs + differential execution of generated histories on both builds",
             text="Component sources are compared with the rule modules of the module build, environment structs/signatures/link names on both sides of the boundary are compared, and generated histories must give byte-identical transcripts on both drivers. The text comparison also runs on modules derived from the full surface grammar (models, member types, morphisms; stand-in rustc).",
             note="Real rustc builds the component libraries.", ref="3/C19"),
 "C20": dict(level="exploration", technique="differential execution: same script in three fresh processes with different layouts/environments, byte-identical transcripts",
             text="Every generated history is executed three times in fresh processes (ASLR, environment size, allocator settings, stack size) and complete transcripts including private index dumps are compared.",
             note="Nondeterminism that needs more than three executions to show is not detected.", ref="3/C20"),
 "C08": dict(level="exploration", technique="model-based property testing (proptest) + libFuzzer against BTreeSet reference", text="Operation sequences over families of containers of every arity 0..9 compared step by step with BTreeSet models; clone independence checked after every op.", note="get_mut/iter_restrictions_mut excluded (not in the property).", ref="3/C08"),
 "C14": dict(level="exploration", technique="model-based property testing + bounded exhaustive enumeration + libFuzzer against BTreeMap; balance via verif hook", text="Random and exhaustive (bounded) op sequences on families of clones against BTreeMap; weight balance, exact sizes and height bound after every op through the verif_shape hook.", note="Needs the `verif` feature hook in eqlog-runtime.", ref="3/C14"),
 "C18": dict(level="exploration", technique="property-based testing with a validity-predicate oracle + libFuzzer", text="Random multigraphs with partial dom/cod tables and random new/old splits; oracle is a validity predicate on the returned order plus Err iff cyclic.", note="Inputs restricted to what the generated caller can produce (functional tables).", ref="3/C18"),
}

NOT_YET = {
 # property -> reason (kept current; removed as soon as a check is registered)
}

def main():
    here = os.path.dirname(os.path.dirname(os.path.abspath(__file__)))
    props = [json.loads(l) for l in open(os.path.join(here, "properties.jsonl"))]
    enabled = json.load(open(os.path.join(here, "tools", "enabled.json")))
    checks = []
    na = []
    for p in props:
        pid = p["id"]
        if pid in enabled["claimed"] and pid in CLAIMED:
            c = CLAIMED[pid]
            checks.append({
                "property_id": pid,
                "quick_cmd": f"./run.sh {pid} quick",
                "thorough_cmd": f"./run.sh {pid} thorough",
                "evidence_file": f"/verif/evidence/{pid}.json",
                "replay_cmd_template": "./run.sh replay {path}",
                "engine": "eqv-rt" if pid in ("C08", "C14", "C18") else "eqv",
                "level_claimed": {"category": c["level"], "text": c["text"], "design_ref": "DESIGN.md section " + c["ref"]},
                "level_note": c["note"],
                "technique": c["technique"],
            })
        else:
            na.append({"property_id": pid, "reason": enabled["not_claimed"].get(pid, "check under construction in this round; not registered until it runs silently on the unchanged tree")})
    hooks_commits = enabled.get("hook_commits", [])
    m = {
        "version": 1,
        "setup_cmd": "./setup.sh",
        "hooks": {
            "guard": "cargo feature `verif` of eqlog-runtime (rustc: --cfg 'feature=\"verif\"')",
            "enable": "harness crates depend on eqlog-runtime with features=[\"verif\"]; the driver pipeline compiles /repo/eqlog-runtime/src/lib.rs with --cfg feature=\"verif\"",
            "baseline_off_cmd": "cd /repo && cargo test --workspace --no-fail-fast --offline",
            "source_commits": hooks_commits,
            "add_only": True,
        },
        "engines": [
            {"name": "eqv", "path": "harness/eqv", "serves_properties": [c["property_id"] for c in checks if c["engine"] == "eqv"], "kind_free_text": "proptest-driven program/history generator, reference elaborator + naive chase, driver pipeline (repository CLI + rustc), oracles"},
            {"name": "eqv-rt", "path": "harness/rt", "serves_properties": [c["property_id"] for c in checks if c["engine"] == "eqv-rt"], "kind_free_text": "proptest + cargo-fuzz model-based tests of eqlog-runtime"},
        ],
        "checks": checks,
        "not_applicable": na,
        "notes": "See DESIGN.md. Exit 2 of a check = inconclusive (infrastructure), never a violation.",
    }
    json.dump(m, open(os.path.join(here, "MANIFEST.json"), "w"), indent=1)
    print(f"{len(checks)} checks, {len(na)} not claimed")

main()
