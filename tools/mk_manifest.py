#!/usr/bin/env python3
"""Generates /verif/MANIFEST.json from the table below (single source of truth)."""
import json, os, subprocess

CLAIMED = {
 "C01": dict(level="exploration", technique="property-based testing: generated programs x generated API histories; oracle = naive re-evaluation of every flat rule (independent reference elaborator) over the dumped closed model",
             text="Generated-input search: typed program generator (all rule shapes) x proptest API histories against the real generated code; after every completed close the dumped model is checked for closedness under every rule by a naive evaluator. Finds missing derivations on the explored programs/histories; says nothing beyond them.",
             note="Trusts the reference elaborator (paths, stages, type inference) and the driver adapter; closes of programs with `!` are bounded and bounded cases discarded.", ref="3/C01"),
 "C02": dict(level="exploration", technique="property-based testing: differential against a reference naive chase, compared up to the forced isomorphism",
             text="Differential testing: the closed model must be isomorphic (fixing caller-created ids, extended along function graphs) to the free model computed by an independent naive chase; plus element-id accounting against the staged strategy.",
             note="Only cases whose reference chase terminates within the bound (60 elements / 300 rounds) are judged.", ref="3/C02"),
 "C04": dict(level="exploration", technique="property-based testing: invariants over public dumps, exhaustive point queries on all id combinations and private index copies",
             text="After every close the public iterators, point queries on every id combination (roots and non-roots), enum case queries and every private index copy (column orders, new/old, diagonals, element index) are compared with one another.",
             note="Private fields are read by an adapter textually included into the generated module; field names are parsed from the emitted struct.", ref="3/C04"),
 "C05": dict(level="exploration", technique="model-based (stateful) property testing against a reference union-find and tuple sets",
             text="Stateful model-based testing: after every API call the full public state is compared with a reference state (dense ids, equivalence, tuples, define hit/miss).",
             note="Tuple queries are only judged while no equate_ happened since the last close, as the property states.", ref="3/C05"),
 "C06": dict(level="exploration", technique="property-based testing with a deterministic iteration bound as livelock detector",
             text="For programs without `!`: id counts and class counts before/after every close, and close_until with a counting condition whose iteration count is compared with a combinatorial bound (no wall clock).",
             note="Termination cannot be established by testing; a livelock is detected through the iteration bound only.", ref="3/C06"),
 "C08": dict(level="exploration", technique="model-based property testing (proptest) + libFuzzer against BTreeSet reference", text="Operation sequences over families of containers of every arity 0..9 compared step by step with BTreeSet models; clone independence checked after every op.", note="get_mut/iter_restrictions_mut excluded (not in the property).", ref="3/C08"),
 "C14": dict(level="exploration", technique="model-based property testing + bounded exhaustive enumeration + libFuzzer against BTreeMap; balance via verif hook", text="Random and exhaustive (bounded) op sequences on families of clones against BTreeMap; weight balance, exact sizes and height bound after every op through the verif_shape hook.", note="Needs the `verif` feature hook in eqlog-runtime.", ref="3/C14"),
 "C18": dict(level="exploration", technique="property-based testing with a validity-predicate oracle + libFuzzer", text="Random multigraphs with partial dom/cod tables and random new/old splits; oracle is a validity predicate on the returned order plus Err iff cyclic.", note="Inputs restricted to what the generated caller can produce (functional tables).", ref="3/C18"),
}

NOT_YET = {
 # property -> reason (kept current; removed as soon as a check is registered)
}

def main():
    here = os.path.dirname(os.path.dirname(os.path.abspath(__file__)))
    props = [json.loads(l) for l in open(os.path.join(here, "properties.jsonl"))]
    enabled = json.load(open(os.path.join(here, "tools", "enabled.json")))
    checks = []
    na = []
    for p in props:
        pid = p["id"]
        if pid in enabled["claimed"] and pid in CLAIMED:
            c = CLAIMED[pid]
            checks.append({
                "property_id": pid,
                "quick_cmd": f"./run.sh {pid} quick",
                "thorough_cmd": f"./run.sh {pid} thorough",
                "evidence_file": f"/verif/evidence/{pid}.json",
                "replay_cmd_template": "./run.sh replay {path}",
                "engine": "eqv-rt" if pid in ("C08", "C14", "C18") else "eqv",
                "level_claimed": {"category": c["level"], "text": c["text"], "design_ref": "DESIGN.md section " + c["ref"]},
                "level_note": c["note"],
                "technique": c["technique"],
            })
        else:
            na.append({"property_id": pid, "reason": enabled["not_claimed"].get(pid, "check under construction in this round; not registered until it runs silently on the unchanged tree")})
    hooks_commits = enabled.get("hook_commits", [])
    m = {
        "version": 1,
        "setup_cmd": "./setup.sh",
        "hooks": {
            "guard": "cargo feature `verif` of eqlog-runtime (rustc: --cfg 'feature=\"verif\"')",
            "enable": "harness crates depend on eqlog-runtime with features=[\"verif\"]; the driver pipeline compiles /repo/eqlog-runtime/src/lib.rs with --cfg feature=\"verif\"",
            "baseline_off_cmd": "cd /repo && cargo test --workspace --no-fail-fast --offline",
            "source_commits": hooks_commits,
            "add_only": True,
        },
        "engines": [
            {"name": "eqv", "path": "harness/eqv", "serves_properties": [c["property_id"] for c in checks if c["engine"] == "eqv"], "kind_free_text": "proptest-driven program/history generator, reference elaborator + naive chase, driver pipeline (repository CLI + rustc), oracles"},
            {"name": "eqv-rt", "path": "harness/rt", "serves_properties": [c["property_id"] for c in checks if c["engine"] == "eqv-rt"], "kind_free_text": "proptest + cargo-fuzz model-based tests of eqlog-runtime"},
        ],
        "checks": checks,
        "not_applicable": na,
        "notes": "See DESIGN.md. Exit 2 of a check = inconclusive (infrastructure), never a violation.",
    }
    json.dump(m, open(os.path.join(here, "MANIFEST.json"), "w"), indent=1)
    print(f"{len(checks)} checks, {len(na)} not claimed")

main()
