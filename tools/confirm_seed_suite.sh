#!/bin/bash
# usage: confirm_suite.sh <ID> <worktree>  -- suite with the change only (retry once: the repository's
# test-eval build script can run before the changed runtime rlib exists)
id=$1; wt=$2; out=/tmp/seedout/$id
cd $wt || exit 2
export CARGO_NET_OFFLINE=true
[ -n "$(git status --short)" ] && { echo "worktree not clean"; exit 2; }
git apply $out/patch.diff || exit 2
for attempt in 1 2; do
  cargo test --workspace --no-fail-fast --offline > $out/confirm_suite.log 2>&1
  if grep -q "^test result" $out/confirm_suite.log; then break; fi
  echo "attempt $attempt: build failed, retrying"
done
grep -E "^test result" $out/confirm_suite.log | awk '{p+=$4; f+=$6} END {print "suite with change: passed=" p " failed=" f}'
git apply -R $out/patch.diff
git status --short | head -3
