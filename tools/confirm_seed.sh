#!/bin/bash
# usage: confirm.sh <ID> <worktree>   -- independent confirmation of a seeded change
id=$1; wt=$2; out=/tmp/seedout/$id
cd $wt || exit 2
export CARGO_NET_OFFLINE=true
[ -n "$(git status --short)" ] && { echo "worktree not clean"; git status --short | head; exit 2; }
demo_cmd=$(python3 -c "import json;print(json.load(open('$out/meta.json'))['demo_cmd'])")
echo "demo_cmd: $demo_cmd"
git apply $out/patch.diff || { echo "PATCH DOES NOT APPLY"; exit 2; }
echo "--- suite with change"
cargo test --workspace --no-fail-fast --offline > $out/confirm_suite.log 2>&1
grep -E "^test result" $out/confirm_suite.log | awk '{p+=$4; f+=$6} END {print "suite with change: passed=" p " failed=" f}'
cp -r $out/demo/. $wt/
echo "--- demo with change (expect FAIL)"
( eval "$demo_cmd" ) > $out/confirm_demo_with.log 2>&1; echo "demo with change rc=$?"
git apply -R $out/patch.diff
echo "--- demo without change (expect PASS)"
( eval "$demo_cmd" ) > $out/confirm_demo_without.log 2>&1; echo "demo without change rc=$?"
# remove demo files
( cd $out/demo && find . -type f ) | while read f; do
  if git ls-files --error-unmatch "$f" >/dev/null 2>&1; then git checkout -- "$f"; else rm -f "$wt/$f"; fi
done
git status --short | head
ls -la eqlog-eqlog/prebuilt/eqlog.rs | awk '{print "prebuilt size " $5}'
