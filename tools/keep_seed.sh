#!/bin/bash
# usage: keep_seed.sh <PROP> <Axx>  -- copies a confirmed agent-made change into /verif/seeded/<Axx>
prop=$1; id=$2; src=/tmp/seedout/$prop; dst=/verif/seeded/$id
mkdir -p $dst
cp $src/patch.diff $dst/patch.diff
rm -rf $dst/demo; cp -r $src/demo $dst/demo
python3 - "$prop" "$id" <<'PY'
import json,sys,re
prop,id=sys.argv[1],sys.argv[2]
src=f"/tmp/seedout/{prop}"
m=json.load(open(f"{src}/meta.json"))
log=open(f"{src}/confirm.log").read()
suite=re.search(r"suite with change: (.*)",log).group(1)
dw=re.search(r"demo with change rc=(\d+)",log).group(1)
dwo=re.search(r"demo without change rc=(\d+)",log).group(1)
out={
 "id": id,
 "origin": "written by an independent sub-agent that was given only the text of the property and a scratch worktree (nothing from /verif)",
 "breaks_property": prop,
 "what": m.get("summary"),
 "files_changed": m.get("files_changed"),
 "needs_to_manifest": m.get("needs_to_manifest"),
 "why_existing_tests_pass": m.get("why_existing_tests_pass"),
 "demonstration": {"cmd": m.get("demo_cmd"), "files": "demo/ (copy over the repository root)", "with_change": m.get("demo_output_with_change"), "without_change": m.get("demo_output_without_change")},
 "confirmed": {"how": "applied in a scratch worktree of /repo: full `cargo test --workspace --no-fail-fast --offline` with the change, demonstration with and without the change (tools: /tmp/confirm.sh, log kept in confirm.log)", "suite_with_change": suite, "demo_with_change_exit": int(dw), "demo_without_change_exit": int(dwo)},
 "detected_by": None
}
json.dump(out,open(f"/verif/seeded/{id}/meta.json","w"),indent=1)
PY
cp $src/confirm.log $dst/confirm.log
ls $dst
