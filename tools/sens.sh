#!/bin/bash
# usage: tools/sens.sh <patch.diff> <seed> <check id>...
# Applies a seeded change to /repo, runs the quick tier of the given checks, restores /repo.
# Prints one line per check: "<id> rc=<exit> violations=<n> time=<s>".
set -u
patch="$(readlink -f "$1")"; seed="$2"; shift 2
cd /repo
if ! git diff --quiet; then echo "/repo has uncommitted changes" >&2; exit 2; fi
git apply "$patch" || { echo "patch does not apply" >&2; exit 2; }
# undo with the reverse patch; never let git rewrite eqlog-eqlog/prebuilt/eqlog.rs (its committed blob is empty here)
trap 'cd /repo && git apply -R "$patch"; [ -s /repo/eqlog-eqlog/prebuilt/eqlog.rs ] || cp -p /verif/.cache/prebuilt-eqlog.rs.bak /repo/eqlog-eqlog/prebuilt/eqlog.rs' EXIT
cd /verif
for c in "$@"; do
  s=$(date +%s)
  VERIF_SEED=$seed ./run.sh "$c" quick > /tmp/sens_$c.out 2> /tmp/sens_$c.err
  rc=$?
  e=$(date +%s)
  echo "$c rc=$rc violations=$(grep -c '^VIOLATION' /tmp/sens_$c.out) time=$((e-s))s :: $(grep -m1 'violation of\|regression replay' /tmp/sens_$c.err | cut -c1-160)"
done
