#!/bin/bash
# usage: confirm_demo.sh <ID> <worktree> <demo cmd>  -- demo with / without the change only (suite already run)
id=$1; wt=$2; demo_cmd=$3; out=/tmp/seedout/$id
cd $wt || exit 2
export CARGO_NET_OFFLINE=true
[ -n "$(git status --short)" ] && { echo "worktree not clean"; exit 2; }
git apply $out/patch.diff || exit 2
cp -r $out/demo/. $wt/
( eval "$demo_cmd" ) > $out/confirm_demo_with.log 2>&1; echo "demo with change rc=$?"
git apply -R $out/patch.diff
( eval "$demo_cmd" ) > $out/confirm_demo_without.log 2>&1; echo "demo without change rc=$?"
( cd $out/demo && find . -type f ) | while read f; do
  if git ls-files --error-unmatch "$f" >/dev/null 2>&1; then git checkout -- "$f"; else rm -f "$wt/$f"; fi
done
git status --short | head
