#!/bin/bash
# like confirm.sh, but every cargo run is repeated once when it failed to BUILD with the runtime-rlib quirk
id=$1; wt=$2; out=/tmp/seedout/$id
cd $wt || exit 2
export CARGO_NET_OFFLINE=true
while [ -n "$(git status --short)" ]; do sleep 20; done
demo_cmd=$(python3 -c "import json;print(json.load(open('$out/meta.json'))['demo_cmd'])")
runq() { # runq <logfile> <cmd...>
  local log=$1; shift
  for a in 1 2 3; do ( eval "$@" ) > $log 2>&1; rc=$?; grep -q "Failed to find eqlog runtime rlib" $log || break; done
  return $rc
}
git apply $out/patch.diff || exit 2
runq $out/confirm_suite.log "cargo test --workspace --no-fail-fast --offline"
grep -E "^test result" $out/confirm_suite.log | awk '{p+=$4; f+=$6} END {print "suite with change: passed=" p " failed=" f}'
cp -r $out/demo/. $wt/
runq $out/confirm_demo_with.log "$demo_cmd"; echo "demo with change rc=$?"
git apply -R $out/patch.diff
runq $out/confirm_demo_without.log "$demo_cmd"; echo "demo without change rc=$?"
( cd $out/demo && find . -type f ) | while read f; do
  if git ls-files --error-unmatch "$f" >/dev/null 2>&1; then git checkout -- "$f"; else rm -f "$wt/$f"; fi
done
git status --short | head -3
ls -la eqlog-eqlog/prebuilt/eqlog.rs | awk '{print "prebuilt size " $5}'
