#!/bin/bash
# Sensitivity lanes: a relocated copy of /verif plus a scratch worktree of /repo, so that seeded
# changes can be tried without touching /repo (which registered checks and evidence always use).
#
#   tools/lane.sh create <n>                      /tmp/lane<n>/{repo,verif}; cold-builds the harness there
#   tools/lane.sh sync <n>                        re-copies /verif's harness sources into the lane (keeps build output);
#                                                 REVERTS a patch applied by a running `sens`: never sync a busy lane
#   tools/lane.sh sens <n> <patch> <seed> <id>..  apply patch in the lane's repo, run quick tiers, restore; one line per check
#   tools/lane.sh run <n> <id> <tier> [seed]      run one check in the lane as it is
#   tools/lane.sh destroy <n>
#
# NEVER edit this file in place while an instance is running (bash reads scripts incrementally; an in-place
# edit once made a running instance execute the `destroy` branch): write a new file and `mv` it over this one.
# The lane copy is produced by textual substitution of the two absolute roots; nothing else differs.
set -u
cmd="${1:?}"; n="${2:?lane number}"; shift 2
L=/tmp/lane$n
sync_lane() {
    mkdir -p $L/verif
    rsync -a --delete --exclude .cache --exclude .git --exclude 'harness/target' --exclude 'replays/found' --exclude evidence /verif/ $L/verif/
    mkdir -p $L/verif/evidence $L/verif/replays/found $L/verif/.cache/scratch
    grep -rlE '/repo|/verif' $L/verif --include=*.rs --include=*.toml --include=*.sh --include=*.c --include=*.json --include=*.py 2>/dev/null \
      | grep -v "^$L/verif/seeded/" | grep -v "^$L/verif/.cache/" \
      | xargs -r perl -pi -e "s#(?<![A-Za-z0-9_/.\\-])/(verif|repo)(?![A-Za-z0-9_])#$L/\$1#g"
}
# The committed blob of the bootstrapped module eqlog-eqlog/prebuilt/eqlog.rs is empty in this sandbox's
# object store; only /repo's working tree has the real file. Keep the lane's copy real and stat-clean
# (cp -p keeps the mtime, so cargo does not rebuild), otherwise `git checkout` would blank it.
fix_prebuilt() {
    if ! cmp -s /repo/eqlog-eqlog/prebuilt/eqlog.rs $L/repo/eqlog-eqlog/prebuilt/eqlog.rs; then
        cp -p /repo/eqlog-eqlog/prebuilt/eqlog.rs $L/repo/eqlog-eqlog/prebuilt/eqlog.rs
    fi
    git -C $L/repo update-index --refresh >/dev/null 2>&1
}
restore_repo() {
    cd $L/repo || { echo "lane $n has no repo" >&2; exit 2; }
    [ -f $L/applied.diff ] && git apply -R $L/applied.diff 2>/dev/null
    rm -f $L/applied.diff
    fix_prebuilt
    if [ -n "$(git status --short | grep -v '^??')" ]; then git checkout -q -- . ; fix_prebuilt; fi
    git clean -fdq -e target
}
case "$cmd" in
  create)
    rm -rf $L; mkdir -p $L
    git -C /repo worktree add --detach $L/repo HEAD >/dev/null || exit 2
    # the committed blob of the bootstrapped module is empty in this sandbox; the working tree has the real file
    fix_prebuilt
    sync_lane
    ( cd $L/verif && ./setup.sh > $L/setup.log 2>&1 ) || { echo "lane setup failed, see $L/setup.log"; exit 2; }
    echo "lane $n ready"
    ;;
  sync)
    sync_lane
    restore_repo
    ( cd $L/repo && git checkout -q --detach $(git -C /repo rev-parse HEAD) ); fix_prebuilt
    ;;
  sens)
    patch="$1"; seed="$2"; shift 2
    restore_repo
    cd $L/repo || exit 2
    git apply "$patch" || { echo "patch does not apply" >&2; exit 2; }
    cp "$patch" $L/applied.diff
    cd $L/verif || exit 2
    for c in "$@"; do
      s=$(date +%s)
      VERIF_SEED=$seed ./run.sh "$c" quick > $L/sens_$c.out 2> $L/sens_$c.err
      rc=$?
      e=$(date +%s)
      echo "$c rc=$rc violations=$(grep -c '^VIOLATION' $L/sens_$c.out) time=$((e-s))s :: $(grep -m1 'violation of\|regression replay' $L/sens_$c.err | cut -c1-200)"
    done
    restore_repo
    ;;
  run)
    id="$1"; tier="${2:-quick}"; seed="${3:-0}"
    cd $L/verif && VERIF_SEED=$seed ./run.sh "$id" "$tier"
    ;;
  destroy)
    git -C /repo worktree remove --force $L/repo 2>/dev/null
    rm -rf $L
    git -C /repo worktree prune
    ;;
esac
