#!/bin/bash
# MANIFEST.setup_cmd: cold build of the framework, offline, from files on disk only.
set -eu
cd "$(dirname "$0")"
export CARGO_NET_OFFLINE=true
mkdir -p .cache/scratch evidence replays/found replays/regress
( cd harness && cargo build -p eqlog-cli -p eqv )
if [ -d harness/rt ]; then ( cd harness/rt && cargo build --release ); fi
echo "setup done"
