#!/bin/bash
# Stand-in for rustc in component builds (C12, C13): writes a byte-comparable "rlib" consisting
# of a marker and the source text. Behaviour switches through the environment:
#   FAKE_RUSTC_FAIL_ON=<substring>   exit 1 when the source path contains the substring
#   FAKE_RUSTC_DIE_ON=<substring>    write half of the output, then kill the parent (eqlog) and self
#   FAKE_RUSTC_LOG=<file>            append one line per invocation
src=""
out=""
while [ $# -gt 0 ]; do
    case "$1" in
        -o) out="$2"; shift 2;;
        -C|--extern|-L|-l) shift 2;;
        --*|-g) shift;;
        *) if [ -z "$src" ]; then src="$1"; fi; shift;;
    esac
done
[ -n "${FAKE_RUSTC_LOG:-}" ] && echo "$src" >> "$FAKE_RUSTC_LOG"
if [ -n "${FAKE_RUSTC_FAIL_ON:-}" ] && [[ "$src" == *"$FAKE_RUSTC_FAIL_ON"* ]]; then
    echo "error: fake rustc asked to fail on $src" >&2
    exit 1
fi
if [ -n "${FAKE_RUSTC_DIE_ON:-}" ] && [[ "$src" == *"$FAKE_RUSTC_DIE_ON"* ]]; then
    printf 'FAKE-RLIB\n' > "$out"
    head -c 100 "$src" >> "$out"
    kill -9 $PPID
    kill -9 $$
fi
{ printf 'FAKE-RLIB\n'; cat "$src"; } > "$out"
