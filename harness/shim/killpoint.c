// LD_PRELOAD crash-point injector for C12.
// Active only in the process whose executable name contains KILLPOINT_EXE (default
// "eqlog-cli"); child processes (rustc, shell) are left alone.
// Counts mutating file-system calls of that process: open*/creat for writing, write/pwrite on
// such descriptors, unlink*, mkdir*, rename*, rmdir, truncate*. Before the K-th such call
// (KILLPOINT_K, 1-based; 0/unset = never) the process dies with _exit(137), as if killed.
// With KILLPOINT_TORN=1 a K-th call that is a write()/pwrite() is TORN instead: the first half of its
// bytes reaches the file, then the process dies (a crash in the middle of writing a file).
// Every counted call is appended to KILLPOINT_LOG (if set) as "<n> <op> <path>".
#define _GNU_SOURCE
#include <dlfcn.h>
#include <fcntl.h>
#include <stdarg.h>
#include <stdio.h>
#include <stdlib.h>
#include <string.h>
#include <sys/stat.h>
#include <sys/types.h>
#include <unistd.h>

static int active = -1;
static long kill_at = 0;
static long counter = 0;
static int log_fd = -1;
static int torn = 0;
static int tear_now = 0;
static unsigned char wfd[4096];

static ssize_t (*real_write)(int, const void *, size_t);

static void init(void) {
    if (active >= 0) return;
    active = 0;
    real_write = dlsym(RTLD_NEXT, "write");
    char exe[4096];
    ssize_t n = readlink("/proc/self/exe", exe, sizeof(exe) - 1);
    if (n <= 0) return;
    exe[n] = 0;
    const char *want = getenv("KILLPOINT_EXE");
    if (!want) want = "eqlog-cli";
    if (!strstr(exe, want)) return;
    const char *k = getenv("KILLPOINT_K");
    kill_at = k ? atol(k) : 0;
    const char *tn = getenv("KILLPOINT_TORN");
    torn = tn && *tn == '1';
    const char *lg = getenv("KILLPOINT_LOG");
    if (lg) {
        int (*real_open)(const char *, int, ...) = dlsym(RTLD_NEXT, "open");
        log_fd = real_open(lg, O_WRONLY | O_CREAT | O_APPEND, 0644);
    }
    active = 1;
}

static void hit(const char *op, const char *path) {
    init();
    if (active != 1) return;
    long n = __sync_add_and_fetch(&counter, 1);
    if (kill_at > 0 && n >= kill_at) {
        if (torn && op[0] == 'w' && n == kill_at) {
            tear_now = 1;
            return;
        }
        _exit(137);
    }
    if (log_fd >= 0) {
        char buf[4600];
        int len = snprintf(buf, sizeof(buf), "%ld %s %s\n", n, op, path ? path : "");
        if (len > 0) real_write(log_fd, buf, (size_t)len);
    }
}

static int is_write_flags(int flags) {
    return (flags & O_ACCMODE) != O_RDONLY || (flags & (O_CREAT | O_TRUNC));
}

#define OPEN_IMPL(NAME)                                                        \
    int NAME(const char *path, int flags, ...) {                               \
        static int (*real)(const char *, int, ...);                            \
        if (!real) real = dlsym(RTLD_NEXT, #NAME);                             \
        mode_t mode = 0;                                                       \
        if (flags & (O_CREAT | O_TMPFILE)) {                                   \
            va_list ap; va_start(ap, flags); mode = va_arg(ap, mode_t); va_end(ap); \
        }                                                                      \
        int w = is_write_flags(flags);                                         \
        if (w) hit(#NAME, path);                                               \
        int fd = real(path, flags, mode);                                      \
        if (w && fd >= 0 && fd < 4096 && fd != log_fd) wfd[fd] = 1;            \
        return fd;                                                             \
    }
OPEN_IMPL(open)
OPEN_IMPL(open64)

#define OPENAT_IMPL(NAME)                                                      \
    int NAME(int dirfd, const char *path, int flags, ...) {                    \
        static int (*real)(int, const char *, int, ...);                       \
        if (!real) real = dlsym(RTLD_NEXT, #NAME);                             \
        mode_t mode = 0;                                                       \
        if (flags & (O_CREAT | O_TMPFILE)) {                                   \
            va_list ap; va_start(ap, flags); mode = va_arg(ap, mode_t); va_end(ap); \
        }                                                                      \
        int w = is_write_flags(flags);                                         \
        if (w) hit(#NAME, path);                                               \
        int fd = real(dirfd, path, flags, mode);                               \
        if (w && fd >= 0 && fd < 4096 && fd != log_fd) wfd[fd] = 1;            \
        return fd;                                                             \
    }
OPENAT_IMPL(openat)
OPENAT_IMPL(openat64)

int creat(const char *path, mode_t mode) {
    static int (*real)(const char *, mode_t);
    if (!real) real = dlsym(RTLD_NEXT, "creat");
    hit("creat", path);
    int fd = real(path, mode);
    if (fd >= 0 && fd < 4096) wfd[fd] = 1;
    return fd;
}

ssize_t write(int fd, const void *buf, size_t n) {
    init();
    if (!real_write) real_write = dlsym(RTLD_NEXT, "write");
    if (fd >= 0 && fd < 4096 && wfd[fd]) hit("write", "");
    if (tear_now) {
        if (n > 1) real_write(fd, buf, n / 2);
        _exit(137);
    }
    return real_write(fd, buf, n);
}

ssize_t pwrite(int fd, const void *buf, size_t n, off_t off) {
    static ssize_t (*real)(int, const void *, size_t, off_t);
    if (!real) real = dlsym(RTLD_NEXT, "pwrite");
    if (fd >= 0 && fd < 4096 && wfd[fd]) hit("pwrite", "");
    if (tear_now) {
        if (n > 1) real(fd, buf, n / 2, off);
        _exit(137);
    }
    return real(fd, buf, n, off);
}

int close(int fd) {
    static int (*real)(int);
    if (!real) real = dlsym(RTLD_NEXT, "close");
    if (fd >= 0 && fd < 4096) wfd[fd] = 0;
    return real(fd);
}

#define PATH1_IMPL(NAME)                                                       \
    int NAME(const char *path) {                                               \
        static int (*real)(const char *);                                      \
        if (!real) real = dlsym(RTLD_NEXT, #NAME);                             \
        hit(#NAME, path);                                                      \
        return real(path);                                                     \
    }
PATH1_IMPL(unlink)
PATH1_IMPL(rmdir)

int unlinkat(int dirfd, const char *path, int flags) {
    static int (*real)(int, const char *, int);
    if (!real) real = dlsym(RTLD_NEXT, "unlinkat");
    hit("unlinkat", path);
    return real(dirfd, path, flags);
}

int mkdir(const char *path, mode_t mode) {
    static int (*real)(const char *, mode_t);
    if (!real) real = dlsym(RTLD_NEXT, "mkdir");
    // mkdir of an existing directory changes nothing; count only real creations
    struct stat st;
    if (stat(path, &st) != 0) hit("mkdir", path);
    return real(path, mode);
}

int mkdirat(int dirfd, const char *path, mode_t mode) {
    static int (*real)(int, const char *, mode_t);
    if (!real) real = dlsym(RTLD_NEXT, "mkdirat");
    hit("mkdirat", path);
    return real(dirfd, path, mode);
}

int rename(const char *a, const char *b) {
    static int (*real)(const char *, const char *);
    if (!real) real = dlsym(RTLD_NEXT, "rename");
    hit("rename", b);
    return real(a, b);
}

int renameat(int ad, const char *a, int bd, const char *b) {
    static int (*real)(int, const char *, int, const char *);
    if (!real) real = dlsym(RTLD_NEXT, "renameat");
    hit("renameat", b);
    return real(ad, a, bd, b);
}

int truncate(const char *path, off_t len) {
    static int (*real)(const char *, off_t);
    if (!real) real = dlsym(RTLD_NEXT, "truncate");
    hit("truncate", path);
    return real(path, len);
}

int ftruncate(int fd, off_t len) {
    static int (*real)(int, off_t);
    if (!real) real = dlsym(RTLD_NEXT, "ftruncate");
    hit("ftruncate", "");
    return real(fd, len);
}
