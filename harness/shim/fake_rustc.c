// Stand-in for rustc in component builds (C12, C13): writes a byte-comparable "rlib" consisting
// of a marker and the source text. Behaviour switches through the environment:
//   FAKE_RUSTC_FAIL_ON=<substring>   exit 1 when the source path contains the substring
//   FAKE_RUSTC_DIE_ON=<substring>    write part of the output, then kill the parent (eqlog) and self
//   FAKE_RUSTC_SELFKILL_ON=<substring>  write part of the output, then die from signal FAKE_RUSTC_SIGNAL
//                                       (default 9) ALONE: the parent survives and sees a child killed by a signal
//   FAKE_RUSTC_FAIL_LATE_ON=<substring> write part of the output, then exit 1 (a compiler that fails after it
//                                       started to write its output file)
#include <signal.h>
#include <stdio.h>
#include <stdlib.h>
#include <string.h>
#include <unistd.h>

int main(int argc, char **argv) {
    const char *src = NULL, *out = NULL;
    for (int i = 1; i < argc; i++) {
        const char *a = argv[i];
        if (!strcmp(a, "-o")) { out = argv[++i]; continue; }
        if (!strcmp(a, "-C") || !strcmp(a, "--extern") || !strcmp(a, "-L") || !strcmp(a, "-l")) { i++; continue; }
        if (a[0] == '-') continue;
        if (!src) src = a;
    }
    if (!src || !out) { fprintf(stderr, "fake rustc: missing source or -o\n"); return 2; }
    const char *fail = getenv("FAKE_RUSTC_FAIL_ON");
    if (fail && *fail && strstr(src, fail)) {
        fprintf(stderr, "error: fake rustc asked to fail on %s\n", src);
        return 1;
    }
    FILE *in = fopen(src, "rb");
    if (!in) { perror("fake rustc: source"); return 1; }
    FILE *o = fopen(out, "wb");
    if (!o) { perror("fake rustc: output"); return 1; }
    fputs("FAKE-RLIB\n", o);
    const char *die = getenv("FAKE_RUSTC_DIE_ON");
    int dying = die && *die && strstr(src, die);
    const char *selfkill = getenv("FAKE_RUSTC_SELFKILL_ON");
    int selfkilling = selfkill && *selfkill && strstr(src, selfkill);
    const char *late = getenv("FAKE_RUSTC_FAIL_LATE_ON");
    int failing_late = late && *late && strstr(src, late);
    char buf[65536];
    size_t n, total = 0;
    while ((n = fread(buf, 1, sizeof buf, in)) > 0) {
        if (dying) {
            fwrite(buf, 1, n < 100 ? n : 100, o);
            fflush(o);
            kill(getppid(), SIGKILL);
            kill(getpid(), SIGKILL);
        }
        if (selfkilling) {
            const char *sg = getenv("FAKE_RUSTC_SIGNAL");
            int signo = sg && *sg ? atoi(sg) : SIGKILL;
            fwrite(buf, 1, n < 100 ? n : 100, o);
            fflush(o);
            signal(signo, SIG_DFL);
            kill(getpid(), signo);
            kill(getpid(), SIGKILL);
        }
        if (failing_late) {
            fwrite(buf, 1, n < 100 ? n : 100, o);
            fflush(o);
            fprintf(stderr, "error: fake rustc asked to fail late on %s\n", src);
            return 1;
        }
        fwrite(buf, 1, n, o);
        total += n;
    }
    fclose(in);
    if (fclose(o) != 0) return 1;
    return 0;
}
