#![no_main]
//! C18: bytes -> multigraph + 3 new/old splits -> the same oracle as `eqv-rt check C18`.
use libfuzzer_sys::fuzz_target;

fuzz_target!(|data: &[u8]| {
    let case = eqv_rt::topo::codec::case_from_bytes(data);
    if let Err(e) = eqv_rt::topo::check_topo(&case) {
        panic!("C18 violated: {e}");
    }
});
