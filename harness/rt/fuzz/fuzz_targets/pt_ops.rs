#![no_main]
//! C08: bytes -> generator ops -> concrete PrefixTree op sequence -> the same oracle as `eqv-rt check C08`.
use libfuzzer_sys::fuzz_target;
use std::sync::OnceLock;

use eqv_rt::util::Exclusions;

static EXCL: OnceLock<Exclusions> = OnceLock::new();

fuzz_target!(|data: &[u8]| {
    let excl = EXCL.get_or_init(|| Exclusions::from_env().expect("valid EQV_RT_EXCLUDE"));
    let case = eqv_rt::pt::codec::case_from_bytes(data, excl);
    if let Err(e) = eqv_rt::pt::check_pt(&case) {
        panic!("C08 violated: {e}");
    }
});
