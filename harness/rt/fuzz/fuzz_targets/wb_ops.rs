#![no_main]
//! C14: bytes -> generator ops -> concrete WBTreeMap/WBTreeSet op sequence -> the same oracle as `eqv-rt check C14`.
use libfuzzer_sys::fuzz_target;

fuzz_target!(|data: &[u8]| {
    let case = eqv_rt::wb::codec::case_from_bytes(data);
    if let Err(e) = eqv_rt::wb::check_wb(&case) {
        panic!("C14 violated: {e}");
    }
});
