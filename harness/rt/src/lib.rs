//! eqv-rt: property checks for the eqlog runtime library (`/repo/eqlog-runtime`).
//!
//!  * `pt`   — C08, tuple containers `PrefixTree0..9`
//!  * `wb`   — C14, `WBTreeMap` / `WBTreeSet`
//!  * `topo` — C18, `morphism_toposort`
//!
//! Operation types, decoders and oracles live here so that the proptest campaigns (`campaign`,
//! feature `gen`), the replay command and the libFuzzer targets (`fuzz/`) all run the same code.

pub mod pt;
pub mod replay;
pub mod topo;
pub mod util;
pub mod wb;

#[cfg(feature = "gen")]
pub mod campaign;
#[cfg(feature = "gen")]
pub mod fuzzrun;
