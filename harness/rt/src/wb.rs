//! C14: `WBTreeMap<u64>` / `WBTreeSet` against `BTreeMap<u32,u64>` / `BTreeSet<u32>`, on families
//! of clones, with structural checks through `verif_shape()` after every operation.

use std::collections::{BTreeMap, BTreeSet};

use eqlog_runtime::wbtree::map::{Entry, WBTreeMap};
use eqlog_runtime::wbtree::set::WBTreeSet;
use serde::{Deserialize, Serialize};

use crate::util::{catch_panic, sel, Mismatch};

pub const MAPS: usize = 4;
pub const SETS: usize = 4;

/// Non-commutative merge used for `union`: swapping the operands changes the result.
pub fn merge_fn(k: u32, left: u64, right: u64) -> u64 {
    left.wrapping_mul(1_000_003)
        .wrapping_add(right.wrapping_mul(7))
        .wrapping_add(k as u64)
}

/// Asymmetric filter used for `difference`.
pub fn diff_fn(k: u32, left: u64, right: u64) -> Option<u64> {
    let h = left
        .wrapping_mul(3)
        .wrapping_add(right.wrapping_mul(5))
        .wrapping_add(k as u64);
    if h % 3 == 0 {
        None
    } else {
        Some(
            left.wrapping_mul(31)
                .wrapping_add(right.wrapping_mul(17))
                .wrapping_add(k as u64),
        )
    }
}

#[derive(Serialize, Deserialize, Clone, Debug, PartialEq, Eq, Hash)]
#[serde(tag = "op", rename_all = "snake_case")]
pub enum WbOp {
    Insert { m: u8, k: u32, v: u64 },
    Remove { m: u8, k: u32 },
    Get { m: u8, k: u32 },
    /// `if let Some(x) = get_mut(k) { *x = v }`
    GetMutWrite { m: u8, k: u32, v: u64 },
    ContainsKey { m: u8, k: u32 },
    /// `let r = entry(k).or_insert(v); *r += add`
    EntryOrInsert { m: u8, k: u32, v: u64, add: u64 },
    /// `entry(k).or_insert_with(|| v)`; the closure must run iff the key is vacant
    EntryOrInsertWith { m: u8, k: u32, v: u64 },
    /// occupied: `*e.get_mut() = v` twice through the same entry; vacant: nothing
    EntryOccGetMut { m: u8, k: u32, v: u64 },
    /// occupied: `*e.into_mut() = v`
    EntryOccIntoMut { m: u8, k: u32, v: u64 },
    /// occupied: `e.remove()`
    EntryOccRemove { m: u8, k: u32 },
    /// vacant: `*e.insert(v)`
    EntryVacantInsert { m: u8, k: u32, v: u64 },
    /// `for (k, x) in iter_mut().take(take) { *x = x * mul + add + k }`
    IterMutWrite { m: u8, take: u32, mul: u64, add: u64 },
    Clear { m: u8 },
    /// `map[dst] = map[a].union(&map[b], merge_fn)`
    Union { a: u8, b: u8, dst: u8 },
    /// `map[dst] = map[a].difference(&map[b], diff_fn)`
    Difference { a: u8, b: u8, dst: u8 },
    Clone { src: u8, dst: u8 },
    SetInsert { s: u8, k: u32 },
    SetRemove { s: u8, k: u32 },
    SetContains { s: u8, k: u32 },
    SetClear { s: u8 },
    SetUnion { a: u8, b: u8, dst: u8 },
    SetDifference { a: u8, b: u8, dst: u8 },
    SetClone { src: u8, dst: u8 },
}

pub const KIND_NAMES: [&str; 23] = [
    "insert",
    "remove",
    "get",
    "get_mut_write",
    "contains_key",
    "entry_or_insert",
    "entry_or_insert_with",
    "entry_occ_get_mut",
    "entry_occ_into_mut",
    "entry_occ_remove",
    "entry_vacant_insert",
    "iter_mut_write",
    "clear",
    "union",
    "difference",
    "clone",
    "set_insert",
    "set_remove",
    "set_contains",
    "set_clear",
    "set_union",
    "set_difference",
    "set_clone",
];

impl WbOp {
    pub fn kind(&self) -> usize {
        match self {
            WbOp::Insert { .. } => 0,
            WbOp::Remove { .. } => 1,
            WbOp::Get { .. } => 2,
            WbOp::GetMutWrite { .. } => 3,
            WbOp::ContainsKey { .. } => 4,
            WbOp::EntryOrInsert { .. } => 5,
            WbOp::EntryOrInsertWith { .. } => 6,
            WbOp::EntryOccGetMut { .. } => 7,
            WbOp::EntryOccIntoMut { .. } => 8,
            WbOp::EntryOccRemove { .. } => 9,
            WbOp::EntryVacantInsert { .. } => 10,
            WbOp::IterMutWrite { .. } => 11,
            WbOp::Clear { .. } => 12,
            WbOp::Union { .. } => 13,
            WbOp::Difference { .. } => 14,
            WbOp::Clone { .. } => 15,
            WbOp::SetInsert { .. } => 16,
            WbOp::SetRemove { .. } => 17,
            WbOp::SetContains { .. } => 18,
            WbOp::SetClear { .. } => 19,
            WbOp::SetUnion { .. } => 20,
            WbOp::SetDifference { .. } => 21,
            WbOp::SetClone { .. } => 22,
        }
    }
    pub fn text(&self) -> String {
        serde_json::to_string(self).unwrap_or_else(|_| format!("{self:?}"))
    }
}

#[derive(Serialize, Deserialize, Clone, Debug, PartialEq, Eq, Hash)]
pub struct WbCase {
    pub ops: Vec<WbOp>,
}

impl WbCase {
    pub fn validate(&self) -> Result<(), String> {
        let m = |x: u8| -> Result<(), String> {
            if (x as usize) < MAPS {
                Ok(())
            } else {
                Err(format!("slot {x} out of range 0..{MAPS}"))
            }
        };
        for (i, op) in self.ops.iter().enumerate() {
            let r = match op {
                WbOp::Insert { m: s, .. }
                | WbOp::Remove { m: s, .. }
                | WbOp::Get { m: s, .. }
                | WbOp::GetMutWrite { m: s, .. }
                | WbOp::ContainsKey { m: s, .. }
                | WbOp::EntryOrInsert { m: s, .. }
                | WbOp::EntryOrInsertWith { m: s, .. }
                | WbOp::EntryOccGetMut { m: s, .. }
                | WbOp::EntryOccIntoMut { m: s, .. }
                | WbOp::EntryOccRemove { m: s, .. }
                | WbOp::EntryVacantInsert { m: s, .. }
                | WbOp::IterMutWrite { m: s, .. }
                | WbOp::Clear { m: s }
                | WbOp::SetInsert { s, .. }
                | WbOp::SetRemove { s, .. }
                | WbOp::SetContains { s, .. }
                | WbOp::SetClear { s } => m(*s),
                WbOp::Union { a, b, dst }
                | WbOp::Difference { a, b, dst }
                | WbOp::SetUnion { a, b, dst }
                | WbOp::SetDifference { a, b, dst } => m(*a).and_then(|_| m(*b)).and_then(|_| m(*dst)),
                WbOp::Clone { src, dst } | WbOp::SetClone { src, dst } => {
                    m(*src).and_then(|_| m(*dst))
                }
            };
            r.map_err(|e| format!("op #{i} {}: {e}", op.text()))?;
        }
        Ok(())
    }
}

#[derive(Clone, Debug, Default)]
pub struct WbStats {
    pub kinds: u32,
    /// a remove / occupied-entry remove / difference deleted an existing key
    pub deleted_existing: bool,
    /// a map or set was mutated while a clone relative (explicit `clone` lineage) was alive
    pub mutation_with_live_clone: bool,
    /// the merge / filter callback was invoked at least once
    pub callback_invoked: bool,
    pub final_max_len: usize,
    pub max_len: usize,
    pub max_height: usize,
    pub ops: usize,
}

impl WbStats {
    pub fn nontrivial(&self) -> bool {
        self.deleted_existing && self.mutation_with_live_clone && self.final_max_len >= 3
    }
}

type MModel = BTreeMap<u32, u64>;
type SModel = BTreeSet<u32>;

pub struct ModelState {
    pub maps: Vec<MModel>,
    pub sets: Vec<SModel>,
    rel_m: [[bool; MAPS]; MAPS],
    rel_s: [[bool; SETS]; SETS],
    pub stats: WbStats,
}

fn reset_rel<const N: usize>(rel: &mut [[bool; N]; N], s: usize) {
    for x in 0..N {
        rel[s][x] = false;
        rel[x][s] = false;
    }
}
fn inherit<const N: usize>(rel: &mut [[bool; N]; N], dst: usize, src: usize) {
    if dst == src {
        return;
    }
    let row = rel[src];
    reset_rel(rel, dst);
    for (x, r) in row.iter().enumerate() {
        if *r && x != dst {
            rel[dst][x] = true;
            rel[x][dst] = true;
        }
    }
    rel[dst][src] = true;
    rel[src][dst] = true;
}

/// Expected observable result of an op.
#[derive(Clone, Debug, PartialEq, Eq)]
pub enum Ret {
    None,
    Bool(bool),
    Val(Option<u64>),
    /// merge/filter callback invocations in key order: (key, left, right)
    Calls(Vec<(u32, u64, u64)>),
}

impl ModelState {
    pub fn new() -> Self {
        ModelState {
            maps: vec![MModel::new(); MAPS],
            sets: vec![SModel::new(); SETS],
            rel_m: [[false; MAPS]; MAPS],
            rel_s: [[false; SETS]; SETS],
            stats: WbStats::default(),
        }
    }
    fn mutated_m(&mut self, s: usize) {
        if self.rel_m[s].iter().any(|b| *b) {
            self.stats.mutation_with_live_clone = true;
        }
    }
    fn mutated_s(&mut self, s: usize) {
        if self.rel_s[s].iter().any(|b| *b) {
            self.stats.mutation_with_live_clone = true;
        }
    }

    pub fn apply(&mut self, op: &WbOp) -> Ret {
        self.stats.kinds |= 1 << op.kind();
        self.stats.ops += 1;
        let ret = match op {
            WbOp::Insert { m, k, v } => {
                let s = *m as usize;
                self.mutated_m(s);
                Ret::Val(self.maps[s].insert(*k, *v))
            }
            WbOp::Remove { m, k } | WbOp::EntryOccRemove { m, k } => {
                let s = *m as usize;
                let r = self.maps[s].remove(k);
                if r.is_some() {
                    self.stats.deleted_existing = true;
                    self.mutated_m(s);
                }
                Ret::Val(r)
            }
            WbOp::Get { m, k } => Ret::Val(self.maps[*m as usize].get(k).copied()),
            WbOp::GetMutWrite { m, k, v }
            | WbOp::EntryOccGetMut { m, k, v }
            | WbOp::EntryOccIntoMut { m, k, v } => {
                let s = *m as usize;
                let old = self.maps[s].get(k).copied();
                if let Some(x) = self.maps[s].get_mut(k) {
                    *x = *v;
                }
                if old.is_some() {
                    self.mutated_m(s);
                }
                Ret::Val(old)
            }
            WbOp::ContainsKey { m, k } => Ret::Bool(self.maps[*m as usize].contains_key(k)),
            WbOp::EntryOrInsert { m, k, v, add } => {
                let s = *m as usize;
                let e = self.maps[s].entry(*k).or_insert(*v);
                let seen = *e;
                *e = e.wrapping_add(*add);
                self.mutated_m(s);
                Ret::Val(Some(seen))
            }
            WbOp::EntryOrInsertWith { m, k, v } => {
                let s = *m as usize;
                let vacant = !self.maps[s].contains_key(k);
                let e = *self.maps[s].entry(*k).or_insert(*v);
                if vacant {
                    self.mutated_m(s);
                }
                // Val = value seen through the returned reference; vacant flag via Bool is
                // checked separately by the executor
                Ret::Val(Some(e))
            }
            WbOp::EntryVacantInsert { m, k, v } => {
                let s = *m as usize;
                if self.maps[s].contains_key(k) {
                    Ret::Val(None)
                } else {
                    self.maps[s].insert(*k, *v);
                    self.mutated_m(s);
                    Ret::Val(Some(*v))
                }
            }
            WbOp::IterMutWrite { m, take, mul, add } => {
                let s = *m as usize;
                let mut n = 0;
                for (k, x) in self.maps[s].iter_mut().take(*take as usize) {
                    *x = x.wrapping_mul(*mul).wrapping_add(*add).wrapping_add(*k as u64);
                    n += 1;
                }
                if n > 0 {
                    self.mutated_m(s);
                }
                Ret::None
            }
            WbOp::Clear { m } => {
                let s = *m as usize;
                if !self.maps[s].is_empty() {
                    self.mutated_m(s);
                }
                self.maps[s].clear();
                Ret::None
            }
            WbOp::Union { a, b, dst } => {
                let (a, b, dst) = (*a as usize, *b as usize, *dst as usize);
                let mut calls = Vec::new();
                let mut r = self.maps[a].clone();
                for (k, rv) in self.maps[b].iter() {
                    match r.get_mut(k) {
                        Some(lv) => {
                            calls.push((*k, *lv, *rv));
                            *lv = merge_fn(*k, *lv, *rv);
                        }
                        None => {
                            r.insert(*k, *rv);
                        }
                    }
                }
                if !calls.is_empty() {
                    self.stats.callback_invoked = true;
                }
                reset_rel(&mut self.rel_m, dst);
                self.maps[dst] = r;
                Ret::Calls(calls)
            }
            WbOp::Difference { a, b, dst } => {
                let (a, b, dst) = (*a as usize, *b as usize, *dst as usize);
                let mut calls = Vec::new();
                let mut r = MModel::new();
                for (k, lv) in self.maps[a].iter() {
                    match self.maps[b].get(k) {
                        Some(rv) => {
                            calls.push((*k, *lv, *rv));
                            match diff_fn(*k, *lv, *rv) {
                                Some(nv) => {
                                    r.insert(*k, nv);
                                }
                                None => self.stats.deleted_existing = true,
                            }
                        }
                        None => {
                            r.insert(*k, *lv);
                        }
                    }
                }
                if !calls.is_empty() {
                    self.stats.callback_invoked = true;
                }
                reset_rel(&mut self.rel_m, dst);
                self.maps[dst] = r;
                Ret::Calls(calls)
            }
            WbOp::Clone { src, dst } => {
                let (src, dst) = (*src as usize, *dst as usize);
                if src != dst {
                    let m = self.maps[src].clone();
                    if m.is_empty() {
                        reset_rel(&mut self.rel_m, dst);
                    } else {
                        inherit(&mut self.rel_m, dst, src);
                    }
                    self.maps[dst] = m;
                }
                Ret::None
            }
            WbOp::SetInsert { s, k } => {
                let i = *s as usize;
                let r = self.sets[i].insert(*k);
                if r {
                    self.mutated_s(i);
                }
                Ret::Bool(r)
            }
            WbOp::SetRemove { s, k } => {
                let i = *s as usize;
                let r = self.sets[i].remove(k);
                if r {
                    self.stats.deleted_existing = true;
                    self.mutated_s(i);
                }
                Ret::Bool(r)
            }
            WbOp::SetContains { s, k } => Ret::Bool(self.sets[*s as usize].contains(k)),
            WbOp::SetClear { s } => {
                let i = *s as usize;
                if !self.sets[i].is_empty() {
                    self.mutated_s(i);
                }
                self.sets[i].clear();
                Ret::None
            }
            WbOp::SetUnion { a, b, dst } => {
                let r: SModel = self.sets[*a as usize]
                    .union(&self.sets[*b as usize])
                    .copied()
                    .collect();
                reset_rel(&mut self.rel_s, *dst as usize);
                self.sets[*dst as usize] = r;
                Ret::None
            }
            WbOp::SetDifference { a, b, dst } => {
                let r: SModel = self.sets[*a as usize]
                    .difference(&self.sets[*b as usize])
                    .copied()
                    .collect();
                if r.len() != self.sets[*a as usize].len() {
                    self.stats.deleted_existing = true;
                }
                reset_rel(&mut self.rel_s, *dst as usize);
                self.sets[*dst as usize] = r;
                Ret::None
            }
            WbOp::SetClone { src, dst } => {
                let (src, dst) = (*src as usize, *dst as usize);
                if src != dst {
                    let m = self.sets[src].clone();
                    if m.is_empty() {
                        reset_rel(&mut self.rel_s, dst);
                    } else {
                        inherit(&mut self.rel_s, dst, src);
                    }
                    self.sets[dst] = m;
                }
                Ret::None
            }
        };
        let mx = self
            .maps
            .iter()
            .map(|m| m.len())
            .chain(self.sets.iter().map(|s| s.len()))
            .max()
            .unwrap_or(0);
        self.stats.final_max_len = mx;
        if mx > self.stats.max_len {
            self.stats.max_len = mx;
        }
        ret
    }
}

impl Default for ModelState {
    fn default() -> Self {
        Self::new()
    }
}

/// `ceil(2.41 * log2(n + 1)) + 1`: every child of a weight balanced node (delta = 3) carries at
/// most 3/4 of the node's weight, hence height <= log_{4/3}(n+1) = 2.4094 * log2(n+1).
pub fn height_bound(n: usize) -> usize {
    if n == 0 {
        return 0;
    }
    (2.41 * ((n + 1) as f64).log2()).ceil() as usize + 1
}

fn fmt_entries(v: &[(u32, u64)]) -> String {
    const MAX: usize = 24;
    if v.len() <= MAX {
        format!("{v:?}")
    } else {
        format!("{:?} ... ({} entries)", &v[..MAX], v.len())
    }
}

pub fn check_map(t: &WBTreeMap<u64>, m: &MModel, label: &dyn std::fmt::Display, stats: &mut WbStats) -> Result<(), Mismatch> {
    // allocation free comparison; the entry lists are only materialised for the report
    let same = {
        let mut a = t.iter();
        let mut b = m.iter();
        loop {
            match (a.next(), b.next()) {
                (None, None) => break true,
                (Some((k1, v1)), Some((k2, v2))) if k1 == *k2 && *v1 == *v2 => {}
                _ => break false,
            }
        }
    };
    if !same {
        let got: Vec<(u32, u64)> = t.iter().map(|(k, v)| (k, *v)).collect();
        let want: Vec<(u32, u64)> = m.iter().map(|(k, v)| (*k, *v)).collect();
        return Err(Mismatch::new(
            format!("{label}: iter() (ascending keys, exact entries)"),
            fmt_entries(&want),
            fmt_entries(&got),
        ));
    }
    if t.len() != m.len() {
        return Err(Mismatch::new(
            format!("{label}: len()"),
            format!("{}", m.len()),
            format!("{}", t.len()),
        ));
    }
    if t.is_empty() != m.is_empty() {
        return Err(Mismatch::new(
            format!("{label}: is_empty()"),
            format!("{}", m.is_empty()),
            format!("{}", t.is_empty()),
        ));
    }
    let (height, nodes, balanced, exact) = t.verif_shape();
    if !balanced {
        return Err(Mismatch::new(
            format!("{label}: weight-balance invariant at every node (verif_shape)"),
            "balanced",
            format!("unbalanced node; height {height}, {nodes} nodes"),
        ));
    }
    if !exact {
        return Err(Mismatch::new(
            format!("{label}: cached subtree sizes exact (verif_shape)"),
            "exact",
            format!("inexact cached size; {nodes} nodes"),
        ));
    }
    if nodes != m.len() {
        return Err(Mismatch::new(
            format!("{label}: node count == len"),
            format!("{}", m.len()),
            format!("{nodes}"),
        ));
    }
    let bound = height_bound(nodes);
    if height > bound {
        return Err(Mismatch::new(
            format!("{label}: height <= ceil(2.41*log2(n+1))+1 for n={nodes}"),
            format!("<= {bound}"),
            format!("{height}"),
        ));
    }
    if height > stats.max_height {
        stats.max_height = height;
    }
    Ok(())
}

pub fn check_set(t: &WBTreeSet, m: &SModel, label: &dyn std::fmt::Display) -> Result<(), Mismatch> {
    if !t.iter().eq(m.iter().copied()) {
        let got: Vec<u32> = t.iter().collect();
        let want: Vec<u32> = m.iter().copied().collect();
        return Err(Mismatch::new(
            format!("{label}: iter() (ascending, exact)"),
            format!("{want:?}"),
            format!("{got:?}"),
        ));
    }
    if t.len() != m.len() {
        return Err(Mismatch::new(
            format!("{label}: len()"),
            format!("{}", m.len()),
            format!("{}", t.len()),
        ));
    }
    if t.is_empty() != m.is_empty() {
        return Err(Mismatch::new(
            format!("{label}: is_empty()"),
            format!("{}", m.is_empty()),
            format!("{}", t.is_empty()),
        ));
    }
    Ok(())
}

pub struct Real {
    pub maps: Vec<WBTreeMap<u64>>,
    pub sets: Vec<WBTreeSet>,
}

impl Real {
    pub fn new() -> Self {
        Real {
            maps: (0..MAPS).map(|_| WBTreeMap::new()).collect(),
            sets: (0..SETS).map(|_| WBTreeSet::new()).collect(),
        }
    }
}

impl Default for Real {
    fn default() -> Self {
        Self::new()
    }
}

fn cmp_val(name: &str, want: &Ret, got: Option<u64>) -> Result<(), Mismatch> {
    match want {
        Ret::Val(w) if *w != got => Err(Mismatch::new(
            format!("return value of {name}"),
            format!("{w:?}"),
            format!("{got:?}"),
        )),
        _ => Ok(()),
    }
}
fn cmp_bool(name: &str, want: &Ret, got: bool) -> Result<(), Mismatch> {
    match want {
        Ret::Bool(w) if *w != got => Err(Mismatch::new(
            format!("return value of {name}"),
            format!("{w}"),
            format!("{got}"),
        )),
        _ => Ok(()),
    }
}

/// Execute one op on the real structures and compare its direct observable result.
pub fn exec_op(real: &mut Real, model: &mut ModelState, op: &WbOp) -> Result<(), Mismatch> {
    let pre_occupied = match op {
        WbOp::EntryOrInsertWith { m, k, .. }
        | WbOp::EntryOccGetMut { m, k, .. }
        | WbOp::EntryOccIntoMut { m, k, .. }
        | WbOp::EntryOccRemove { m, k }
        | WbOp::EntryVacantInsert { m, k, .. } => model.maps[*m as usize].contains_key(k),
        _ => false,
    };
    let want = model.apply(op);
    let entry_kind = |occupied: bool| -> Result<(), Mismatch> {
        if occupied != pre_occupied {
            let name = |b| if b { "Occupied" } else { "Vacant" };
            return Err(Mismatch::new("entry(k) variant", name(pre_occupied), name(occupied)));
        }
        Ok(())
    };
    match op {
        WbOp::Insert { m, k, v } => {
            let got = real.maps[*m as usize].insert(*k, *v);
            cmp_val("insert (previous value)", &want, got)?;
        }
        WbOp::Remove { m, k } => {
            let got = real.maps[*m as usize].remove(k);
            cmp_val("remove", &want, got)?;
        }
        WbOp::Get { m, k } => {
            let got = real.maps[*m as usize].get(k).copied();
            cmp_val("get", &want, got)?;
        }
        WbOp::GetMutWrite { m, k, v } => {
            let got = match real.maps[*m as usize].get_mut(k) {
                Some(x) => {
                    let old = *x;
                    *x = *v;
                    Some(old)
                }
                None => None,
            };
            cmp_val("get_mut (value before the write)", &want, got)?;
        }
        WbOp::ContainsKey { m, k } => {
            let got = real.maps[*m as usize].contains_key(k);
            cmp_bool("contains_key", &want, got)?;
        }
        WbOp::EntryOrInsert { m, k, v, add } => {
            let r = real.maps[*m as usize].entry(*k).or_insert(*v);
            let seen = *r;
            *r = r.wrapping_add(*add);
            cmp_val("*entry(k).or_insert(v)", &want, Some(seen))?;
        }
        WbOp::EntryOrInsertWith { m, k, v } => {
            let mut called = false;
            let r = real.maps[*m as usize].entry(*k).or_insert_with(|| {
                called = true;
                *v
            });
            let seen = *r;
            cmp_val("*entry(k).or_insert_with(f)", &want, Some(seen))?;
            if called == pre_occupied {
                return Err(Mismatch::new(
                    "or_insert_with closure runs iff the key is vacant",
                    format!("called={}", !pre_occupied),
                    format!("called={called}"),
                ));
            }
        }
        WbOp::EntryOccGetMut { m, k, v } => match real.maps[*m as usize].entry(*k) {
            Entry::Occupied(mut e) => {
                entry_kind(true)?;
                let old = *e.get_mut();
                *e.get_mut() = v.wrapping_add(1);
                *e.get_mut() = *v;
                cmp_val("occupied entry get_mut (value before the write)", &want, Some(old))?;
            }
            Entry::Vacant(_) => entry_kind(false)?,
        },
        WbOp::EntryOccIntoMut { m, k, v } => match real.maps[*m as usize].entry(*k) {
            Entry::Occupied(e) => {
                entry_kind(true)?;
                let r = e.into_mut();
                let old = *r;
                *r = *v;
                cmp_val("occupied entry into_mut (value before the write)", &want, Some(old))?;
            }
            Entry::Vacant(_) => entry_kind(false)?,
        },
        WbOp::EntryOccRemove { m, k } => match real.maps[*m as usize].entry(*k) {
            Entry::Occupied(e) => {
                entry_kind(true)?;
                let got = e.remove();
                cmp_val("occupied entry remove", &want, Some(got))?;
            }
            Entry::Vacant(_) => entry_kind(false)?,
        },
        WbOp::EntryVacantInsert { m, k, v } => match real.maps[*m as usize].entry(*k) {
            Entry::Occupied(_) => entry_kind(true)?,
            Entry::Vacant(e) => {
                entry_kind(false)?;
                let r = e.insert(*v);
                cmp_val("*vacant entry insert(v)", &want, Some(*r))?;
            }
        },
        WbOp::IterMutWrite { m, take, mul, add } => {
            let mut prev: Option<u32> = None;
            for (k, x) in real.maps[*m as usize].iter_mut().take(*take as usize) {
                if let Some(p) = prev {
                    if p >= k {
                        return Err(Mismatch::new(
                            "iter_mut() yields strictly ascending keys",
                            format!("> {p}"),
                            format!("{k}"),
                        ));
                    }
                }
                prev = Some(k);
                *x = x.wrapping_mul(*mul).wrapping_add(*add).wrapping_add(k as u64);
            }
        }
        WbOp::Clear { m } => real.maps[*m as usize].clear(),
        WbOp::Union { a, b, dst } => {
            let mut calls: Vec<(u32, u64, u64)> = Vec::new();
            let r = real.maps[*a as usize].union(&real.maps[*b as usize], |k, l, r| {
                calls.push((*k, l, r));
                merge_fn(*k, l, r)
            });
            calls.sort();
            if Ret::Calls(calls.clone()) != want {
                return Err(Mismatch::new(
                    "union merge callback invocations (key, left value, right value), once per common key",
                    format!("{want:?}"),
                    format!("Calls({calls:?})"),
                ));
            }
            real.maps[*dst as usize] = r;
        }
        WbOp::Difference { a, b, dst } => {
            let mut calls: Vec<(u32, u64, u64)> = Vec::new();
            let r = real.maps[*a as usize].difference(&real.maps[*b as usize], |k, l, r| {
                calls.push((*k, l, r));
                diff_fn(*k, l, r)
            });
            calls.sort();
            if Ret::Calls(calls.clone()) != want {
                return Err(Mismatch::new(
                    "difference filter callback invocations (key, left value, right value), once per common key",
                    format!("{want:?}"),
                    format!("Calls({calls:?})"),
                ));
            }
            real.maps[*dst as usize] = r;
        }
        WbOp::Clone { src, dst } => {
            let r = real.maps[*src as usize].clone();
            real.maps[*dst as usize] = r;
        }
        WbOp::SetInsert { s, k } => {
            let got = real.sets[*s as usize].insert(*k);
            cmp_bool("set insert", &want, got)?;
        }
        WbOp::SetRemove { s, k } => {
            let got = real.sets[*s as usize].remove(k);
            cmp_bool("set remove", &want, got)?;
        }
        WbOp::SetContains { s, k } => {
            let got = real.sets[*s as usize].contains(k);
            cmp_bool("set contains", &want, got)?;
        }
        WbOp::SetClear { s } => real.sets[*s as usize].clear(),
        WbOp::SetUnion { a, b, dst } => {
            let r = real.sets[*a as usize].union(&real.sets[*b as usize]);
            real.sets[*dst as usize] = r;
        }
        WbOp::SetDifference { a, b, dst } => {
            let r = real.sets[*a as usize].difference(&real.sets[*b as usize]);
            real.sets[*dst as usize] = r;
        }
        WbOp::SetClone { src, dst } => {
            let r = real.sets[*src as usize].clone();
            real.sets[*dst as usize] = r;
        }
    }
    Ok(())
}

/// Compare every map and set of the family with its model (contents, len, shape).
pub fn check_all(real: &Real, model: &mut ModelState) -> Result<(), Mismatch> {
    for i in 0..MAPS {
        check_map(&real.maps[i], &model.maps[i], &format_args!("map[{i}]"), &mut model.stats)?;
    }
    for i in 0..SETS {
        check_set(&real.sets[i], &model.sets[i], &format_args!("set[{i}]"))?;
    }
    Ok(())
}

/// Run a case. `check_every_step == false` compares the family only after the last op (used by
/// the exhaustive enumeration, where every proper prefix is a case of its own).
pub fn run_wb_opts(case: &WbCase, check_every_step: bool) -> (WbStats, Result<(), Mismatch>) {
    let mut real = Real::new();
    let mut model = ModelState::new();
    let last = case.ops.len().saturating_sub(1);
    let at = std::cell::Cell::new(0usize);
    let r = catch_panic(|| -> Result<(), Mismatch> {
        for (i, op) in case.ops.iter().enumerate() {
            at.set(i);
            exec_op(&mut real, &mut model, op)?;
            if check_every_step || i == last {
                check_all(&real, &mut model)?;
            }
        }
        Ok(())
    });
    let r = match r {
        Ok(r) => r,
        Err(panic) => Err(Mismatch::new(
            "operation must not panic",
            "no panic",
            format!("panic: {panic}"),
        )),
    };
    let r = r.map_err(|m| {
        let i = at.get();
        m.at(i, case.ops.get(i).map(|o| o.text()).unwrap_or_default())
    });
    (model.stats, r)
}

pub fn run_wb(case: &WbCase) -> (WbStats, Result<(), Mismatch>) {
    run_wb_opts(case, true)
}

/// The oracle entry point shared by proptest, replay, exhaustive enumeration and libFuzzer.
pub fn check_wb(case: &WbCase) -> Result<(), String> {
    case.validate().map_err(|e| format!("malformed case: {e}"))?;
    run_wb(case).1.map_err(|m| m.to_string())
}

// ---------------------------------------------------------------------------------------------
// Exhaustive alphabet
// ---------------------------------------------------------------------------------------------

pub const EXH_KEYS: u32 = 4;
/// insert k / remove k / entry-or-insert k on either of two maps (3*2*4), clone-into-other,
/// union, difference, clear on either map (4*2).
pub const EXH_ALPHABET: usize = 32;

/// The `letter`-th op of the compact exhaustive alphabet at position `step` of a sequence
/// (inserted values depend on the position so that different insertions are distinguishable).
pub fn exh_op(letter: usize, step: usize) -> WbOp {
    debug_assert!(letter < EXH_ALPHABET);
    let v = |k: u32| (step as u64 + 1) * 100 + k as u64;
    match letter {
        0..=7 => {
            let (m, k) = ((letter / 4) as u8, (letter % 4) as u32);
            WbOp::Insert { m, k, v: v(k) }
        }
        8..=15 => {
            let l = letter - 8;
            WbOp::Remove {
                m: (l / 4) as u8,
                k: (l % 4) as u32,
            }
        }
        16..=23 => {
            let l = letter - 16;
            let (m, k) = ((l / 4) as u8, (l % 4) as u32);
            WbOp::EntryOrInsert { m, k, v: v(k), add: 1 }
        }
        24 | 25 => {
            let m = (letter - 24) as u8;
            WbOp::Clone { src: m, dst: 1 - m }
        }
        26 | 27 => {
            let m = (letter - 26) as u8;
            WbOp::Union { a: m, b: 1 - m, dst: m }
        }
        28 | 29 => {
            let m = (letter - 28) as u8;
            WbOp::Difference { a: m, b: 1 - m, dst: m }
        }
        _ => WbOp::Clear { m: (letter - 30) as u8 },
    }
}

/// Is this concrete case one of the sequences of the exhaustive space of length <= `max_len`?
pub fn in_exhaustive_space(case: &WbCase, max_len: usize) -> bool {
    if case.ops.is_empty() || case.ops.len() > max_len {
        return false;
    }
    case.ops
        .iter()
        .enumerate()
        .all(|(step, op)| (0..EXH_ALPHABET).any(|l| exh_op(l, step) == *op))
}

#[derive(Clone, Debug, Default)]
pub struct ExhResult {
    pub sequences: u64,
    pub nontrivial: u64,
    pub ops_executed: u64,
    pub max_height: usize,
    pub failure: Option<(WbCase, Mismatch)>,
    pub first_nontrivial: Option<WbCase>,
}

/// Enumerate every sequence over the alphabet that starts with `prefix` and has length
/// `prefix.len() ..= max_len` (in lexicographic order); each sequence is executed from scratch on
/// fresh maps and fully compared after its last op.
pub fn exhaustive_from(prefix: &[usize], max_len: usize) -> ExhResult {
    let mut res = ExhResult::default();
    let mut letters: Vec<usize> = prefix.to_vec();
    fn rec(letters: &mut Vec<usize>, max_len: usize, res: &mut ExhResult) {
        if res.failure.is_some() {
            return;
        }
        let case = WbCase {
            ops: letters.iter().enumerate().map(|(i, l)| exh_op(*l, i)).collect(),
        };
        let (stats, r) = run_wb_opts(&case, false);
        res.sequences += 1;
        res.ops_executed += case.ops.len() as u64;
        if stats.max_height > res.max_height {
            res.max_height = stats.max_height;
        }
        if stats.nontrivial() {
            res.nontrivial += 1;
            if res.first_nontrivial.is_none() {
                res.first_nontrivial = Some(case.clone());
            }
        }
        if let Err(m) = r {
            res.failure = Some((case, m));
            return;
        }
        if letters.len() < max_len {
            for l in 0..EXH_ALPHABET {
                letters.push(l);
                rec(letters, max_len, res);
                letters.pop();
                if res.failure.is_some() {
                    return;
                }
            }
        }
    }
    rec(&mut letters, max_len, &mut res);
    res
}

// ---------------------------------------------------------------------------------------------
// Generator-level operations
// ---------------------------------------------------------------------------------------------

pub const UNIVERSES: [u32; 3] = [8, 64, 1000];
/// Slots are chosen with a bias towards the low ones so that clones meet again.
pub const SLOT_BIAS: [u8; 10] = [0, 0, 0, 0, 1, 1, 1, 2, 2, 3];

/// Key selector. mode 0: `fresh` scaled onto the universe; 1: an existing key of the target map
/// / set; 2: an existing key of map / set `from`.
#[derive(Clone, Debug, PartialEq, Eq)]
pub struct KeySel {
    pub mode: u8,
    pub from: u8,
    pub idx: u16,
    pub fresh: u16,
}

#[derive(Clone, Debug, PartialEq, Eq)]
pub enum WbGen {
    Insert { m: u8, k: KeySel, v: u16 },
    /// `count` inserts of keys start, start+stride, ... (ascending or descending)
    InsertRun { m: u8, start: u16, count: u8, stride: u8, down: bool, v: u16 },
    Remove { m: u8, k: KeySel },
    /// removes `count` consecutive existing keys starting at the idx-th
    RemoveRun { m: u8, idx: u16, count: u8 },
    Get { m: u8, k: KeySel },
    GetMutWrite { m: u8, k: KeySel, v: u16 },
    ContainsKey { m: u8, k: KeySel },
    EntryOrInsert { m: u8, k: KeySel, v: u16, add: u8 },
    EntryOrInsertWith { m: u8, k: KeySel, v: u16 },
    EntryOccGetMut { m: u8, k: KeySel, v: u16 },
    EntryOccIntoMut { m: u8, k: KeySel, v: u16 },
    EntryOccRemove { m: u8, k: KeySel },
    EntryVacantInsert { m: u8, k: KeySel, v: u16 },
    IterMutWrite { m: u8, take: u16, mul: u8, add: u8 },
    Clear { m: u8 },
    Union { a: u8, b: u8, dst: u8 },
    Difference { a: u8, b: u8, dst: u8 },
    Clone { src: u8, dst: u8 },
    SetInsert { s: u8, k: KeySel },
    SetInsertRun { s: u8, start: u16, count: u8, stride: u8 },
    SetRemove { s: u8, k: KeySel },
    SetContains { s: u8, k: KeySel },
    SetClear { s: u8 },
    SetUnion { a: u8, b: u8, dst: u8 },
    SetDifference { a: u8, b: u8, dst: u8 },
    SetClone { src: u8, dst: u8 },
}

pub const GEN_KINDS: usize = 26;
/// Relative frequencies of the generator kinds, in the order of the `WbGen` variants.
pub const GEN_WEIGHTS: [u32; GEN_KINDS] = [
    10, 4, 6, 2, 1, 3, 1, 3, 2, 2, 2, 2, 2, 2, 1, 4, 4, 4, 3, 1, 2, 1, 1, 2, 2, 2,
];

fn key_of(sel_: &KeySel, universe: u32, own: &[u32], other: &[u32]) -> u32 {
    let pool = match sel_.mode {
        1 => own,
        2 => other,
        _ => &[][..],
    };
    if pool.is_empty() {
        ((sel_.fresh as u64 * universe as u64) >> 16) as u32
    } else {
        pool[sel(sel_.idx, pool.len())]
    }
}

pub fn resolve(universe: u32, gens: &[WbGen]) -> WbCase {
    let mut st = ModelState::new();
    let mut ops: Vec<WbOp> = Vec::new();
    for g in gens {
        let mkey = |st: &ModelState, m: u8, k: &KeySel| -> u32 {
            let own: Vec<u32> = st.maps[m as usize].keys().copied().collect();
            let other: Vec<u32> = st.maps[(k.from as usize) % MAPS].keys().copied().collect();
            key_of(k, universe, &own, &other)
        };
        let skey = |st: &ModelState, s: u8, k: &KeySel| -> u32 {
            let own: Vec<u32> = st.sets[s as usize].iter().copied().collect();
            let other: Vec<u32> = st.sets[(k.from as usize) % SETS].iter().copied().collect();
            key_of(k, universe, &own, &other)
        };
        let mut new_ops: Vec<WbOp> = Vec::new();
        match g {
            WbGen::Insert { m, k, v } => new_ops.push(WbOp::Insert {
                m: *m,
                k: mkey(&st, *m, k),
                v: *v as u64,
            }),
            WbGen::InsertRun { m, start, count, stride, down, v } => {
                let s0 = ((*start as u64 * universe as u64) >> 16) as i64;
                for j in 0..*count as i64 {
                    let k = if *down {
                        s0 - j * *stride as i64
                    } else {
                        s0 + j * *stride as i64
                    };
                    if k < 0 || k >= universe as i64 {
                        break;
                    }
                    new_ops.push(WbOp::Insert {
                        m: *m,
                        k: k as u32,
                        v: *v as u64 + j as u64,
                    });
                }
            }
            WbGen::Remove { m, k } => new_ops.push(WbOp::Remove {
                m: *m,
                k: mkey(&st, *m, k),
            }),
            WbGen::RemoveRun { m, idx, count } => {
                let keys: Vec<u32> = st.maps[*m as usize].keys().copied().collect();
                if !keys.is_empty() {
                    let i0 = sel(*idx, keys.len());
                    for k in keys.iter().skip(i0).take(*count as usize) {
                        new_ops.push(WbOp::Remove { m: *m, k: *k });
                    }
                }
            }
            WbGen::Get { m, k } => new_ops.push(WbOp::Get {
                m: *m,
                k: mkey(&st, *m, k),
            }),
            WbGen::GetMutWrite { m, k, v } => new_ops.push(WbOp::GetMutWrite {
                m: *m,
                k: mkey(&st, *m, k),
                v: *v as u64,
            }),
            WbGen::ContainsKey { m, k } => new_ops.push(WbOp::ContainsKey {
                m: *m,
                k: mkey(&st, *m, k),
            }),
            WbGen::EntryOrInsert { m, k, v, add } => new_ops.push(WbOp::EntryOrInsert {
                m: *m,
                k: mkey(&st, *m, k),
                v: *v as u64,
                add: *add as u64,
            }),
            WbGen::EntryOrInsertWith { m, k, v } => new_ops.push(WbOp::EntryOrInsertWith {
                m: *m,
                k: mkey(&st, *m, k),
                v: *v as u64,
            }),
            WbGen::EntryOccGetMut { m, k, v } => new_ops.push(WbOp::EntryOccGetMut {
                m: *m,
                k: mkey(&st, *m, k),
                v: *v as u64,
            }),
            WbGen::EntryOccIntoMut { m, k, v } => new_ops.push(WbOp::EntryOccIntoMut {
                m: *m,
                k: mkey(&st, *m, k),
                v: *v as u64,
            }),
            WbGen::EntryOccRemove { m, k } => new_ops.push(WbOp::EntryOccRemove {
                m: *m,
                k: mkey(&st, *m, k),
            }),
            WbGen::EntryVacantInsert { m, k, v } => new_ops.push(WbOp::EntryVacantInsert {
                m: *m,
                k: mkey(&st, *m, k),
                v: *v as u64,
            }),
            WbGen::IterMutWrite { m, take, mul, add } => {
                let n = st.maps[*m as usize].len();
                // take in 0..=n+1 (n+1: more than available)
                let take = sel(*take, n + 2) as u32;
                new_ops.push(WbOp::IterMutWrite {
                    m: *m,
                    take,
                    mul: *mul as u64,
                    add: *add as u64,
                })
            }
            WbGen::Clear { m } => new_ops.push(WbOp::Clear { m: *m }),
            WbGen::Union { a, b, dst } => new_ops.push(WbOp::Union {
                a: *a,
                b: *b,
                dst: *dst,
            }),
            WbGen::Difference { a, b, dst } => new_ops.push(WbOp::Difference {
                a: *a,
                b: *b,
                dst: *dst,
            }),
            WbGen::Clone { src, dst } => new_ops.push(WbOp::Clone {
                src: *src,
                dst: *dst,
            }),
            WbGen::SetInsert { s, k } => new_ops.push(WbOp::SetInsert {
                s: *s,
                k: skey(&st, *s, k),
            }),
            WbGen::SetInsertRun { s, start, count, stride } => {
                let s0 = (*start as u64 * universe as u64) >> 16;
                for j in 0..*count as u64 {
                    let k = s0 + j * *stride as u64;
                    if k >= universe as u64 {
                        break;
                    }
                    new_ops.push(WbOp::SetInsert { s: *s, k: k as u32 });
                }
            }
            WbGen::SetRemove { s, k } => new_ops.push(WbOp::SetRemove {
                s: *s,
                k: skey(&st, *s, k),
            }),
            WbGen::SetContains { s, k } => new_ops.push(WbOp::SetContains {
                s: *s,
                k: skey(&st, *s, k),
            }),
            WbGen::SetClear { s } => new_ops.push(WbOp::SetClear { s: *s }),
            WbGen::SetUnion { a, b, dst } => new_ops.push(WbOp::SetUnion {
                a: *a,
                b: *b,
                dst: *dst,
            }),
            WbGen::SetDifference { a, b, dst } => new_ops.push(WbOp::SetDifference {
                a: *a,
                b: *b,
                dst: *dst,
            }),
            WbGen::SetClone { src, dst } => new_ops.push(WbOp::SetClone {
                src: *src,
                dst: *dst,
            }),
        }
        for op in new_ops {
            st.apply(&op);
            ops.push(op);
        }
    }
    WbCase { ops }
}

pub mod codec {
    use super::*;
    use crate::util::wire::*;
    use arbitrary::Unstructured;

    pub const MAX_FUZZ_OPS: usize = 96;

    fn get_key(u: &mut Unstructured<'_>) -> KeySel {
        KeySel {
            mode: get_below(u, 3),
            from: get_below(u, MAPS as u8),
            idx: get_u16(u),
            fresh: get_u16(u),
        }
    }
    fn put_key(out: &mut Vec<u8>, k: &KeySel) {
        put_u8(out, k.mode);
        put_u8(out, k.from);
        put_u16(out, k.idx);
        put_u16(out, k.fresh);
    }

    pub fn decode(data: &[u8]) -> (u32, Vec<WbGen>) {
        let mut u = Unstructured::new(data);
        let universe = UNIVERSES[get_below(&mut u, 3) as usize];
        let mut ops = Vec::new();
        while !u.is_empty() && ops.len() < MAX_FUZZ_OPS {
            let kind = get_below(&mut u, GEN_KINDS as u8);
            let s = |u: &mut Unstructured<'_>| SLOT_BIAS[get_below(u, SLOT_BIAS.len() as u8) as usize];
            let op = match kind {
                0 => WbGen::Insert {
                    m: s(&mut u),
                    k: get_key(&mut u),
                    v: get_u16(&mut u),
                },
                1 => WbGen::InsertRun {
                    m: s(&mut u),
                    start: get_u16(&mut u),
                    count: 1 + get_below(&mut u, 24),
                    stride: 1 + get_below(&mut u, 3),
                    down: get_below(&mut u, 2) == 1,
                    v: get_u16(&mut u),
                },
                2 => WbGen::Remove {
                    m: s(&mut u),
                    k: get_key(&mut u),
                },
                3 => WbGen::RemoveRun {
                    m: s(&mut u),
                    idx: get_u16(&mut u),
                    count: 1 + get_below(&mut u, 16),
                },
                4 => WbGen::Get {
                    m: s(&mut u),
                    k: get_key(&mut u),
                },
                5 => WbGen::GetMutWrite {
                    m: s(&mut u),
                    k: get_key(&mut u),
                    v: get_u16(&mut u),
                },
                6 => WbGen::ContainsKey {
                    m: s(&mut u),
                    k: get_key(&mut u),
                },
                7 => WbGen::EntryOrInsert {
                    m: s(&mut u),
                    k: get_key(&mut u),
                    v: get_u16(&mut u),
                    add: get_u8(&mut u),
                },
                8 => WbGen::EntryOrInsertWith {
                    m: s(&mut u),
                    k: get_key(&mut u),
                    v: get_u16(&mut u),
                },
                9 => WbGen::EntryOccGetMut {
                    m: s(&mut u),
                    k: get_key(&mut u),
                    v: get_u16(&mut u),
                },
                10 => WbGen::EntryOccIntoMut {
                    m: s(&mut u),
                    k: get_key(&mut u),
                    v: get_u16(&mut u),
                },
                11 => WbGen::EntryOccRemove {
                    m: s(&mut u),
                    k: get_key(&mut u),
                },
                12 => WbGen::EntryVacantInsert {
                    m: s(&mut u),
                    k: get_key(&mut u),
                    v: get_u16(&mut u),
                },
                13 => WbGen::IterMutWrite {
                    m: s(&mut u),
                    take: get_u16(&mut u),
                    mul: get_u8(&mut u),
                    add: get_u8(&mut u),
                },
                14 => WbGen::Clear { m: s(&mut u) },
                15 => WbGen::Union {
                    a: s(&mut u),
                    b: s(&mut u),
                    dst: s(&mut u),
                },
                16 => WbGen::Difference {
                    a: s(&mut u),
                    b: s(&mut u),
                    dst: s(&mut u),
                },
                17 => WbGen::Clone {
                    src: s(&mut u),
                    dst: s(&mut u),
                },
                18 => WbGen::SetInsert {
                    s: s(&mut u),
                    k: get_key(&mut u),
                },
                19 => WbGen::SetInsertRun {
                    s: s(&mut u),
                    start: get_u16(&mut u),
                    count: 1 + get_below(&mut u, 24),
                    stride: 1 + get_below(&mut u, 3),
                },
                20 => WbGen::SetRemove {
                    s: s(&mut u),
                    k: get_key(&mut u),
                },
                21 => WbGen::SetContains {
                    s: s(&mut u),
                    k: get_key(&mut u),
                },
                22 => WbGen::SetClear { s: s(&mut u) },
                23 => WbGen::SetUnion {
                    a: s(&mut u),
                    b: s(&mut u),
                    dst: s(&mut u),
                },
                24 => WbGen::SetDifference {
                    a: s(&mut u),
                    b: s(&mut u),
                    dst: s(&mut u),
                },
                _ => WbGen::SetClone {
                    src: s(&mut u),
                    dst: s(&mut u),
                },
            };
            ops.push(op);
        }
        (universe, ops)
    }

    fn put_slot(out: &mut Vec<u8>, slot: u8) {
        put_u8(out, SLOT_BIAS.iter().position(|x| *x == slot).unwrap_or(0) as u8);
    }

    pub fn encode(universe: u32, gens: &[WbGen]) -> Vec<u8> {
        let ui = UNIVERSES.iter().position(|x| *x == universe).unwrap_or(0);
        let mut out = vec![ui as u8];
        for g in gens.iter().take(MAX_FUZZ_OPS) {
            match g {
                WbGen::Insert { m, k, v } => {
                    put_u8(&mut out, 0);
                    put_slot(&mut out, *m);
                    put_key(&mut out, k);
                    put_u16(&mut out, *v);
                }
                WbGen::InsertRun { m, start, count, stride, down, v } => {
                    put_u8(&mut out, 1);
                    put_slot(&mut out, *m);
                    put_u16(&mut out, *start);
                    put_u8(&mut out, count - 1);
                    put_u8(&mut out, stride - 1);
                    put_u8(&mut out, *down as u8);
                    put_u16(&mut out, *v);
                }
                WbGen::Remove { m, k } => {
                    put_u8(&mut out, 2);
                    put_slot(&mut out, *m);
                    put_key(&mut out, k);
                }
                WbGen::RemoveRun { m, idx, count } => {
                    put_u8(&mut out, 3);
                    put_slot(&mut out, *m);
                    put_u16(&mut out, *idx);
                    put_u8(&mut out, count - 1);
                }
                WbGen::Get { m, k } => {
                    put_u8(&mut out, 4);
                    put_slot(&mut out, *m);
                    put_key(&mut out, k);
                }
                WbGen::GetMutWrite { m, k, v } => {
                    put_u8(&mut out, 5);
                    put_slot(&mut out, *m);
                    put_key(&mut out, k);
                    put_u16(&mut out, *v);
                }
                WbGen::ContainsKey { m, k } => {
                    put_u8(&mut out, 6);
                    put_slot(&mut out, *m);
                    put_key(&mut out, k);
                }
                WbGen::EntryOrInsert { m, k, v, add } => {
                    put_u8(&mut out, 7);
                    put_slot(&mut out, *m);
                    put_key(&mut out, k);
                    put_u16(&mut out, *v);
                    put_u8(&mut out, *add);
                }
                WbGen::EntryOrInsertWith { m, k, v } => {
                    put_u8(&mut out, 8);
                    put_slot(&mut out, *m);
                    put_key(&mut out, k);
                    put_u16(&mut out, *v);
                }
                WbGen::EntryOccGetMut { m, k, v } => {
                    put_u8(&mut out, 9);
                    put_slot(&mut out, *m);
                    put_key(&mut out, k);
                    put_u16(&mut out, *v);
                }
                WbGen::EntryOccIntoMut { m, k, v } => {
                    put_u8(&mut out, 10);
                    put_slot(&mut out, *m);
                    put_key(&mut out, k);
                    put_u16(&mut out, *v);
                }
                WbGen::EntryOccRemove { m, k } => {
                    put_u8(&mut out, 11);
                    put_slot(&mut out, *m);
                    put_key(&mut out, k);
                }
                WbGen::EntryVacantInsert { m, k, v } => {
                    put_u8(&mut out, 12);
                    put_slot(&mut out, *m);
                    put_key(&mut out, k);
                    put_u16(&mut out, *v);
                }
                WbGen::IterMutWrite { m, take, mul, add } => {
                    put_u8(&mut out, 13);
                    put_slot(&mut out, *m);
                    put_u16(&mut out, *take);
                    put_u8(&mut out, *mul);
                    put_u8(&mut out, *add);
                }
                WbGen::Clear { m } => {
                    put_u8(&mut out, 14);
                    put_slot(&mut out, *m);
                }
                WbGen::Union { a, b, dst } => {
                    put_u8(&mut out, 15);
                    put_slot(&mut out, *a);
                    put_slot(&mut out, *b);
                    put_slot(&mut out, *dst);
                }
                WbGen::Difference { a, b, dst } => {
                    put_u8(&mut out, 16);
                    put_slot(&mut out, *a);
                    put_slot(&mut out, *b);
                    put_slot(&mut out, *dst);
                }
                WbGen::Clone { src, dst } => {
                    put_u8(&mut out, 17);
                    put_slot(&mut out, *src);
                    put_slot(&mut out, *dst);
                }
                WbGen::SetInsert { s, k } => {
                    put_u8(&mut out, 18);
                    put_slot(&mut out, *s);
                    put_key(&mut out, k);
                }
                WbGen::SetInsertRun { s, start, count, stride } => {
                    put_u8(&mut out, 19);
                    put_slot(&mut out, *s);
                    put_u16(&mut out, *start);
                    put_u8(&mut out, count - 1);
                    put_u8(&mut out, stride - 1);
                }
                WbGen::SetRemove { s, k } => {
                    put_u8(&mut out, 20);
                    put_slot(&mut out, *s);
                    put_key(&mut out, k);
                }
                WbGen::SetContains { s, k } => {
                    put_u8(&mut out, 21);
                    put_slot(&mut out, *s);
                    put_key(&mut out, k);
                }
                WbGen::SetClear { s } => {
                    put_u8(&mut out, 22);
                    put_slot(&mut out, *s);
                }
                WbGen::SetUnion { a, b, dst } => {
                    put_u8(&mut out, 23);
                    put_slot(&mut out, *a);
                    put_slot(&mut out, *b);
                    put_slot(&mut out, *dst);
                }
                WbGen::SetDifference { a, b, dst } => {
                    put_u8(&mut out, 24);
                    put_slot(&mut out, *a);
                    put_slot(&mut out, *b);
                    put_slot(&mut out, *dst);
                }
                WbGen::SetClone { src, dst } => {
                    put_u8(&mut out, 25);
                    put_slot(&mut out, *src);
                    put_slot(&mut out, *dst);
                }
            }
        }
        out
    }

    pub fn case_from_bytes(data: &[u8]) -> WbCase {
        let (universe, gens) = decode(data);
        resolve(universe, &gens)
    }
}

#[cfg(feature = "gen")]
pub mod strat {
    use super::*;
    use proptest::prelude::*;
    use proptest::strategy::Union;

    fn key() -> impl Strategy<Value = KeySel> {
        (
            prop_oneof![4 => Just(0u8), 4 => Just(1u8), 2 => Just(2u8)],
            0u8..MAPS as u8,
            any::<u16>(),
            any::<u16>(),
        )
            .prop_map(|(mode, from, idx, fresh)| KeySel {
                mode,
                from,
                idx,
                fresh,
            })
    }

    pub fn gen_op() -> BoxedStrategy<WbGen> {
        let s = || (0..SLOT_BIAS.len()).prop_map(|i| SLOT_BIAS[i]);
        let v = || any::<u16>();
        let alts: Vec<BoxedStrategy<WbGen>> = vec![
            (s(), key(), v()).prop_map(|(m, k, v)| WbGen::Insert { m, k, v }).boxed(),
            (s(), any::<u16>(), 1u8..=24, 1u8..=3, any::<bool>(), v())
                .prop_map(|(m, start, count, stride, down, v)| WbGen::InsertRun {
                    m,
                    start,
                    count,
                    stride,
                    down,
                    v,
                })
                .boxed(),
            (s(), key()).prop_map(|(m, k)| WbGen::Remove { m, k }).boxed(),
            (s(), any::<u16>(), 1u8..=16)
                .prop_map(|(m, idx, count)| WbGen::RemoveRun { m, idx, count })
                .boxed(),
            (s(), key()).prop_map(|(m, k)| WbGen::Get { m, k }).boxed(),
            (s(), key(), v())
                .prop_map(|(m, k, v)| WbGen::GetMutWrite { m, k, v })
                .boxed(),
            (s(), key()).prop_map(|(m, k)| WbGen::ContainsKey { m, k }).boxed(),
            (s(), key(), v(), any::<u8>())
                .prop_map(|(m, k, v, add)| WbGen::EntryOrInsert { m, k, v, add })
                .boxed(),
            (s(), key(), v())
                .prop_map(|(m, k, v)| WbGen::EntryOrInsertWith { m, k, v })
                .boxed(),
            (s(), key(), v())
                .prop_map(|(m, k, v)| WbGen::EntryOccGetMut { m, k, v })
                .boxed(),
            (s(), key(), v())
                .prop_map(|(m, k, v)| WbGen::EntryOccIntoMut { m, k, v })
                .boxed(),
            (s(), key()).prop_map(|(m, k)| WbGen::EntryOccRemove { m, k }).boxed(),
            (s(), key(), v())
                .prop_map(|(m, k, v)| WbGen::EntryVacantInsert { m, k, v })
                .boxed(),
            (s(), any::<u16>(), any::<u8>(), any::<u8>())
                .prop_map(|(m, take, mul, add)| WbGen::IterMutWrite { m, take, mul, add })
                .boxed(),
            s().prop_map(|m| WbGen::Clear { m }).boxed(),
            (s(), s(), s()).prop_map(|(a, b, dst)| WbGen::Union { a, b, dst }).boxed(),
            (s(), s(), s())
                .prop_map(|(a, b, dst)| WbGen::Difference { a, b, dst })
                .boxed(),
            (s(), s()).prop_map(|(src, dst)| WbGen::Clone { src, dst }).boxed(),
            (s(), key()).prop_map(|(s, k)| WbGen::SetInsert { s, k }).boxed(),
            (s(), any::<u16>(), 1u8..=24, 1u8..=3)
                .prop_map(|(s, start, count, stride)| WbGen::SetInsertRun {
                    s,
                    start,
                    count,
                    stride,
                })
                .boxed(),
            (s(), key()).prop_map(|(s, k)| WbGen::SetRemove { s, k }).boxed(),
            (s(), key()).prop_map(|(s, k)| WbGen::SetContains { s, k }).boxed(),
            s().prop_map(|s| WbGen::SetClear { s }).boxed(),
            (s(), s(), s()).prop_map(|(a, b, dst)| WbGen::SetUnion { a, b, dst }).boxed(),
            (s(), s(), s())
                .prop_map(|(a, b, dst)| WbGen::SetDifference { a, b, dst })
                .boxed(),
            (s(), s()).prop_map(|(src, dst)| WbGen::SetClone { src, dst }).boxed(),
        ];
        debug_assert_eq!(alts.len(), GEN_KINDS);
        Union::new_weighted(
            alts.into_iter()
                .enumerate()
                .map(|(i, s)| (GEN_WEIGHTS[i], s))
                .collect(),
        )
        .boxed()
    }

    pub fn gen_ops(max_ops: usize) -> BoxedStrategy<Vec<WbGen>> {
        let lo = (max_ops / 2).max(1);
        prop_oneof![
            1 => proptest::collection::vec(gen_op(), 1..=max_ops),
            3 => proptest::collection::vec(gen_op(), lo..=max_ops),
        ]
        .boxed()
    }
}

#[cfg(test)]
mod tests {
    use super::*;

    #[test]
    fn simple_sequence_passes() {
        let case = WbCase {
            ops: vec![
                WbOp::Insert { m: 0, k: 1, v: 10 },
                WbOp::Insert { m: 0, k: 2, v: 20 },
                WbOp::Clone { src: 0, dst: 1 },
                WbOp::Insert { m: 1, k: 2, v: 5 },
                WbOp::Union { a: 0, b: 1, dst: 2 },
                WbOp::Difference { a: 0, b: 1, dst: 3 },
                WbOp::EntryOccRemove { m: 0, k: 1 },
            ],
        };
        assert_eq!(check_wb(&case), Ok(()));
    }

    #[test]
    fn exhaustive_len2_counts() {
        let mut total = 0;
        for l in 0..EXH_ALPHABET {
            let r = exhaustive_from(&[l], 2);
            assert!(r.failure.is_none());
            total += r.sequences;
        }
        assert_eq!(total, 32 + 32 * 32);
    }

    #[test]
    fn codec_roundtrip() {
        let gens = vec![
            WbGen::InsertRun {
                m: 1,
                start: 500,
                count: 24,
                stride: 3,
                down: true,
                v: 9,
            },
            WbGen::EntryOrInsert {
                m: 3,
                k: KeySel {
                    mode: 2,
                    from: 1,
                    idx: 12345,
                    fresh: 54321,
                },
                v: 77,
                add: 200,
            },
            WbGen::SetDifference { a: 0, b: 1, dst: 2 },
        ];
        let bytes = codec::encode(64, &gens);
        let (u, back) = codec::decode(&bytes);
        assert_eq!(u, 64);
        assert_eq!(back, gens);
    }
}
