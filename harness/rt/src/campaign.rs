//! The generated searches of the three properties (proptest sub-campaigns, the exhaustive part of
//! C14), merged deterministically.

use std::cell::RefCell;
use std::collections::{BTreeMap, HashSet};
use std::fmt::Debug;
use std::sync::atomic::{AtomicUsize, Ordering};
use std::sync::Mutex;

use proptest::strategy::{BoxedStrategy, Strategy};
use proptest::test_runner::{
    Config, RngAlgorithm, RngSeed, TestCaseError, TestError, TestRunner,
};
use serde_json::{json, Value};

use crate::replay::CaseBody;
use crate::util::{derive_seed, fingerprint, Exclusions, Mismatch};
use crate::{pt, topo, wb};

#[derive(Clone, Copy, Debug, PartialEq, Eq)]
pub enum Tier {
    Quick,
    Thorough,
}

impl Tier {
    pub fn name(&self) -> &'static str {
        match self {
            Tier::Quick => "quick",
            Tier::Thorough => "thorough",
        }
    }
}

#[derive(Clone, Debug)]
pub struct Found {
    pub case: CaseBody,
    pub mismatch: Mismatch,
    /// e.g. "proptest:arity=3/chunk=0"
    pub source: String,
    /// short tag used in the replay file name
    pub tag: String,
}

/// Result of one independent sub-campaign.
#[derive(Debug, Default)]
pub struct SubResult {
    pub label: String,
    pub evaluations: u64,
    pub nontrivial_fingerprints: HashSet<u64>,
    /// distinct-by-construction non-trivial cases (exhaustive enumeration)
    pub nontrivial_enumerated: u64,
    pub classes: BTreeMap<String, u64>,
    pub maxima: BTreeMap<String, u64>,
    pub samples: Vec<Value>,
    pub found: Option<Found>,
    pub infra_error: Option<String>,
}

impl SubResult {
    fn bump(&mut self, key: &str, by: u64) {
        if by > 0 {
            *self.classes.entry(key.to_string()).or_insert(0) += by;
        }
    }
    fn max(&mut self, key: &str, v: u64) {
        let e = self.maxima.entry(key.to_string()).or_insert(0);
        if v > *e {
            *e = v;
        }
    }
}

/// Merged result of a whole check.
#[derive(Debug, Default)]
pub struct Merged {
    pub evaluations: u64,
    pub distinct_nontrivial: u64,
    pub classes: BTreeMap<String, u64>,
    pub maxima: BTreeMap<String, u64>,
    pub samples: Vec<Value>,
    pub found: Vec<Found>,
    pub infra_errors: Vec<String>,
    pub sub_campaigns: usize,
    pub extra: serde_json::Map<String, Value>,
}

pub fn merge(subs: Vec<SubResult>, max_samples: usize) -> Merged {
    let mut m = Merged::default();
    let mut fps: HashSet<u64> = HashSet::new();
    m.sub_campaigns = subs.len();
    let n = subs.len().max(1);
    // spread the samples over the sub-campaigns deterministically
    let stride = (n / max_samples.max(1)).max(1);
    for (i, s) in subs.into_iter().enumerate() {
        m.evaluations += s.evaluations;
        fps.extend(s.nontrivial_fingerprints.iter().copied());
        m.distinct_nontrivial += s.nontrivial_enumerated;
        for (k, v) in s.classes {
            *m.classes.entry(k).or_insert(0) += v;
        }
        for (k, v) in s.maxima {
            let e = m.maxima.entry(k).or_insert(0);
            if v > *e {
                *e = v;
            }
        }
        if i % stride == 0 && m.samples.len() < max_samples {
            if let Some(x) = s.samples.into_iter().next() {
                m.samples.push(x);
            }
        }
        if let Some(f) = s.found {
            m.found.push(f);
        }
        if let Some(e) = s.infra_error {
            m.infra_errors.push(format!("{}: {e}", s.label));
        }
    }
    m.distinct_nontrivial += fps.len() as u64;
    m
}

/// Run the jobs on up to `threads` worker threads; results come back in job order, so the merged
/// outcome does not depend on scheduling.
pub fn run_parallel<T: Send>(jobs: Vec<Box<dyn FnOnce() -> T + Send>>, threads: usize) -> Vec<T> {
    let n = jobs.len();
    let slots: Vec<Mutex<Option<Box<dyn FnOnce() -> T + Send>>>> =
        jobs.into_iter().map(|j| Mutex::new(Some(j))).collect();
    let results: Vec<Mutex<Option<T>>> = (0..n).map(|_| Mutex::new(None)).collect();
    let next = AtomicUsize::new(0);
    std::thread::scope(|scope| {
        for _ in 0..threads.clamp(1, n.max(1)) {
            scope.spawn(|| loop {
                let i = next.fetch_add(1, Ordering::SeqCst);
                if i >= n {
                    break;
                }
                let job = slots[i].lock().unwrap().take().unwrap();
                let r = job();
                *results[i].lock().unwrap() = Some(r);
            });
        }
    });
    results
        .into_iter()
        .map(|m| m.into_inner().unwrap().expect("job finished"))
        .collect()
}

pub fn worker_threads() -> usize {
    match std::env::var("EQV_RT_THREADS").ok().and_then(|s| s.parse::<usize>().ok()) {
        Some(n) if n > 0 => n,
        _ => std::thread::available_parallelism().map(|n| n.get()).unwrap_or(4).min(16),
    }
}

/// A proptest runner that is a pure function of (cases, seed): every field that
/// `Config::default()` would take from `PROPTEST_*` environment variables is set explicitly, no
/// failure persistence, no wall-clock limit on shrinking.
pub fn runner(cases: u32, seed: u64) -> TestRunner {
    let config = Config {
        cases,
        max_local_rejects: 65_536,
        max_global_rejects: 1_024,
        max_flat_map_regens: 1_000_000,
        failure_persistence: None,
        source_file: None,
        test_name: None,
        max_shrink_time: 0,
        max_shrink_iters: 200_000,
        max_default_size_range: 100,
        verbose: 0,
        rng_algorithm: RngAlgorithm::ChaCha,
        rng_seed: RngSeed::Fixed(seed),
        ..Config::default()
    };
    TestRunner::new(config)
}

/// Greedy delta debugging on a list: drop chunks (halving sizes down to 1) while `fails` holds.
pub fn minimize<T: Clone>(ops: Vec<T>, fails: &dyn Fn(&[T]) -> bool) -> Vec<T> {
    let mut cur = ops;
    if !fails(&cur) {
        return cur;
    }
    let mut chunk = (cur.len() / 2).max(1);
    loop {
        let mut progressed = false;
        let mut i = 0;
        while i < cur.len() {
            let end = (i + chunk).min(cur.len());
            let mut cand = Vec::with_capacity(cur.len() - (end - i));
            cand.extend_from_slice(&cur[..i]);
            cand.extend_from_slice(&cur[end..]);
            if !cand.is_empty() && fails(&cand) {
                cur = cand;
                progressed = true;
            } else {
                i = end;
            }
        }
        if chunk == 1 {
            if !progressed {
                break;
            }
        } else {
            chunk = (chunk / 2).max(1);
        }
    }
    cur
}

/// Shared bookkeeping of a proptest closure: count only until the first failing case (proptest
/// re-runs the closure while shrinking).
struct Acc {
    sub: SubResult,
    failed: bool,
    first_sample: Option<Value>,
    nontrivial_sample: Option<Value>,
}

fn run_sub<G: Debug + 'static>(
    label: String,
    strategy: BoxedStrategy<G>,
    cases: u32,
    seed: u64,
    eval: impl Fn(&G, &mut SubResult, bool) -> (bool, Option<Value>, Result<(), Mismatch>),
    finish: impl FnOnce(G) -> Option<Found>,
) -> SubResult {
    // eval(gen, sub, counting) -> (nontrivial, sample, result)
    let acc = RefCell::new(Acc {
        sub: SubResult {
            label: label.clone(),
            ..Default::default()
        },
        failed: false,
        first_sample: None,
        nontrivial_sample: None,
    });
    let mut r = runner(cases, seed);
    let result = r.run(&strategy, |g| {
        let mut a = acc.borrow_mut();
        let counting = !a.failed;
        let (nontrivial, sample, res) = {
            let a = &mut *a;
            eval(&g, &mut a.sub, counting)
        };
        if counting {
            a.sub.evaluations += 1;
            if a.first_sample.is_none() {
                a.first_sample = sample.clone();
            }
            if nontrivial && a.nontrivial_sample.is_none() {
                a.nontrivial_sample = sample;
            }
            if res.is_err() {
                a.failed = true;
            }
        }
        res.map_err(|m| TestCaseError::fail(m.to_string()))
    });
    let mut a = acc.into_inner();
    if let Some(s) = a.nontrivial_sample.take().or(a.first_sample.take()) {
        a.sub.samples.push(s);
    }
    match result {
        Ok(()) => {}
        Err(TestError::Fail(_, minimal)) => {
            a.sub.found = finish(minimal);
            if a.sub.found.is_none() {
                a.sub.infra_error =
                    Some("proptest reported a failure that did not reproduce on re-run".into());
            }
        }
        Err(TestError::Abort(reason)) => {
            a.sub.infra_error = Some(format!("proptest aborted: {reason}"));
        }
    }
    a.sub
}

// ---------------------------------------------------------------------------------------------
// C08
// ---------------------------------------------------------------------------------------------

pub const C08_RULE: &str = "Per arity N in 0..=9: proptest-generated operation sequences on 4 live PrefixTreeN containers and 2 donor PrefixTree(N-1) containers over keys 0..6; tuple/key arguments are selectors resolved against the current model (fresh / existing / existing-with-one-column-or-suffix-replaced) so that collisions and shared prefixes occur at every arity. Ops: insert, remove, contains, get(prefix), clear, union, difference, insert_restriction, remove_restriction, mapped (per-column optional functional map built with insert only), clone, donor_insert/remove/clear/clone/mapped, donor_from_get (donor = clone of live.get(k)). After EVERY op all 6 containers are compared with their BTreeSet<Vec<u32>> model: full iteration (sorted, duplicate free, exact), is_empty, contains for every member and a neighbour probe, iter_restrictions keys and sub-relations recursively, get(k) for k in 0..=6 and u32::MAX (None or empty container both accepted for absent prefixes); this also checks that containers the op did not touch are unchanged. get_mut / iter_restrictions_mut are never called. A case is NON-TRIVIAL iff the sequence (a) removes the last tuple under some first-column prefix (arity 0: the only tuple) via remove, remove_restriction, difference or clear, AND (b) applies union/difference/insert_restriction/remove_restriction to two containers that are relatives (one was cloned from / taken via get out of / inserted as restriction into the other). DISTINCT = distinct 64-bit SipHash fingerprints of (arity, concrete op sequence). evaluations counts generated sequences until the first failure of a sub-campaign (shrinking re-runs are not counted); libFuzzer executions are reported separately under coverage.fuzz and are not part of evaluations.";

pub struct PtPlan {
    pub seqs_per_arity: u32,
    pub chunks: u32,
    pub max_ops: usize,
}

pub fn pt_plan(tier: Tier) -> PtPlan {
    match tier {
        Tier::Quick => PtPlan {
            seqs_per_arity: 6_000,
            chunks: 1,
            max_ops: 40,
        },
        Tier::Thorough => PtPlan {
            seqs_per_arity: 60_000,
            chunks: 4,
            max_ops: 60,
        },
    }
}

fn pt_sample(case: &pt::PtCase) -> Value {
    json!({
        "arity": case.arity,
        "ops": serde_json::to_value(&case.ops).unwrap_or(Value::Null),
    })
}

pub fn pt_minimize(case: &pt::PtCase, excl: &Exclusions) -> pt::PtCase {
    let arity = case.arity;
    let fails = |ops: &[pt::PtOp]| {
        let c = pt::PtCase {
            arity,
            ops: ops.to_vec(),
        };
        !pt::uses_excluded(&c, excl) && pt::run_pt(&c).1.is_err()
    };
    pt::PtCase {
        arity,
        ops: minimize(case.ops.clone(), &fails),
    }
}

fn pt_sub(arity: usize, chunk: u32, cases: u32, max_ops: usize, seed: u64, excl: Exclusions) -> SubResult {
    let label = format!("arity={arity}/chunk={chunk}");
    let strategy = pt::strat::gen_ops(arity, max_ops, &excl);
    let excl2 = excl.clone();
    let source = format!("proptest:{label}");
    let tag = format!("a{arity}c{chunk}");
    run_sub(
        label,
        strategy,
        cases,
        seed,
        |gens: &Vec<pt::PtGen>, sub: &mut SubResult, counting: bool| {
            let case = pt::resolve_capped(arity, gens, &excl, max_ops);
            let (stats, res) = pt::run_pt(&case);
            let nontrivial = stats.nontrivial();
            let mut sample = None;
            if counting {
                sub.bump(&format!("cases_arity_{arity}"), 1);
                for (k, name) in pt::KIND_NAMES.iter().enumerate() {
                    if stats.kinds & (1 << k) != 0 {
                        sub.bump(&format!("seq_with_{name}"), 1);
                    }
                }
                sub.bump("seq_removed_last_under_prefix", stats.removed_last_under_prefix as u64);
                sub.bump("seq_algebra_on_relatives", stats.algebra_on_shared as u64);
                sub.bump("seq_nonempty_clone", stats.nonempty_clone as u64);
                sub.bump("seq_mutation_with_live_relative", stats.mutation_with_live_clone as u64);
                sub.bump("seq_empty_restriction_insert", stats.empty_restriction_insert as u64);
                sub.bump("seq_nontrivial", nontrivial as u64);
                sub.bump("ops_executed", stats.ops as u64);
                sub.max("max_tuples_in_one_container", stats.max_tuples as u64);
                sub.max("max_ops_in_one_sequence", case.ops.len() as u64);
                if nontrivial {
                    sub.nontrivial_fingerprints.insert(fingerprint(&case));
                }
                sample = Some(pt_sample(&case));
            }
            (nontrivial, sample, res)
        },
        move |gens: Vec<pt::PtGen>| {
            let case = pt::resolve_capped(arity, &gens, &excl2, max_ops);
            let case = pt_minimize(&case, &excl2);
            let m = pt::run_pt(&case).1.err()?;
            Some(Found {
                case: CaseBody::Pt(case),
                mismatch: m,
                source,
                tag,
            })
        },
    )
}

pub fn run_c08(tier: Tier, seed: u64, excl: &Exclusions) -> Merged {
    let plan = pt_plan(tier);
    let mut jobs: Vec<Box<dyn FnOnce() -> SubResult + Send>> = Vec::new();
    for arity in 0..=pt::MAX_ARITY {
        for chunk in 0..plan.chunks {
            let cases = plan.seqs_per_arity / plan.chunks
                + if chunk < plan.seqs_per_arity % plan.chunks { 1 } else { 0 };
            let s = derive_seed(seed, 0xC08, (arity as u64) * 1000 + chunk as u64);
            let excl = excl.clone();
            let max_ops = plan.max_ops;
            jobs.push(Box::new(move || pt_sub(arity, chunk, cases, max_ops, s, excl)));
        }
    }
    let subs = run_parallel(jobs, worker_threads());
    let mut m = merge(subs, 5);
    m.extra.insert("arities".into(), json!((0..=pt::MAX_ARITY).collect::<Vec<_>>()));
    m.extra.insert("sequences_per_arity".into(), json!(plan.seqs_per_arity));
    m.extra.insert("max_ops_per_sequence".into(), json!(plan.max_ops));
    m.extra.insert("excluded".into(), json!(excl.list()));
    m
}

// ---------------------------------------------------------------------------------------------
// C14
// ---------------------------------------------------------------------------------------------

pub const C14_RULE: &str = "Random part: proptest-generated operation sequences (<= 60 generator ops; insert-run / remove-run generator ops expand to up to 24 / 16 concrete ops) on a family of 4 WBTreeMap<u64> and 4 WBTreeSet slots, key universes 8 / 64 / 1000 in equal shares, keys chosen fresh or among existing keys of the same / another slot. Ops: insert, remove, get, get_mut+write, contains_key, entry (or_insert, or_insert_with, occupied get_mut / into_mut / remove, vacant insert), iter_mut+write on a prefix, clear, union with the non-commutative merge (k,l,r)->l*1000003+7r+k, difference with an asymmetric filter, clone, and the set counterparts. After EVERY op every slot is compared with its BTreeMap/BTreeSet model: iter() entries, len(), is_empty(), and for maps verif_shape(): all nodes weight balanced, all cached sizes exact, node count == len, height <= ceil(2.41*log2(n+1))+1; return values, entry variants and the (key,left,right) arguments of every merge/filter callback invocation are compared too; comparing all slots checks that clones are unaffected. WBTreeMap::mapped is not exercised. Exhaustive part: every sequence of length <= L over a 32-letter alphabet on two maps and keys 0..=3 (insert k, remove k, entry-or-insert k on either map; clone-into-other, union, difference, clear on either map), each executed from scratch and fully compared after its last op (every proper prefix is itself enumerated). NON-TRIVIAL iff the sequence has >= 1 remove / occupied-entry remove / difference that deletes an existing key AND >= 1 mutation of a map (or set) while a clone relative of it is alive AND the largest slot holds >= 3 keys at the end. DISTINCT: random cases by 64-bit SipHash fingerprint of the concrete op sequence (cases that lie in the exhaustive space are not counted again); exhaustive sequences are distinct by construction. evaluations = random sequences generated + exhaustive sequences executed.";

pub struct WbPlan {
    pub random: u32,
    pub jobs: u32,
    pub max_ops: usize,
    pub exhaustive_len: usize,
}

pub fn wb_plan(tier: Tier) -> WbPlan {
    let exh_override = std::env::var("EQV_RT_EXH_LEN").ok().and_then(|s| s.parse::<usize>().ok());
    match tier {
        Tier::Quick => WbPlan {
            random: 40_000,
            jobs: 12,
            max_ops: 60,
            exhaustive_len: exh_override.unwrap_or(5),
        },
        Tier::Thorough => WbPlan {
            random: 400_000,
            jobs: 48,
            max_ops: 60,
            exhaustive_len: exh_override.unwrap_or(6),
        },
    }
}

fn wb_sample(case: &wb::WbCase, universe: Option<u32>) -> Value {
    json!({
        "key_universe": universe,
        "ops": serde_json::to_value(&case.ops).unwrap_or(Value::Null),
    })
}

pub fn wb_minimize(case: &wb::WbCase) -> wb::WbCase {
    let fails = |ops: &[wb::WbOp]| wb::run_wb(&wb::WbCase { ops: ops.to_vec() }).1.is_err();
    wb::WbCase {
        ops: minimize(case.ops.clone(), &fails),
    }
}

fn wb_sub(job: u32, universe: u32, cases: u32, max_ops: usize, seed: u64, exh_len: usize) -> SubResult {
    let label = format!("random/universe={universe}/job={job}");
    let source = format!("proptest:{label}");
    let tag = format!("u{universe}j{job}");
    run_sub(
        label,
        wb::strat::gen_ops(max_ops),
        cases,
        seed,
        |gens: &Vec<wb::WbGen>, sub: &mut SubResult, counting: bool| {
            let case = wb::resolve(universe, gens);
            let (stats, res) = wb::run_wb(&case);
            let nontrivial = stats.nontrivial();
            let mut sample = None;
            if counting {
                sub.bump(&format!("random_cases_universe_{universe}"), 1);
                for (k, name) in wb::KIND_NAMES.iter().enumerate() {
                    if stats.kinds & (1 << k) != 0 {
                        sub.bump(&format!("seq_with_{name}"), 1);
                    }
                }
                sub.bump("seq_deleted_existing_key", stats.deleted_existing as u64);
                sub.bump("seq_mutation_with_live_clone", stats.mutation_with_live_clone as u64);
                sub.bump("seq_callback_invoked", stats.callback_invoked as u64);
                sub.bump("seq_final_size_ge_3", (stats.final_max_len >= 3) as u64);
                sub.bump("seq_nontrivial", nontrivial as u64);
                sub.bump("ops_executed", stats.ops as u64);
                sub.max("max_len", stats.max_len as u64);
                sub.max("max_height", stats.max_height as u64);
                sub.max("max_ops_in_one_sequence", case.ops.len() as u64);
                if nontrivial && !wb::in_exhaustive_space(&case, exh_len) {
                    sub.nontrivial_fingerprints.insert(fingerprint(&case));
                }
                sample = Some(wb_sample(&case, Some(universe)));
            }
            (nontrivial, sample, res)
        },
        move |gens: Vec<wb::WbGen>| {
            let case = wb_minimize(&wb::resolve(universe, &gens));
            let m = wb::run_wb(&case).1.err()?;
            Some(Found {
                case: CaseBody::Wb(case),
                mismatch: m,
                source,
                tag,
            })
        },
    )
}

fn wb_exh_sub(prefix: Vec<usize>, max_len: usize) -> SubResult {
    let label = format!("exhaustive/prefix={prefix:?}");
    let r = wb::exhaustive_from(&prefix, max_len);
    let mut sub = SubResult {
        label,
        ..Default::default()
    };
    sub.evaluations = r.sequences;
    sub.nontrivial_enumerated = r.nontrivial;
    sub.bump("exhaustive_sequences", r.sequences);
    sub.bump("exhaustive_nontrivial", r.nontrivial);
    sub.bump("exhaustive_ops_executed", r.ops_executed);
    sub.max("max_height", r.max_height as u64);
    if let Some(c) = r.first_nontrivial {
        sub.samples.push(wb_sample(&c, None));
    }
    if let Some((case, _)) = r.failure {
        // re-run with per-step checks for the precise step
        let m = wb::run_wb(&case).1.err();
        match m {
            Some(m) => {
                sub.found = Some(Found {
                    case: CaseBody::Wb(case),
                    mismatch: m,
                    source: "exhaustive".into(),
                    tag: format!("exh{}", prefix.iter().map(|l| l.to_string()).collect::<Vec<_>>().join("_")),
                })
            }
            None => sub.infra_error = Some("exhaustive failure did not reproduce".into()),
        }
    }
    sub
}

pub fn run_c14(tier: Tier, seed: u64) -> Merged {
    let plan = wb_plan(tier);
    let mut jobs: Vec<Box<dyn FnOnce() -> SubResult + Send>> = Vec::new();
    // exhaustive part first (longest jobs first helps the schedule; results are ordered anyway)
    let l = plan.exhaustive_len;
    let mut exh_jobs = 0usize;
    if l >= 1 {
        if l <= 2 {
            for a in 0..wb::EXH_ALPHABET {
                jobs.push(Box::new(move || wb_exh_sub(vec![a], l)));
                exh_jobs += 1;
            }
        } else {
            for a in 0..wb::EXH_ALPHABET {
                jobs.push(Box::new(move || wb_exh_sub(vec![a], 1)));
                exh_jobs += 1;
                for b in 0..wb::EXH_ALPHABET {
                    jobs.push(Box::new(move || wb_exh_sub(vec![a, b], l)));
                    exh_jobs += 1;
                }
            }
        }
    }
    for job in 0..plan.jobs {
        let universe = wb::UNIVERSES[(job as usize) % wb::UNIVERSES.len()];
        let cases = plan.random / plan.jobs + if job < plan.random % plan.jobs { 1 } else { 0 };
        let s = derive_seed(seed, 0xC14, job as u64);
        let (max_ops, exh_len) = (plan.max_ops, plan.exhaustive_len);
        jobs.push(Box::new(move || wb_sub(job, universe, cases, max_ops, s, exh_len)));
    }
    let subs = run_parallel(jobs, worker_threads());
    // samples: take them from the random part mostly
    let (exh, rnd): (Vec<SubResult>, Vec<SubResult>) = {
        let mut exh = Vec::new();
        let mut rnd = Vec::new();
        for (i, s) in subs.into_iter().enumerate() {
            if i < exh_jobs {
                exh.push(s)
            } else {
                rnd.push(s)
            }
        }
        (exh, rnd)
    };
    let exh_m = merge(exh, 1);
    let mut m = merge(rnd, 4);
    let exh_sequences = exh_m.evaluations;
    m.evaluations += exh_m.evaluations;
    m.distinct_nontrivial += exh_m.distinct_nontrivial;
    for (k, v) in exh_m.classes {
        *m.classes.entry(k).or_insert(0) += v;
    }
    for (k, v) in exh_m.maxima {
        let e = m.maxima.entry(k).or_insert(0);
        if v > *e {
            *e = v;
        }
    }
    m.samples.extend(exh_m.samples);
    let mut found = exh_m.found;
    found.append(&mut m.found);
    m.found = found;
    m.infra_errors.extend(exh_m.infra_errors);
    m.sub_campaigns += exh_m.sub_campaigns;
    let expected: u64 = (1..=l as u32).map(|i| (wb::EXH_ALPHABET as u64).pow(i)).sum();
    m.extra.insert(
        "exhaustive_part".into(),
        json!({
            "max_len": l,
            "alphabet": wb::EXH_ALPHABET,
            "maps": 2,
            "keys": (0..wb::EXH_KEYS).collect::<Vec<_>>(),
            "sequences": exh_sequences,
            "sequences_expected": expected,
            "complete": exh_sequences == expected,
            "letters_at_step_0": (0..wb::EXH_ALPHABET).map(|i| serde_json::to_value(wb::exh_op(i, 0)).unwrap_or(Value::Null)).collect::<Vec<_>>(),
            "inserted_value_rule": "v = 100*(position in sequence, 1-based) + key",
        }),
    );
    m.extra.insert("random_sequences".into(), json!(plan.random));
    m.extra.insert("key_universes".into(), json!(wb::UNIVERSES));
    m.extra.insert("max_generator_ops_per_sequence".into(), json!(plan.max_ops));
    m
}

// ---------------------------------------------------------------------------------------------
// C18
// ---------------------------------------------------------------------------------------------

pub const C18_RULE: &str = "proptest-generated directed multigraphs: <= 7 objects (ids from 0..12), <= 10 morphisms (distinct ids from 0..16, so dom and cod are functions), each end independently undefined with probability 0.12, parallel morphisms and self loops allowed, half of the graphs biased to forward edges (acyclic apart from self loops); every mentioned object is a member of the object set. Each graph is run with 3 independent new/old splits; for each of the dom, cod and object tables a split is all-new, all-old or per-row random. Tables are built with PrefixTree insert only, dom as (object, morphism), cod as (morphism, object), and passed in the argument order of the generated caller. Oracle per split: Err iff the morphisms with both ends contain a directed cycle (self loop counts); Ok(list) must be exactly those morphisms once each with correct dom/cod and every morphism into an object before every morphism out of it. Across the 3 splits: same Ok/Err and same set of (mor, dom, cod) (order may differ). NON-TRIVIAL iff >= 3 morphisms have both ends AND there is a path of length >= 2 or a cycle AND some table of some split has both parts non-empty. DISTINCT = distinct 64-bit SipHash fingerprints of (graph, splits). evaluations = graphs generated (each evaluated on 3 splits).";

pub fn topo_plan(tier: Tier) -> (u32, u32) {
    match tier {
        Tier::Quick => (400_000, 16),
        Tier::Thorough => (4_000_000, 64),
    }
}

fn topo_sample(case: &topo::TopoCase) -> Value {
    let tabs: Vec<_> = case.splits.iter().map(|s| topo::tables(case, s)).collect();
    json!({
        "objects": case.objects,
        "morphisms": case.morphisms.iter().map(|m| json!([m.id, m.dom, m.cod])).collect::<Vec<_>>(),
        "morphism_format": "[id, dom, cod]",
        "cyclic": case.has_cycle(),
        "tables_per_split": tabs,
    })
}

fn topo_sub(job: u32, cases: u32, seed: u64) -> SubResult {
    let label = format!("job={job}");
    let source = format!("proptest:{label}");
    let tag = format!("j{job}");
    run_sub(
        label,
        topo::strat::gen_case(),
        cases,
        seed,
        |g: &topo::TopoGen, sub: &mut SubResult, counting: bool| {
            let case = topo::resolve(g);
            let (stats, res) = topo::run_topo(&case);
            let nontrivial = stats.nontrivial();
            let mut sample = None;
            if counting {
                sub.bump("graphs", 1);
                sub.bump("graphs_cyclic", stats.cyclic as u64);
                sub.bump("graphs_acyclic_with_ge3_full_morphisms", (!stats.cyclic && stats.full_morphisms >= 3) as u64);
                sub.bump("graphs_with_self_loop", stats.self_loop as u64);
                sub.bump("graphs_with_parallel_morphisms", stats.parallel as u64);
                sub.bump("graphs_with_partial_morphism", (stats.partial_morphisms > 0) as u64);
                sub.bump("graphs_with_path_len2", stats.path_len2 as u64);
                sub.bump("graphs_with_proper_split", stats.proper_split as u64);
                sub.bump("graphs_nontrivial", nontrivial as u64);
                sub.bump("toposort_calls", case.splits.len() as u64);
                sub.max("max_full_morphisms", stats.full_morphisms as u64);
                sub.max("max_objects", stats.objects as u64);
                if nontrivial {
                    sub.nontrivial_fingerprints.insert(fingerprint(&case));
                }
                sample = Some(topo_sample(&case));
            }
            (nontrivial, sample, res)
        },
        move |g: topo::TopoGen| {
            let case = topo::resolve(&g);
            let m = topo::run_topo(&case).1.err()?;
            Some(Found {
                case: CaseBody::Topo(case),
                mismatch: m,
                source,
                tag,
            })
        },
    )
}

pub fn run_c18(tier: Tier, seed: u64) -> Merged {
    let (total, njobs) = topo_plan(tier);
    let mut jobs: Vec<Box<dyn FnOnce() -> SubResult + Send>> = Vec::new();
    for job in 0..njobs {
        let cases = total / njobs + if job < total % njobs { 1 } else { 0 };
        let s = derive_seed(seed, 0xC18, job as u64);
        jobs.push(Box::new(move || topo_sub(job, cases, s)));
    }
    let subs = run_parallel(jobs, worker_threads());
    let mut m = merge(subs, 4);
    m.extra.insert("graphs".into(), json!(total));
    m.extra.insert("splits_per_graph".into(), json!(topo::SPLITS));
    m
}

// ---------------------------------------------------------------------------------------------
// Corpus seeds for the libFuzzer targets: a few generated cases, encoded with the mirror encoders
// ---------------------------------------------------------------------------------------------

fn sample_values<G: Debug>(strategy: &BoxedStrategy<G>, n: usize, seed: u64) -> Vec<G> {
    let mut r = runner(1, seed);
    let mut out = Vec::new();
    for _ in 0..n {
        if let Ok(tree) = strategy.new_tree(&mut r) {
            use proptest::strategy::ValueTree;
            out.push(tree.current());
        }
    }
    out
}

pub fn fuzz_seeds(target: &str, seed: u64, excl: &Exclusions) -> Vec<Vec<u8>> {
    match target {
        "pt_ops" => {
            let mut v = Vec::new();
            for arity in [1usize, 2, 3, 5, 9] {
                let s = pt::strat::gen_ops(arity, 24, excl);
                for g in sample_values(&s, 2, derive_seed(seed, 0xF08, arity as u64)) {
                    v.push(pt::codec::encode(arity, &g, excl));
                }
            }
            v
        }
        "wb_ops" => {
            let mut v = Vec::new();
            let s = wb::strat::gen_ops(30);
            for (i, u) in wb::UNIVERSES.iter().enumerate() {
                for g in sample_values(&s, 3, derive_seed(seed, 0xF14, i as u64)) {
                    v.push(wb::codec::encode(*u, &g));
                }
            }
            v
        }
        "toposort" => {
            let s = topo::strat::gen_case();
            sample_values(&s, 8, derive_seed(seed, 0xF18, 0))
                .iter()
                .map(topo::codec::encode)
                .collect()
        }
        _ => vec![],
    }
}
