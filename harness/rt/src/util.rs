//! Small shared helpers: deterministic hashing / seed derivation, panic capture, selector mapping.

use std::collections::BTreeSet;
use std::hash::{Hash, Hasher};
use std::panic::{catch_unwind, AssertUnwindSafe};
use std::sync::Once;

/// A structured description of one disagreement between the runtime and the reference model.
#[derive(Clone, Debug)]
pub struct Mismatch {
    /// Index of the operation (0-based) in the concrete sequence after which the check failed
    /// (`usize::MAX` when not tied to one operation).
    pub step: usize,
    /// The operation written out.
    pub op: String,
    /// Which check failed.
    pub check: String,
    pub expected: String,
    pub observed: String,
}

impl std::fmt::Display for Mismatch {
    fn fmt(&self, f: &mut std::fmt::Formatter<'_>) -> std::fmt::Result {
        if self.step == usize::MAX {
            write!(
                f,
                "{}: expected {}, observed {} [{}]",
                self.check, self.expected, self.observed, self.op
            )
        } else {
            write!(
                f,
                "after op #{} {}: {}: expected {}, observed {}",
                self.step, self.op, self.check, self.expected, self.observed
            )
        }
    }
}

impl Mismatch {
    pub fn new(check: impl Into<String>, expected: impl Into<String>, observed: impl Into<String>) -> Self {
        Mismatch {
            step: usize::MAX,
            op: String::new(),
            check: check.into(),
            expected: expected.into(),
            observed: observed.into(),
        }
    }
    pub fn at(mut self, step: usize, op: String) -> Self {
        if self.step == usize::MAX {
            self.step = step;
            self.op = op;
        }
        self
    }
    pub fn to_json(&self) -> serde_json::Value {
        serde_json::json!({
            "step": if self.step == usize::MAX { serde_json::Value::Null } else { serde_json::json!(self.step) },
            "op": self.op,
            "check": self.check,
            "expected": self.expected,
            "observed": self.observed,
        })
    }
}

/// Monotone mapping of a 16 bit selector onto `0..len` (never `%`, so that proptest shrinking of
/// the selector shrinks the selected index).
#[inline]
pub fn sel(i: u16, len: usize) -> usize {
    debug_assert!(len > 0);
    ((i as usize) * len) >> 16
}

/// Deterministic 64 bit fingerprint (SipHash with the fixed zero key of `DefaultHasher::new`).
pub fn fingerprint<T: Hash>(t: &T) -> u64 {
    #[allow(deprecated)]
    let mut h = std::hash::SipHasher::new_with_keys(0x6571762d72740001, 0x6571762d72740002);
    t.hash(&mut h);
    h.finish()
}

pub fn splitmix64(mut x: u64) -> u64 {
    x = x.wrapping_add(0x9E3779B97F4A7C15);
    let mut z = x;
    z = (z ^ (z >> 30)).wrapping_mul(0xBF58476D1CE4E5B9);
    z = (z ^ (z >> 27)).wrapping_mul(0x94D049BB133111EB);
    z ^ (z >> 31)
}

/// Seed of the `index`-th sub-campaign of property `tag` derived from the run seed.
pub fn derive_seed(seed: u64, tag: u64, index: u64) -> u64 {
    splitmix64(splitmix64(seed ^ splitmix64(tag)) ^ splitmix64(index.wrapping_add(0x51ed_270b)))
}

static QUIET_HOOK: Once = Once::new();

thread_local! {
    static LAST_PANIC: std::cell::RefCell<Option<String>> = const { std::cell::RefCell::new(None) };
    static CAPTURING: std::cell::Cell<bool> = const { std::cell::Cell::new(false) };
}

/// Install a panic hook that stays silent (and records message + location) while a
/// `catch_panic` is active on the panicking thread, and defers to the previous hook otherwise.
pub fn install_quiet_panic_hook() {
    QUIET_HOOK.call_once(|| {
        let prev = std::panic::take_hook();
        std::panic::set_hook(Box::new(move |info| {
            if CAPTURING.with(|c| c.get()) {
                let msg = if let Some(s) = info.payload().downcast_ref::<&str>() {
                    (*s).to_string()
                } else if let Some(s) = info.payload().downcast_ref::<String>() {
                    s.clone()
                } else {
                    "<non-string panic payload>".to_string()
                };
                let loc = info
                    .location()
                    .map(|l| format!("{}:{}:{}", l.file(), l.line(), l.column()))
                    .unwrap_or_else(|| "<unknown location>".to_string());
                LAST_PANIC.with(|p| *p.borrow_mut() = Some(format!("{msg} at {loc}")));
            } else {
                prev(info);
            }
        }));
    });
}

/// Run `f`; a panic inside (e.g. a `debug_assert!`/`unwrap` in the runtime) becomes `Err(text)`.
pub fn catch_panic<R>(f: impl FnOnce() -> R) -> Result<R, String> {
    let was = CAPTURING.with(|c| c.replace(true));
    LAST_PANIC.with(|p| *p.borrow_mut() = None);
    let r = catch_unwind(AssertUnwindSafe(f));
    CAPTURING.with(|c| c.set(was));
    match r {
        Ok(v) => Ok(v),
        Err(payload) => {
            let recorded = LAST_PANIC.with(|p| p.borrow_mut().take());
            let msg = recorded.unwrap_or_else(|| {
                if let Some(s) = payload.downcast_ref::<&str>() {
                    (*s).to_string()
                } else if let Some(s) = payload.downcast_ref::<String>() {
                    s.clone()
                } else {
                    "<panic>".to_string()
                }
            });
            Err(msg)
        }
    }
}

/// The op kinds / behaviours removed from the generators via `EQV_RT_EXCLUDE=<comma list>`.
#[derive(Clone, Debug, Default, PartialEq, Eq)]
pub struct Exclusions {
    pub names: BTreeSet<String>,
}

pub const KNOWN_EXCLUSIONS: &[&str] = &[
    "empty_restriction_insert",
    "remove_restriction",
    "insert_restriction",
    "mapped",
    "mapped_partial",
];

impl Exclusions {
    pub fn none() -> Self {
        Self::default()
    }
    pub fn from_env() -> Result<Self, String> {
        match std::env::var("EQV_RT_EXCLUDE") {
            Ok(s) => Self::parse(&s),
            Err(_) => Ok(Self::default()),
        }
    }
    pub fn parse(s: &str) -> Result<Self, String> {
        let mut names = BTreeSet::new();
        for part in s.split(',').map(|p| p.trim()).filter(|p| !p.is_empty()) {
            if !KNOWN_EXCLUSIONS.contains(&part) {
                return Err(format!(
                    "unknown EQV_RT_EXCLUDE value {part:?}; known: {}",
                    KNOWN_EXCLUSIONS.join(", ")
                ));
            }
            names.insert(part.to_string());
        }
        Ok(Exclusions { names })
    }
    pub fn has(&self, name: &str) -> bool {
        self.names.contains(name)
    }
    pub fn list(&self) -> Vec<String> {
        self.names.iter().cloned().collect()
    }
}

/// Byte sink / source pair used by the libFuzzer decoders and the corpus seed encoders. Every
/// field is read through `arbitrary::Unstructured` one byte at a time, so the encoder is the exact
/// mirror of the decoder.
pub mod wire {
    use arbitrary::Unstructured;

    pub fn get_u8(u: &mut Unstructured<'_>) -> u8 {
        u.arbitrary::<u8>().unwrap_or(0)
    }
    pub fn get_u16(u: &mut Unstructured<'_>) -> u16 {
        let hi = get_u8(u) as u16;
        let lo = get_u8(u) as u16;
        (hi << 8) | lo
    }
    pub fn get_below(u: &mut Unstructured<'_>, n: u8) -> u8 {
        get_u8(u) % n.max(1)
    }
    pub fn put_u8(out: &mut Vec<u8>, v: u8) {
        out.push(v);
    }
    pub fn put_u16(out: &mut Vec<u8>, v: u16) {
        out.push((v >> 8) as u8);
        out.push(v as u8);
    }
}

/// Readable JSON: like `to_string_pretty`, but arrays / objects whose compact form is short
/// (operation records, tuples, table rows) stay on one line.
pub fn pretty_json(v: &serde_json::Value) -> String {
    fn go(v: &serde_json::Value, indent: usize, out: &mut String) {
        let compact = serde_json::to_string(v).unwrap_or_default();
        let pad = "  ".repeat(indent + 1);
        let end = "  ".repeat(indent);
        match v {
            serde_json::Value::Array(items) if compact.len() > 110 && !items.is_empty() => {
                out.push_str("[\n");
                for (i, it) in items.iter().enumerate() {
                    out.push_str(&pad);
                    go(it, indent + 1, out);
                    if i + 1 < items.len() {
                        out.push(',');
                    }
                    out.push('\n');
                }
                out.push_str(&end);
                out.push(']');
            }
            serde_json::Value::Object(map) if (compact.len() > 110 || indent == 0) && !map.is_empty() => {
                out.push_str("{\n");
                let n = map.len();
                for (i, (k, it)) in map.iter().enumerate() {
                    out.push_str(&pad);
                    out.push_str(&serde_json::to_string(k).unwrap_or_default());
                    out.push_str(": ");
                    go(it, indent + 1, out);
                    if i + 1 < n {
                        out.push(',');
                    }
                    out.push('\n');
                }
                out.push_str(&end);
                out.push('}');
            }
            _ => out.push_str(&compact),
        }
    }
    let mut out = String::new();
    go(v, 0, &mut out);
    out.push('\n');
    out
}
