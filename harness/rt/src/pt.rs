//! C08: tuple containers (`PrefixTree0..9`) against a `BTreeSet<Vec<u32>>` model.
//!
//! Two levels of operations:
//!  * `PtGen`   — what the generators (proptest strategy, libFuzzer decoder) produce; tuple / key
//!                arguments are *selectors* that are resolved against the current model state so
//!                that collisions and shared prefixes are frequent at every arity;
//!  * `PtOp`    — the concrete, self-contained operation (plain numbers) that is executed, written
//!                to replay files and shown in evidence samples.
//! `resolve` turns the first into the second by running the model only.  `run_pt` executes a
//! concrete sequence on the real containers and the model side by side.

use std::collections::BTreeSet;

use eqlog_runtime::{
    PrefixTree0, PrefixTree1, PrefixTree2, PrefixTree3, PrefixTree4, PrefixTree5, PrefixTree6,
    PrefixTree7, PrefixTree8, PrefixTree9,
};
use serde::{Deserialize, Serialize};

use crate::util::{catch_panic, sel, Exclusions, Mismatch};

pub const LIVE: usize = 4;
pub const DONORS: usize = 2;
pub const SLOTS: usize = LIVE + DONORS;
/// Keys are drawn from `0..UNIVERSE`.
pub const UNIVERSE: u32 = 6;
pub const MAX_ARITY: usize = 9;

pub type Model = BTreeSet<Vec<u32>>;
/// A column mapping: list of (from, to) pairs, functional in `from`.
pub type ColMap = Option<Vec<(u32, u32)>>;

// ---------------------------------------------------------------------------------------------
// Uniform view of the ten container types
// ---------------------------------------------------------------------------------------------

pub trait Tree: Clone + 'static {
    const ARITY: usize;
    type Sub: Tree;
    fn new() -> Self;
    fn insert(&mut self, t: &[u32]) -> bool;
    fn remove(&mut self, t: &[u32]) -> bool;
    fn contains(&self, t: &[u32]) -> bool;
    fn is_empty(&self) -> bool;
    fn clear(&mut self);
    fn iter_vec(&self) -> Vec<Vec<u32>>;
    fn for_each_tuple(&self, f: &mut dyn FnMut(&[u32]));
    fn union(&self, o: &Self) -> Self;
    fn difference(&self, o: &Self) -> Self;
    fn mapped(&self, maps: &[Option<PrefixTree2>]) -> Self;
    // The following exist for arity >= 1 only.
    fn get(&self, k: u32) -> Option<&Self::Sub>;
    fn for_each_restriction(&self, f: &mut dyn FnMut(u32, &Self::Sub));
    fn insert_restriction(&mut self, k: u32, r: Self::Sub);
    fn remove_restriction(&mut self, k: u32, r: &Self::Sub);
}

impl Tree for PrefixTree0 {
    const ARITY: usize = 0;
    type Sub = PrefixTree0;
    fn new() -> Self {
        PrefixTree0::new()
    }
    fn insert(&mut self, t: &[u32]) -> bool {
        PrefixTree0::insert(self, <[u32; 0]>::try_from(t).unwrap())
    }
    fn remove(&mut self, t: &[u32]) -> bool {
        PrefixTree0::remove(self, <[u32; 0]>::try_from(t).unwrap())
    }
    fn contains(&self, t: &[u32]) -> bool {
        PrefixTree0::contains(self, <[u32; 0]>::try_from(t).unwrap())
    }
    fn is_empty(&self) -> bool {
        PrefixTree0::is_empty(self)
    }
    fn clear(&mut self) {
        PrefixTree0::clear(self)
    }
    fn iter_vec(&self) -> Vec<Vec<u32>> {
        PrefixTree0::iter(self).map(|a| a.to_vec()).collect()
    }
    fn for_each_tuple(&self, f: &mut dyn FnMut(&[u32])) {
        for a in PrefixTree0::iter(self) {
            f(&a)
        }
    }
    fn union(&self, o: &Self) -> Self {
        PrefixTree0::union(self, o)
    }
    fn difference(&self, o: &Self) -> Self {
        PrefixTree0::difference(self, o)
    }
    fn mapped(&self, _maps: &[Option<PrefixTree2>]) -> Self {
        PrefixTree0::mapped(self)
    }
    fn get(&self, _k: u32) -> Option<&Self::Sub> {
        unreachable!("arity 0 has no prefix lookup")
    }
    fn for_each_restriction(&self, _f: &mut dyn FnMut(u32, &Self::Sub)) {
        unreachable!("arity 0 has no prefix iteration")
    }
    fn insert_restriction(&mut self, _k: u32, _r: Self::Sub) {
        unreachable!("arity 0 has no insert_restriction")
    }
    fn remove_restriction(&mut self, _k: u32, _r: &Self::Sub) {
        unreachable!("arity 0 has no remove_restriction")
    }
}

impl Tree for PrefixTree1 {
    const ARITY: usize = 1;
    type Sub = PrefixTree0;
    fn new() -> Self {
        PrefixTree1::new()
    }
    fn insert(&mut self, t: &[u32]) -> bool {
        PrefixTree1::insert(self, <[u32; 1]>::try_from(t).unwrap())
    }
    fn remove(&mut self, t: &[u32]) -> bool {
        PrefixTree1::remove(self, <[u32; 1]>::try_from(t).unwrap())
    }
    fn contains(&self, t: &[u32]) -> bool {
        PrefixTree1::contains(self, <[u32; 1]>::try_from(t).unwrap())
    }
    fn is_empty(&self) -> bool {
        PrefixTree1::is_empty(self)
    }
    fn clear(&mut self) {
        PrefixTree1::clear(self)
    }
    fn iter_vec(&self) -> Vec<Vec<u32>> {
        PrefixTree1::iter(self).map(|a| a.to_vec()).collect()
    }
    fn for_each_tuple(&self, f: &mut dyn FnMut(&[u32])) {
        for a in PrefixTree1::iter(self) {
            f(&a)
        }
    }
    fn union(&self, o: &Self) -> Self {
        PrefixTree1::union(self, o)
    }
    fn difference(&self, o: &Self) -> Self {
        PrefixTree1::difference(self, o)
    }
    fn mapped(&self, maps: &[Option<PrefixTree2>]) -> Self {
        PrefixTree1::mapped(self, maps[0].clone())
    }
    fn get(&self, k: u32) -> Option<&Self::Sub> {
        PrefixTree1::get(self, k)
    }
    fn for_each_restriction(&self, f: &mut dyn FnMut(u32, &Self::Sub)) {
        for (k, v) in PrefixTree1::iter_restrictions(self) {
            f(k, &v)
        }
    }
    fn insert_restriction(&mut self, k: u32, r: Self::Sub) {
        PrefixTree1::insert_restriction(self, k, r)
    }
    fn remove_restriction(&mut self, k: u32, r: &Self::Sub) {
        PrefixTree1::remove_restriction(self, k, r)
    }
}

macro_rules! impl_tree {
    ($T:ident, $S:ident, $n:expr, [$($i:expr),*]) => {
        impl Tree for $T {
            const ARITY: usize = $n;
            type Sub = $S;
            fn new() -> Self {
                $T::new()
            }
            fn insert(&mut self, t: &[u32]) -> bool {
                $T::insert(self, <[u32; $n]>::try_from(t).unwrap())
            }
            fn remove(&mut self, t: &[u32]) -> bool {
                $T::remove(self, <[u32; $n]>::try_from(t).unwrap())
            }
            fn contains(&self, t: &[u32]) -> bool {
                $T::contains(self, <[u32; $n]>::try_from(t).unwrap())
            }
            fn is_empty(&self) -> bool {
                $T::is_empty(self)
            }
            fn clear(&mut self) {
                $T::clear(self)
            }
            fn iter_vec(&self) -> Vec<Vec<u32>> {
                $T::iter(self).map(|a| a.to_vec()).collect()
            }
            fn for_each_tuple(&self, f: &mut dyn FnMut(&[u32])) {
                for a in $T::iter(self) {
                    f(&a)
                }
            }
            fn union(&self, o: &Self) -> Self {
                $T::union(self, o)
            }
            fn difference(&self, o: &Self) -> Self {
                $T::difference(self, o)
            }
            fn mapped(&self, maps: &[Option<PrefixTree2>]) -> Self {
                $T::mapped(self, $(maps[$i].clone()),*)
            }
            fn get(&self, k: u32) -> Option<&Self::Sub> {
                $T::get(self, k)
            }
            fn for_each_restriction(&self, f: &mut dyn FnMut(u32, &Self::Sub)) {
                for (k, v) in $T::iter_restrictions(self) {
                    f(k, v)
                }
            }
            fn insert_restriction(&mut self, k: u32, r: Self::Sub) {
                $T::insert_restriction(self, k, r)
            }
            fn remove_restriction(&mut self, k: u32, r: &Self::Sub) {
                $T::remove_restriction(self, k, r)
            }
        }
    };
}

impl_tree!(PrefixTree2, PrefixTree1, 2, [0, 1]);
impl_tree!(PrefixTree3, PrefixTree2, 3, [0, 1, 2]);
impl_tree!(PrefixTree4, PrefixTree3, 4, [0, 1, 2, 3]);
impl_tree!(PrefixTree5, PrefixTree4, 5, [0, 1, 2, 3, 4]);
impl_tree!(PrefixTree6, PrefixTree5, 6, [0, 1, 2, 3, 4, 5]);
impl_tree!(PrefixTree7, PrefixTree6, 7, [0, 1, 2, 3, 4, 5, 6]);
impl_tree!(PrefixTree8, PrefixTree7, 8, [0, 1, 2, 3, 4, 5, 6, 7]);
impl_tree!(PrefixTree9, PrefixTree8, 9, [0, 1, 2, 3, 4, 5, 6, 7, 8]);

// ---------------------------------------------------------------------------------------------
// Concrete operations
// ---------------------------------------------------------------------------------------------

/// `c`, `a`, `b`, `src`, `dst` index the 4 live containers of arity N; `d` (and `src`/`dst` of the
/// `donor_*` ops) index the 2 donor containers of arity N-1.
#[derive(Serialize, Deserialize, Clone, Debug, PartialEq, Eq, Hash)]
#[serde(tag = "op", rename_all = "snake_case")]
pub enum PtOp {
    Insert { c: u8, t: Vec<u32> },
    Remove { c: u8, t: Vec<u32> },
    Contains { c: u8, t: Vec<u32> },
    /// Prefix lookup `live[c].get(k)`, deep-compared with the model.
    Get { c: u8, k: u32 },
    Clear { c: u8 },
    /// `live[dst] = live[a].union(&live[b])`
    Union { a: u8, b: u8, dst: u8 },
    /// `live[dst] = live[a].difference(&live[b])`
    Difference { a: u8, b: u8, dst: u8 },
    /// `live[c].insert_restriction(k, donor[d].clone())`
    InsertRestriction { c: u8, k: u32, d: u8 },
    /// `live[c].remove_restriction(k, &donor[d])`
    RemoveRestriction { c: u8, k: u32, d: u8 },
    /// `live[dst] = live[src].mapped(maps...)`; one optional (from,to) table per column.
    Mapped { src: u8, dst: u8, maps: Vec<ColMap> },
    /// `live[dst] = live[src].clone()`
    Clone { src: u8, dst: u8 },
    DonorInsert { d: u8, t: Vec<u32> },
    DonorRemove { d: u8, t: Vec<u32> },
    DonorClear { d: u8 },
    /// `donor[d] = live[c].get(k).cloned().unwrap_or_else(new)` (shares structure with `live[c]`).
    DonorFromGet { d: u8, c: u8, k: u32 },
    /// `donor[dst] = donor[src].mapped(maps...)`
    DonorMapped { src: u8, dst: u8, maps: Vec<ColMap> },
    DonorClone { src: u8, dst: u8 },
}

pub const KIND_NAMES: [&str; 17] = [
    "insert",
    "remove",
    "contains",
    "get",
    "clear",
    "union",
    "difference",
    "insert_restriction",
    "remove_restriction",
    "mapped",
    "clone",
    "donor_insert",
    "donor_remove",
    "donor_clear",
    "donor_from_get",
    "donor_mapped",
    "donor_clone",
];

impl PtOp {
    pub fn kind(&self) -> usize {
        match self {
            PtOp::Insert { .. } => 0,
            PtOp::Remove { .. } => 1,
            PtOp::Contains { .. } => 2,
            PtOp::Get { .. } => 3,
            PtOp::Clear { .. } => 4,
            PtOp::Union { .. } => 5,
            PtOp::Difference { .. } => 6,
            PtOp::InsertRestriction { .. } => 7,
            PtOp::RemoveRestriction { .. } => 8,
            PtOp::Mapped { .. } => 9,
            PtOp::Clone { .. } => 10,
            PtOp::DonorInsert { .. } => 11,
            PtOp::DonorRemove { .. } => 12,
            PtOp::DonorClear { .. } => 13,
            PtOp::DonorFromGet { .. } => 14,
            PtOp::DonorMapped { .. } => 15,
            PtOp::DonorClone { .. } => 16,
        }
    }
    pub fn text(&self) -> String {
        serde_json::to_string(self).unwrap_or_else(|_| format!("{self:?}"))
    }
}

#[derive(Serialize, Deserialize, Clone, Debug, PartialEq, Eq, Hash)]
pub struct PtCase {
    pub arity: u8,
    pub ops: Vec<PtOp>,
}

impl PtCase {
    /// Structural validity (slot ranges, tuple lengths, functional maps, ops that exist at the
    /// arity).  A case that fails this is a malformed replay file, not a property violation.
    pub fn validate(&self) -> Result<(), String> {
        let n = self.arity as usize;
        if n > MAX_ARITY {
            return Err(format!("arity {n} out of range 0..=9"));
        }
        let live = |c: u8| -> Result<(), String> {
            if (c as usize) < LIVE {
                Ok(())
            } else {
                Err(format!("live slot {c} out of range 0..{LIVE}"))
            }
        };
        let donor = |d: u8| -> Result<(), String> {
            if n == 0 {
                return Err("donor/prefix operations do not exist at arity 0".into());
            }
            if (d as usize) < DONORS {
                Ok(())
            } else {
                Err(format!("donor slot {d} out of range 0..{DONORS}"))
            }
        };
        let tup = |t: &Vec<u32>, len: usize| -> Result<(), String> {
            if t.len() == len {
                Ok(())
            } else {
                Err(format!("tuple {t:?} does not have length {len}"))
            }
        };
        let maps = |m: &Vec<ColMap>, len: usize| -> Result<(), String> {
            if m.len() != len {
                return Err(format!("mapped needs {len} column maps, got {}", m.len()));
            }
            for col in m.iter().flatten() {
                let mut seen = BTreeSet::new();
                for (from, _) in col {
                    if !seen.insert(*from) {
                        return Err(format!("column map is not functional at {from}"));
                    }
                }
            }
            Ok(())
        };
        for (i, op) in self.ops.iter().enumerate() {
            let r = match op {
                PtOp::Insert { c, t } | PtOp::Remove { c, t } | PtOp::Contains { c, t } => {
                    live(*c).and_then(|_| tup(t, n))
                }
                PtOp::Get { c, .. } => live(*c).and_then(|_| donor(0)),
                PtOp::Clear { c } => live(*c),
                PtOp::Union { a, b, dst } | PtOp::Difference { a, b, dst } => {
                    live(*a).and_then(|_| live(*b)).and_then(|_| live(*dst))
                }
                PtOp::InsertRestriction { c, d, .. } | PtOp::RemoveRestriction { c, d, .. } => {
                    live(*c).and_then(|_| donor(*d))
                }
                PtOp::Mapped { src, dst, maps: m } => {
                    live(*src).and_then(|_| live(*dst)).and_then(|_| maps(m, n))
                }
                PtOp::Clone { src, dst } => live(*src).and_then(|_| live(*dst)),
                PtOp::DonorInsert { d, t } | PtOp::DonorRemove { d, t } => {
                    donor(*d).and_then(|_| tup(t, n.saturating_sub(1)))
                }
                PtOp::DonorClear { d } => donor(*d),
                PtOp::DonorFromGet { d, c, .. } => donor(*d).and_then(|_| live(*c)),
                PtOp::DonorMapped { src, dst, maps: m } => donor(*src)
                    .and_then(|_| donor(*dst))
                    .and_then(|_| maps(m, n.saturating_sub(1))),
                PtOp::DonorClone { src, dst } => donor(*src).and_then(|_| donor(*dst)),
            };
            r.map_err(|e| format!("op #{i} {}: {e}", op.text()))?;
        }
        Ok(())
    }
}

// ---------------------------------------------------------------------------------------------
// Model
// ---------------------------------------------------------------------------------------------

#[derive(Clone, Debug, Default)]
pub struct PtStats {
    /// bit i set iff an op of kind i occurs
    pub kinds: u32,
    /// some op removed the last tuple under a first-column prefix (arity 0: the only tuple)
    pub removed_last_under_prefix: bool,
    /// a union / difference / insert_restriction / remove_restriction was applied to two
    /// containers one of which was cloned from / taken out of / inserted into the other
    pub algebra_on_shared: bool,
    /// a non-empty container was cloned
    pub nonempty_clone: bool,
    /// a container was mutated while a clone relative of it was alive
    pub mutation_with_live_clone: bool,
    /// insert_restriction with an empty donor occurred
    pub empty_restriction_insert: bool,
    pub max_tuples: usize,
    pub ops: usize,
}

impl PtStats {
    pub fn nontrivial(&self) -> bool {
        self.removed_last_under_prefix && self.algebra_on_shared
    }
}

fn sub_model(m: &Model, k: u32) -> Model {
    m.iter()
        .filter(|t| t.first() == Some(&k))
        .map(|t| t[1..].to_vec())
        .collect()
}

fn first_cols(m: &Model) -> Vec<u32> {
    let mut v: Vec<u32> = m.iter().filter_map(|t| t.first().copied()).collect();
    v.dedup();
    v
}

fn apply_maps(m: &Model, maps: &[ColMap]) -> Model {
    let mut out = Model::new();
    'next: for t in m {
        let mut r = t.clone();
        for (i, col) in maps.iter().enumerate() {
            if let Some(pairs) = col {
                match pairs.iter().find(|(from, _)| *from == r[i]) {
                    Some((_, to)) => r[i] = *to,
                    None => continue 'next,
                }
            }
        }
        out.insert(r);
    }
    out
}

/// What the op is expected to return (only bool-returning ops have one).
#[derive(Clone, Copy, Debug, PartialEq, Eq)]
pub enum Ret {
    None,
    Bool(bool),
}

#[derive(Clone, Debug)]
pub struct ModelState {
    pub arity: usize,
    /// slots 0..4 live (arity N), 4..6 donors (arity N-1)
    pub sets: Vec<Model>,
    /// symmetric "are relatives through clone / get / insert_restriction" relation
    pub rel: [[bool; SLOTS]; SLOTS],
    pub stats: PtStats,
}

impl ModelState {
    pub fn new(arity: usize) -> Self {
        ModelState {
            arity,
            sets: vec![Model::new(); SLOTS],
            rel: [[false; SLOTS]; SLOTS],
            stats: PtStats::default(),
        }
    }
    pub fn live(&self, c: u8) -> &Model {
        &self.sets[c as usize]
    }
    pub fn donor(&self, d: u8) -> &Model {
        &self.sets[LIVE + d as usize]
    }
    fn reset_rel(&mut self, s: usize) {
        for x in 0..SLOTS {
            self.rel[s][x] = false;
            self.rel[x][s] = false;
        }
    }
    fn relate(&mut self, a: usize, b: usize) {
        if a != b {
            self.rel[a][b] = true;
            self.rel[b][a] = true;
        }
    }
    /// `dst` becomes a relative of `src` and of all relatives of `src`.
    fn inherit(&mut self, dst: usize, src: usize) {
        if dst == src {
            return;
        }
        let row = self.rel[src];
        self.reset_rel(dst);
        for (x, r) in row.iter().enumerate() {
            if *r {
                self.relate(dst, x);
            }
        }
        self.relate(dst, src);
    }
    fn has_relative(&self, s: usize) -> bool {
        self.rel[s].iter().any(|b| *b)
    }
    fn mutated(&mut self, s: usize) {
        if self.has_relative(s) {
            self.stats.mutation_with_live_clone = true;
        }
    }
    fn count_under(&self, s: usize, k: u32) -> usize {
        self.sets[s].iter().filter(|t| t.first() == Some(&k)).count()
    }

    /// Apply `op` to the model; returns the expected return value.
    pub fn apply(&mut self, op: &PtOp) -> Ret {
        self.stats.kinds |= 1 << op.kind();
        self.stats.ops += 1;
        let ret = match op {
            PtOp::Insert { c, t } => {
                let s = *c as usize;
                let r = self.sets[s].insert(t.clone());
                if r {
                    self.mutated(s);
                }
                Ret::Bool(r)
            }
            PtOp::Remove { c, t } => {
                let s = *c as usize;
                let r = self.sets[s].remove(t);
                if r {
                    self.mutated(s);
                    let last = match t.first() {
                        None => true,
                        Some(k) => self.count_under(s, *k) == 0,
                    };
                    if last {
                        self.stats.removed_last_under_prefix = true;
                    }
                }
                Ret::Bool(r)
            }
            PtOp::Contains { c, t } => Ret::Bool(self.sets[*c as usize].contains(t)),
            PtOp::Get { .. } => Ret::None,
            PtOp::Clear { c } => {
                let s = *c as usize;
                if !self.sets[s].is_empty() {
                    self.stats.removed_last_under_prefix = true;
                    self.mutated(s);
                }
                self.sets[s].clear();
                Ret::None
            }
            PtOp::Union { a, b, dst } => {
                let (a, b, dst) = (*a as usize, *b as usize, *dst as usize);
                if a != b && self.rel[a][b] {
                    self.stats.algebra_on_shared = true;
                }
                let r: Model = self.sets[a].union(&self.sets[b]).cloned().collect();
                self.reset_rel(dst);
                self.sets[dst] = r;
                Ret::None
            }
            PtOp::Difference { a, b, dst } => {
                let (a, b, dst) = (*a as usize, *b as usize, *dst as usize);
                if a != b && self.rel[a][b] {
                    self.stats.algebra_on_shared = true;
                }
                let r: Model = self.sets[a].difference(&self.sets[b]).cloned().collect();
                let lost_prefix = if self.arity == 0 {
                    !self.sets[a].is_empty() && r.is_empty()
                } else {
                    first_cols(&self.sets[a]) != first_cols(&r)
                };
                if lost_prefix {
                    self.stats.removed_last_under_prefix = true;
                }
                self.reset_rel(dst);
                self.sets[dst] = r;
                Ret::None
            }
            PtOp::InsertRestriction { c, k, d } => {
                let (s, ds) = (*c as usize, LIVE + *d as usize);
                if self.rel[s][ds] {
                    self.stats.algebra_on_shared = true;
                }
                if self.sets[ds].is_empty() {
                    self.stats.empty_restriction_insert = true;
                } else {
                    self.mutated(s);
                }
                let add: Vec<Vec<u32>> = self.sets[ds]
                    .iter()
                    .map(|t| {
                        let mut v = Vec::with_capacity(t.len() + 1);
                        v.push(*k);
                        v.extend_from_slice(t);
                        v
                    })
                    .collect();
                let nonempty = !add.is_empty();
                self.sets[s].extend(add);
                if nonempty {
                    self.relate(s, ds);
                }
                Ret::None
            }
            PtOp::RemoveRestriction { c, k, d } => {
                let (s, ds) = (*c as usize, LIVE + *d as usize);
                if self.rel[s][ds] {
                    self.stats.algebra_on_shared = true;
                }
                let before = self.count_under(s, *k);
                let del: Vec<Vec<u32>> = self.sets[ds]
                    .iter()
                    .map(|t| {
                        let mut v = Vec::with_capacity(t.len() + 1);
                        v.push(*k);
                        v.extend_from_slice(t);
                        v
                    })
                    .collect();
                for t in &del {
                    self.sets[s].remove(t);
                }
                let after = self.count_under(s, *k);
                if after != before {
                    self.mutated(s);
                }
                if before > 0 && after == 0 {
                    self.stats.removed_last_under_prefix = true;
                }
                Ret::None
            }
            PtOp::Mapped { src, dst, maps } => {
                let r = apply_maps(&self.sets[*src as usize], maps);
                self.reset_rel(*dst as usize);
                self.sets[*dst as usize] = r;
                Ret::None
            }
            PtOp::Clone { src, dst } => {
                let (src, dst) = (*src as usize, *dst as usize);
                if src != dst {
                    let m = self.sets[src].clone();
                    if !m.is_empty() {
                        self.stats.nonempty_clone = true;
                        self.inherit(dst, src);
                    } else {
                        self.reset_rel(dst);
                    }
                    self.sets[dst] = m;
                }
                Ret::None
            }
            PtOp::DonorInsert { d, t } => {
                let s = LIVE + *d as usize;
                let r = self.sets[s].insert(t.clone());
                if r {
                    self.mutated(s);
                }
                Ret::Bool(r)
            }
            PtOp::DonorRemove { d, t } => {
                let s = LIVE + *d as usize;
                let r = self.sets[s].remove(t);
                if r {
                    self.mutated(s);
                }
                Ret::Bool(r)
            }
            PtOp::DonorClear { d } => {
                let s = LIVE + *d as usize;
                if !self.sets[s].is_empty() {
                    self.mutated(s);
                }
                self.sets[s].clear();
                Ret::None
            }
            PtOp::DonorFromGet { d, c, k } => {
                let (ds, s) = (LIVE + *d as usize, *c as usize);
                let m = sub_model(&self.sets[s], *k);
                if m.is_empty() {
                    self.reset_rel(ds);
                } else {
                    self.inherit(ds, s);
                }
                self.sets[ds] = m;
                Ret::None
            }
            PtOp::DonorMapped { src, dst, maps } => {
                let r = apply_maps(&self.sets[LIVE + *src as usize], maps);
                self.reset_rel(LIVE + *dst as usize);
                self.sets[LIVE + *dst as usize] = r;
                Ret::None
            }
            PtOp::DonorClone { src, dst } => {
                let (src, dst) = (LIVE + *src as usize, LIVE + *dst as usize);
                if src != dst {
                    let m = self.sets[src].clone();
                    if m.is_empty() {
                        self.reset_rel(dst);
                    } else {
                        self.inherit(dst, src);
                    }
                    self.sets[dst] = m;
                }
                Ret::None
            }
        };
        let mx = self.sets.iter().map(|m| m.len()).max().unwrap_or(0);
        if mx > self.stats.max_tuples {
            self.stats.max_tuples = mx;
        }
        ret
    }
}

// ---------------------------------------------------------------------------------------------
// Oracle
// ---------------------------------------------------------------------------------------------

fn fmt_tuples(v: &[Vec<u32>]) -> String {
    const MAX: usize = 24;
    if v.len() <= MAX {
        format!("{v:?}")
    } else {
        format!("{:?} ... ({} tuples)", &v[..MAX], v.len())
    }
}

/// Compare one container with its model: iteration (sorted, duplicate free, exact), emptiness,
/// membership probes, prefix iteration (keys ascending, exact sub-relations, recursively) and
/// prefix lookups for every key of the universe and one outside of it.
pub fn check_tree<T: Tree>(t: &T, m: &Model, label: &dyn std::fmt::Display) -> Result<(), Mismatch> {
    let rows: Vec<&[u32]> = m.iter().map(|v| v.as_slice()).collect();
    check_rows::<T>(t, &rows, 0, label)
}

/// Structure below the top level: emptiness and prefix-iteration keys at every node (this is
/// where a key with an empty subtree shows).  Iteration, membership and lookups of the nested
/// containers are exercised through the top-level calls, which delegate to them.
fn check_nested<T: Tree>(
    t: &T,
    rows: &[&[u32]],
    depth: usize,
    label: &dyn std::fmt::Display,
) -> Result<(), Mismatch> {
    let e = t.is_empty();
    if e != rows.is_empty() {
        return Err(Mismatch::new(
            format!("{label}: is_empty() of a container holding {} tuples", rows.len()),
            format!("{}", rows.is_empty()),
            format!("{e}"),
        ));
    }
    if T::ARITY == 0 {
        return Ok(());
    }
    let mut pos = 0usize;
    let mut res: Result<(), Mismatch> = Ok(());
    let mut got_keys: Vec<u32> = Vec::new();
    t.for_each_restriction(&mut |k, sub| {
        got_keys.push(k);
        if res.is_err() {
            return;
        }
        // rows are sorted, keys must come ascending: the group of k starts at `pos`
        let start = pos;
        while pos < rows.len() && rows[pos][depth] == k {
            pos += 1;
        }
        if start == pos {
            // key without tuples: reported below through the key comparison, unless the
            // sub-container itself is inconsistent
            res = check_nested::<T::Sub>(sub, &[], depth + 1, &format_args!("{label}.iter_restrictions()[{k}]"));
            if res.is_ok() {
                res = Err(Mismatch::new(
                    format!("{label}: iter_restrictions() yields key {k} although no tuple starts with it"),
                    "key absent",
                    "key present with an empty sub-container",
                ));
            }
            return;
        }
        res = check_nested::<T::Sub>(
            sub,
            &rows[start..pos],
            depth + 1,
            &format_args!("{label}.iter_restrictions()[{k}]"),
        );
    });
    if res.is_ok() && pos == rows.len() {
        return Ok(());
    }
    let mut want_keys: Vec<u32> = rows.iter().map(|r| r[depth]).collect();
    want_keys.dedup();
    if got_keys != want_keys {
        return Err(Mismatch::new(
            format!("{label}: iter_restrictions() keys (distinct first columns, ascending)"),
            format!("{want_keys:?}"),
            format!("{got_keys:?}"),
        ));
    }
    res
}

/// Does `t` iterate exactly `rows[..][depth..]` in this order?  Allocation free.
fn iter_matches<T: Tree>(t: &T, rows: &[&[u32]], depth: usize) -> bool {
    let mut i = 0usize;
    let mut ok = true;
    t.for_each_tuple(&mut |tup| {
        if ok {
            if i < rows.len() && rows[i][depth..] == *tup {
                i += 1;
            } else {
                ok = false;
            }
        }
    });
    ok && i == rows.len()
}

fn suffixes(rows: &[&[u32]], depth: usize) -> Vec<Vec<u32>> {
    rows.iter().map(|r| r[depth..].to_vec()).collect()
}

/// `rows`: the sorted model tuples that share their first `depth` columns; `t` is the container
/// found under that prefix (arity = remaining columns).
fn check_rows<T: Tree>(
    t: &T,
    rows: &[&[u32]],
    depth: usize,
    label: &dyn std::fmt::Display,
) -> Result<(), Mismatch> {
    if !iter_matches::<T>(t, rows, depth) {
        return Err(Mismatch::new(
            format!("{label}: iteration (lexicographic, duplicate free, exact)"),
            fmt_tuples(&suffixes(rows, depth)),
            fmt_tuples(&t.iter_vec()),
        ));
    }
    let e = t.is_empty();
    if e != rows.is_empty() {
        return Err(Mismatch::new(
            format!("{label}: is_empty() of a container holding {} tuples", rows.len()),
            format!("{}", rows.is_empty()),
            format!("{e}"),
        ));
    }
    // membership: every member, and for every member the neighbour with the last column + 1
    let mut buf = [0u32; MAX_ARITY];
    for r in rows.iter() {
        let tup = &r[depth..];
        if !t.contains(tup) {
            return Err(Mismatch::new(format!("{label}: contains({tup:?})"), "true", "false"));
        }
        if let Some(last) = tup.last() {
            let n = tup.len();
            buf[..n].copy_from_slice(tup);
            buf[n - 1] = last.wrapping_add(1);
            let probe = &buf[..n];
            let want = rows.binary_search_by(|x| x[depth..].cmp(probe)).is_ok();
            let got = t.contains(probe);
            if want != got {
                return Err(Mismatch::new(
                    format!("{label}: contains({probe:?})"),
                    format!("{want}"),
                    format!("{got}"),
                ));
            }
        }
    }
    if T::ARITY == 0 {
        let got = t.contains(&[]);
        if got == rows.is_empty() {
            return Err(Mismatch::new(
                format!("{label}: contains([])"),
                format!("{}", !rows.is_empty()),
                format!("{got}"),
            ));
        }
        return Ok(());
    }
    // groups of rows by the column at `depth`: (key, start, end)
    let mut groups: Vec<(u32, usize, usize)> = Vec::new();
    for (i, r) in rows.iter().enumerate() {
        match groups.last_mut() {
            Some(g) if g.0 == r[depth] => g.2 = i + 1,
            _ => groups.push((r[depth], i, i + 1)),
        }
    }
    let group_of = |k: u32| -> &[&[u32]] {
        match groups.binary_search_by(|g| g.0.cmp(&k)) {
            Ok(gi) => &rows[groups[gi].1..groups[gi].2],
            Err(_) => &[],
        }
    };
    // prefix iteration
    let mut got_keys: Vec<u32> = Vec::new();
    let mut deep: Result<(), Mismatch> = Ok(());
    t.for_each_restriction(&mut |k, sub| {
        got_keys.push(k);
        if deep.is_ok() {
            let sm = group_of(k);
            deep = check_nested::<T::Sub>(
                sub,
                sm,
                depth + 1,
                &format_args!("{label}.iter_restrictions()[{k}]"),
            );
            if deep.is_ok() && !iter_matches::<T::Sub>(sub, sm, depth + 1) {
                deep = Err(Mismatch::new(
                    format!("{label}: iter_restrictions()[{k}] contents"),
                    fmt_tuples(&suffixes(sm, depth + 1)),
                    fmt_tuples(&sub.iter_vec()),
                ));
            }
        }
    });
    if !got_keys.iter().copied().eq(groups.iter().map(|g| g.0)) {
        return Err(Mismatch::new(
            format!("{label}: iter_restrictions() keys (distinct first columns, ascending)"),
            format!("{:?}", groups.iter().map(|g| g.0).collect::<Vec<_>>()),
            format!("{got_keys:?}"),
        ));
    }
    deep?;
    // prefix lookups
    for k in (0..=UNIVERSE).chain(std::iter::once(u32::MAX)) {
        let sm = group_of(k);
        match t.get(k) {
            None => {
                if !sm.is_empty() {
                    return Err(Mismatch::new(
                        format!("{label}: get({k})"),
                        format!("Some(container with {})", fmt_tuples(&suffixes(sm, depth + 1))),
                        "None",
                    ));
                }
            }
            Some(sub) => {
                if !iter_matches::<T::Sub>(sub, sm, depth + 1) {
                    return Err(Mismatch::new(
                        format!("{label}: get({k}) contents"),
                        fmt_tuples(&suffixes(sm, depth + 1)),
                        fmt_tuples(&sub.iter_vec()),
                    ));
                }
                let e = sub.is_empty();
                if e != sm.is_empty() {
                    return Err(Mismatch::new(
                        format!(
                            "{label}: get({k}).is_empty() of a sub-container holding {} tuples",
                            sm.len()
                        ),
                        format!("{}", sm.is_empty()),
                        format!("{e}"),
                    ));
                }
            }
        }
    }
    Ok(())
}

fn build_map(pairs: &[(u32, u32)]) -> PrefixTree2 {
    // built with `insert` only, hence without empty restrictions (precondition of `mapped`)
    let mut m = PrefixTree2::new();
    for (a, b) in pairs {
        m.insert([*a, *b]);
    }
    m
}

fn build_maps(maps: &[ColMap]) -> Vec<Option<PrefixTree2>> {
    maps.iter().map(|c| c.as_ref().map(|p| build_map(p))).collect()
}

struct Real<T: Tree> {
    live: Vec<T>,
    donors: Vec<T::Sub>,
}

fn check_ret(name: &str, want: Ret, got: bool) -> Result<(), Mismatch> {
    match want {
        Ret::Bool(w) if w != got => Err(Mismatch::new(
            format!("return value of {name}"),
            format!("{w}"),
            format!("{got}"),
        )),
        _ => Ok(()),
    }
}

fn step<T: Tree>(real: &mut Real<T>, model: &mut ModelState, op: &PtOp) -> Result<(), Mismatch> {
    let want = model.apply(op);
    match op {
        PtOp::Insert { c, t } => {
            let got = real.live[*c as usize].insert(t);
            check_ret("insert (true iff the tuple was new)", want, got)?;
        }
        PtOp::Remove { c, t } => {
            let got = real.live[*c as usize].remove(t);
            check_ret("remove (true iff the tuple was present)", want, got)?;
        }
        PtOp::Contains { c, t } => {
            let got = real.live[*c as usize].contains(t);
            check_ret("contains", want, got)?;
        }
        PtOp::Get { c, k } => {
            let sm = sub_model(model.live(*c), *k);
            match real.live[*c as usize].get(*k) {
                None => {
                    if !sm.is_empty() {
                        return Err(Mismatch::new(
                            format!("get({k})"),
                            format!("Some(container with {} tuples)", sm.len()),
                            "None",
                        ));
                    }
                }
                Some(sub) => check_tree::<T::Sub>(sub, &sm, &format_args!("live[{c}].get({k})"))?,
            }
        }
        PtOp::Clear { c } => real.live[*c as usize].clear(),
        PtOp::Union { a, b, dst } => {
            let r = real.live[*a as usize].union(&real.live[*b as usize]);
            real.live[*dst as usize] = r;
        }
        PtOp::Difference { a, b, dst } => {
            let r = real.live[*a as usize].difference(&real.live[*b as usize]);
            real.live[*dst as usize] = r;
        }
        PtOp::InsertRestriction { c, k, d } => {
            let r = real.donors[*d as usize].clone();
            real.live[*c as usize].insert_restriction(*k, r);
        }
        PtOp::RemoveRestriction { c, k, d } => {
            let (live, donors) = (&mut real.live, &real.donors);
            live[*c as usize].remove_restriction(*k, &donors[*d as usize]);
        }
        PtOp::Mapped { src, dst, maps } => {
            let m = build_maps(maps);
            let r = real.live[*src as usize].mapped(&m);
            real.live[*dst as usize] = r;
        }
        PtOp::Clone { src, dst } => {
            let r = real.live[*src as usize].clone();
            real.live[*dst as usize] = r;
        }
        PtOp::DonorInsert { d, t } => {
            let got = real.donors[*d as usize].insert(t);
            check_ret("insert (true iff the tuple was new)", want, got)?;
        }
        PtOp::DonorRemove { d, t } => {
            let got = real.donors[*d as usize].remove(t);
            check_ret("remove (true iff the tuple was present)", want, got)?;
        }
        PtOp::DonorClear { d } => real.donors[*d as usize].clear(),
        PtOp::DonorFromGet { d, c, k } => {
            let r = match real.live[*c as usize].get(*k) {
                Some(sub) => sub.clone(),
                None => <T::Sub as Tree>::new(),
            };
            real.donors[*d as usize] = r;
        }
        PtOp::DonorMapped { src, dst, maps } => {
            let m = build_maps(maps);
            let r = real.donors[*src as usize].mapped(&m);
            real.donors[*dst as usize] = r;
        }
        PtOp::DonorClone { src, dst } => {
            let r = real.donors[*src as usize].clone();
            real.donors[*dst as usize] = r;
        }
    }
    // Every container (the ones the op touched and, for clone independence, all others).
    for (i, t) in real.live.iter().enumerate() {
        check_tree::<T>(t, &model.sets[i], &format_args!("live[{i}]"))?;
    }
    if T::ARITY >= 1 {
        for (j, t) in real.donors.iter().enumerate() {
            check_tree::<T::Sub>(t, &model.sets[LIVE + j], &format_args!("donor[{j}]"))?;
        }
    }
    Ok(())
}

fn run_generic<T: Tree>(case: &PtCase) -> (PtStats, Result<(), Mismatch>) {
    let mut real: Real<T> = Real {
        live: (0..LIVE).map(|_| T::new()).collect(),
        donors: (0..DONORS).map(|_| <T::Sub as Tree>::new()).collect(),
    };
    let mut model = ModelState::new(T::ARITY);
    let at = std::cell::Cell::new(0usize);
    let r = catch_panic(|| -> Result<(), Mismatch> {
        for (i, op) in case.ops.iter().enumerate() {
            at.set(i);
            step::<T>(&mut real, &mut model, op)?;
        }
        Ok(())
    });
    let r = match r {
        Ok(r) => r,
        Err(panic) => Err(Mismatch::new(
            "operation must not panic on inputs satisfying its preconditions",
            "no panic",
            format!("panic: {panic}"),
        )),
    };
    let r = r.map_err(|m| {
        let i = at.get();
        m.at(i, case.ops.get(i).map(|o| o.text()).unwrap_or_default())
    });
    (model.stats, r)
}

/// Execute a (validated) concrete case on the real containers and the model.
pub fn run_pt(case: &PtCase) -> (PtStats, Result<(), Mismatch>) {
    match case.arity {
        0 => run_generic::<PrefixTree0>(case),
        1 => run_generic::<PrefixTree1>(case),
        2 => run_generic::<PrefixTree2>(case),
        3 => run_generic::<PrefixTree3>(case),
        4 => run_generic::<PrefixTree4>(case),
        5 => run_generic::<PrefixTree5>(case),
        6 => run_generic::<PrefixTree6>(case),
        7 => run_generic::<PrefixTree7>(case),
        8 => run_generic::<PrefixTree8>(case),
        9 => run_generic::<PrefixTree9>(case),
        n => (
            PtStats::default(),
            Err(Mismatch::new("arity in 0..=9", "0..=9", format!("{n}"))),
        ),
    }
}

/// The oracle entry point shared by proptest, replay and libFuzzer.
pub fn check_pt(case: &PtCase) -> Result<(), String> {
    case.validate().map_err(|e| format!("malformed case: {e}"))?;
    run_pt(case).1.map_err(|m| m.to_string())
}

// ---------------------------------------------------------------------------------------------
// Generator-level operations and their resolution
// ---------------------------------------------------------------------------------------------

/// Tuple selector. mode 0: `fresh`; 1: an existing tuple of the pool; 2: an existing tuple with
/// one column replaced from `fresh`; 3: an existing tuple with the suffix from a column on
/// replaced from `fresh`.  The pool is the model content of container `from` (`from >= 4`: the
/// container the op acts on).
#[derive(Clone, Debug, PartialEq, Eq)]
pub struct TSel {
    pub mode: u8,
    pub from: u8,
    pub idx: u16,
    pub col: u16,
    pub fresh: [u8; 9],
}

/// Key selector. mode 0: `fresh`; otherwise the first column of an existing tuple of `from`.
#[derive(Clone, Debug, PartialEq, Eq)]
pub struct KSel {
    pub mode: u8,
    pub from: u8,
    pub idx: u16,
    pub fresh: u8,
}

/// One column of a `mapped` call. mode 0: no map; 1: total map `x -> img[x]`; 2: partial map
/// defined where `def[x]`.
#[derive(Clone, Debug, PartialEq, Eq)]
pub struct MapSel {
    pub mode: u8,
    pub img: [u8; 6],
    pub def: [bool; 6],
}

#[derive(Clone, Debug, PartialEq, Eq)]
pub enum PtGen {
    Insert { c: u8, t: TSel },
    Remove { c: u8, t: TSel },
    Contains { c: u8, t: TSel },
    Get { c: u8, k: KSel },
    Clear { c: u8 },
    Union { a: u8, b: u8, dst: u8 },
    Difference { a: u8, b: u8, dst: u8 },
    InsertRestriction { c: u8, k: KSel, d: u8 },
    RemoveRestriction { c: u8, k: KSel, d: u8 },
    Mapped { src: u8, dst: u8, maps: Vec<MapSel> },
    Clone { src: u8, dst: u8 },
    DonorInsert { d: u8, t: TSel },
    DonorRemove { d: u8, t: TSel },
    DonorClear { d: u8 },
    DonorFromGet { d: u8, c: u8, k: KSel },
    DonorMapped { src: u8, dst: u8, maps: Vec<MapSel> },
    DonorClone { src: u8, dst: u8 },
    /// `n` inserts of the selected tuple with one column (chosen by `col`) set to `vals[0..n]`:
    /// expands to several concrete `insert` ops that share all other columns
    InsertBurst { c: u8, t: TSel, n: u8, col: u16, vals: [u8; 6] },
    DonorInsertBurst { d: u8, t: TSel, n: u8, col: u16, vals: [u8; 6] },
    /// The pattern of the generated caller (`recompute_model_indices`): `all = own.clone();
    /// dom_set = all.get(dom).clone(); mapped = dom_set.mapped(..); own.remove_restriction(cod,
    /// &mapped); all.insert_restriction(cod, mapped)`; expands to up to five concrete ops
    /// (excluded kinds are left out).
    ModelStep { own: u8, all: u8, d: u8, dom: KSel, cod: KSel, maps: Vec<MapSel> },
}

pub const GEN_KINDS: usize = 20;
pub const GEN_KIND_NAMES: [&str; GEN_KINDS] = [
    "insert",
    "remove",
    "contains",
    "get",
    "clear",
    "union",
    "difference",
    "insert_restriction",
    "remove_restriction",
    "mapped",
    "clone",
    "donor_insert",
    "donor_remove",
    "donor_clear",
    "donor_from_get",
    "donor_mapped",
    "donor_clone",
    "insert_burst",
    "donor_insert_burst",
    "model_step",
];

/// Generator kinds (0..17 numbered like `PtOp::kind`, 17/18 the bursts) that exist at `arity` and
/// are not excluded.
pub fn enabled_kinds(arity: usize, excl: &Exclusions) -> Vec<usize> {
    let mut v = Vec::new();
    for k in 0..GEN_KINDS {
        let needs_prefix = matches!(k, 3 | 7 | 8 | 11..=16 | 18 | 19);
        if needs_prefix && arity == 0 {
            continue;
        }
        let name = GEN_KIND_NAMES[k];
        let excluded = match name {
            "remove_restriction" => excl.has("remove_restriction"),
            "insert_restriction" => excl.has("insert_restriction"),
            "mapped" | "donor_mapped" => excl.has("mapped"),
            _ => false,
        };
        if !excluded {
            v.push(k);
        }
    }
    v
}

/// Relative frequencies of the generator kinds (index = kind).
pub const KIND_WEIGHTS: [u32; GEN_KINDS] = [8, 7, 1, 1, 1, 4, 4, 4, 4, 2, 4, 3, 1, 1, 3, 1, 1, 5, 2, 3];
/// Results of union / difference / mapped preferably go to the high slots, so that the relatives
/// in the low slots stay alive.
pub const DST_BIAS: [u8; 10] = [3, 3, 3, 3, 2, 2, 2, 1, 1, 0];

/// Slots are chosen with a bias towards the low ones so that relatives (clones, restrictions)
/// meet again in later operations: value = SLOT_BIAS_x[i] for a uniform index i.
pub const LIVE_BIAS: [u8; 10] = [0, 0, 0, 0, 1, 1, 1, 2, 2, 3];
pub const DONOR_BIAS: [u8; 3] = [0, 0, 1];

fn fresh_tuple(fresh: &[u8; 9], n: usize) -> Vec<u32> {
    fresh[..n].iter().map(|x| (*x as u32) % UNIVERSE).collect()
}

fn resolve_tsel(s: &TSel, n: usize, pool: &[Vec<u32>]) -> Vec<u32> {
    let fresh = fresh_tuple(&s.fresh, n);
    if s.mode == 0 || pool.is_empty() || n == 0 {
        return fresh;
    }
    let mut t = pool[sel(s.idx, pool.len())].clone();
    debug_assert_eq!(t.len(), n);
    match s.mode {
        1 => {}
        2 => {
            let c = sel(s.col, n);
            t[c] = fresh[c];
        }
        _ => {
            let c = sel(s.col, n);
            t[c..n].copy_from_slice(&fresh[c..n]);
        }
    }
    t
}

fn resolve_ksel(s: &KSel, st: &ModelState, own: u8) -> u32 {
    let from = if (s.from as usize) < LIVE { s.from } else { own };
    let keys = first_cols(st.live(from));
    if s.mode == 0 || keys.is_empty() {
        (s.fresh as u32) % UNIVERSE
    } else {
        keys[sel(s.idx, keys.len())]
    }
}

fn resolve_maps(maps: &[MapSel], n: usize, excl: &Exclusions) -> Vec<ColMap> {
    (0..n)
        .map(|i| {
            let m = &maps[i];
            match m.mode {
                0 => None,
                mode => {
                    let mut pairs = Vec::new();
                    for x in 0..UNIVERSE as usize {
                        if mode == 1 || m.def[x] {
                            pairs.push((x as u32, (m.img[x] as u32) % UNIVERSE));
                        } else if excl.has("mapped_partial") {
                            pairs.push((x as u32, x as u32));
                        }
                    }
                    Some(pairs)
                }
            }
        })
        .collect()
}

/// Resolve generator ops into a concrete case by running the model.  Excluded behaviours are
/// dropped here (e.g. an `insert_restriction` whose donor is empty at that point).
pub fn resolve(arity: usize, gens: &[PtGen], excl: &Exclusions) -> PtCase {
    resolve_capped(arity, gens, excl, usize::MAX)
}

fn burst(base: Vec<u32>, n: u8, col: u16, vals: &[u8; 6]) -> Vec<Vec<u32>> {
    if base.is_empty() {
        return vec![base];
    }
    let c = sel(col, base.len());
    (0..(n as usize).clamp(1, 6))
        .map(|j| {
            let mut t = base.clone();
            t[c] = (vals[j] as u32) % UNIVERSE;
            t
        })
        .collect()
}

/// Like `resolve`, with at most `max_ops` concrete ops (bursts expand to several).
pub fn resolve_capped(arity: usize, gens: &[PtGen], excl: &Exclusions, max_ops: usize) -> PtCase {
    let n = arity;
    let mut st = ModelState::new(arity);
    let mut ops = Vec::with_capacity(gens.len());
    let enabled = enabled_kinds(arity, excl);
    for g in gens {
        let live_pool = |st: &ModelState, s: &TSel, own: u8| -> Vec<Vec<u32>> {
            let from = if (s.from as usize) < LIVE { s.from } else { own };
            st.live(from).iter().cloned().collect()
        };
        // pool of (n-1)-tuples: tuples of a live container without their first column, or the
        // tuples of the donor itself
        let donor_pool = |st: &ModelState, s: &TSel, own: u8| -> Vec<Vec<u32>> {
            if (s.from as usize) < LIVE {
                let set: BTreeSet<Vec<u32>> =
                    st.live(s.from).iter().map(|t| t[1..].to_vec()).collect();
                set.into_iter().collect()
            } else {
                st.donor(own).iter().cloned().collect()
            }
        };
        match g {
            PtGen::InsertBurst { c, t, n: cnt, col, vals } => {
                let base = resolve_tsel(t, n, &live_pool(&st, t, *c));
                for t in burst(base, *cnt, *col, vals) {
                    if ops.len() < max_ops {
                        let op = PtOp::Insert { c: *c, t };
                        st.apply(&op);
                        ops.push(op);
                    }
                }
                continue;
            }
            PtGen::ModelStep { own, all, d, dom, cod, maps } => {
                if n == 0 {
                    continue;
                }
                let push = |st: &mut ModelState, ops: &mut Vec<PtOp>, op: PtOp| {
                    if ops.len() >= max_ops || !enabled.contains(&op.kind()) {
                        return;
                    }
                    if let PtOp::InsertRestriction { d, .. } = &op {
                        if excl.has("empty_restriction_insert") && st.donor(*d).is_empty() {
                            return;
                        }
                    }
                    st.apply(&op);
                    ops.push(op);
                };
                push(&mut st, &mut ops, PtOp::Clone { src: *own, dst: *all });
                let k_dom = resolve_ksel(dom, &st, *all);
                push(&mut st, &mut ops, PtOp::DonorFromGet { d: *d, c: *all, k: k_dom });
                if maps.iter().take(n - 1).any(|m| m.mode != 0) {
                    let maps = resolve_maps(maps, n - 1, excl);
                    push(&mut st, &mut ops, PtOp::DonorMapped { src: *d, dst: *d, maps });
                }
                let k_cod = resolve_ksel(cod, &st, *own);
                push(&mut st, &mut ops, PtOp::RemoveRestriction { c: *own, k: k_cod, d: *d });
                push(&mut st, &mut ops, PtOp::InsertRestriction { c: *all, k: k_cod, d: *d });
                continue;
            }
            PtGen::DonorInsertBurst { d, t, n: cnt, col, vals } => {
                let base = resolve_tsel(t, n.saturating_sub(1), &donor_pool(&st, t, *d));
                for t in burst(base, *cnt, *col, vals) {
                    if ops.len() < max_ops && n >= 1 {
                        let op = PtOp::DonorInsert { d: *d, t };
                        st.apply(&op);
                        ops.push(op);
                    }
                }
                continue;
            }
            _ => {}
        }
        if ops.len() >= max_ops {
            break;
        }
        let op = match g {
            PtGen::InsertBurst { .. } | PtGen::DonorInsertBurst { .. } | PtGen::ModelStep { .. } => {
                unreachable!()
            }
            PtGen::Insert { c, t } => PtOp::Insert {
                c: *c,
                t: resolve_tsel(t, n, &live_pool(&st, t, *c)),
            },
            PtGen::Remove { c, t } => PtOp::Remove {
                c: *c,
                t: resolve_tsel(t, n, &live_pool(&st, t, *c)),
            },
            PtGen::Contains { c, t } => PtOp::Contains {
                c: *c,
                t: resolve_tsel(t, n, &live_pool(&st, t, *c)),
            },
            PtGen::Get { c, k } => PtOp::Get {
                c: *c,
                k: resolve_ksel(k, &st, *c),
            },
            PtGen::Clear { c } => PtOp::Clear { c: *c },
            PtGen::Union { a, b, dst } => PtOp::Union {
                a: *a,
                b: *b,
                dst: *dst,
            },
            PtGen::Difference { a, b, dst } => PtOp::Difference {
                a: *a,
                b: *b,
                dst: *dst,
            },
            PtGen::InsertRestriction { c, k, d } => PtOp::InsertRestriction {
                c: *c,
                k: resolve_ksel(k, &st, *c),
                d: *d,
            },
            PtGen::RemoveRestriction { c, k, d } => PtOp::RemoveRestriction {
                c: *c,
                k: resolve_ksel(k, &st, *c),
                d: *d,
            },
            PtGen::Mapped { src, dst, maps } => PtOp::Mapped {
                src: *src,
                dst: *dst,
                maps: resolve_maps(maps, n, excl),
            },
            PtGen::Clone { src, dst } => PtOp::Clone {
                src: *src,
                dst: *dst,
            },
            PtGen::DonorInsert { d, t } => PtOp::DonorInsert {
                d: *d,
                t: resolve_tsel(t, n.saturating_sub(1), &donor_pool(&st, t, *d)),
            },
            PtGen::DonorRemove { d, t } => PtOp::DonorRemove {
                d: *d,
                t: resolve_tsel(t, n.saturating_sub(1), &donor_pool(&st, t, *d)),
            },
            PtGen::DonorClear { d } => PtOp::DonorClear { d: *d },
            PtGen::DonorFromGet { d, c, k } => PtOp::DonorFromGet {
                d: *d,
                c: *c,
                k: resolve_ksel(k, &st, *c),
            },
            PtGen::DonorMapped { src, dst, maps } => PtOp::DonorMapped {
                src: *src,
                dst: *dst,
                maps: resolve_maps(maps, n.saturating_sub(1), excl),
            },
            PtGen::DonorClone { src, dst } => PtOp::DonorClone {
                src: *src,
                dst: *dst,
            },
        };
        if !enabled.contains(&op.kind()) {
            continue;
        }
        if let PtOp::InsertRestriction { d, .. } = &op {
            if excl.has("empty_restriction_insert") && st.donor(*d).is_empty() {
                continue;
            }
        }
        st.apply(&op);
        ops.push(op);
    }
    PtCase {
        arity: arity as u8,
        ops,
    }
}

/// True iff the concrete case uses a behaviour listed in `excl` (used to keep minimisation from
/// drifting into an excluded, already known failure).
pub fn uses_excluded(case: &PtCase, excl: &Exclusions) -> bool {
    if excl.names.is_empty() {
        return false;
    }
    let enabled = enabled_kinds(case.arity as usize, excl);
    let mut st = ModelState::new(case.arity as usize);
    for op in &case.ops {
        if !enabled.contains(&op.kind()) {
            return true;
        }
        if let PtOp::InsertRestriction { d, .. } = op {
            if excl.has("empty_restriction_insert") && st.donor(*d).is_empty() {
                return true;
            }
        }
        if excl.has("mapped_partial") {
            if let PtOp::Mapped { maps, .. } | PtOp::DonorMapped { maps, .. } = op {
                for col in maps.iter().flatten() {
                    if col.len() < UNIVERSE as usize {
                        return true;
                    }
                }
            }
        }
        st.apply(op);
    }
    false
}

// ---------------------------------------------------------------------------------------------
// Byte codec for libFuzzer (decode) and corpus seeds (encode)
// ---------------------------------------------------------------------------------------------

pub mod codec {
    use super::*;
    use crate::util::wire::*;
    use arbitrary::Unstructured;

    pub const MAX_FUZZ_OPS: usize = 64;

    fn get_tsel(u: &mut Unstructured<'_>) -> TSel {
        let mode = get_below(u, 4);
        let from = get_below(u, 8);
        let idx = get_u16(u);
        let col = get_u16(u);
        let mut fresh = [0u8; 9];
        // two columns per byte would be denser, one per byte keeps mutations local
        for f in fresh.iter_mut() {
            *f = get_below(u, UNIVERSE as u8);
        }
        TSel {
            mode,
            from,
            idx,
            col,
            fresh,
        }
    }
    fn put_tsel(out: &mut Vec<u8>, s: &TSel) {
        put_u8(out, s.mode);
        put_u8(out, s.from);
        put_u16(out, s.idx);
        put_u16(out, s.col);
        for f in s.fresh.iter() {
            put_u8(out, *f);
        }
    }
    fn get_vals(u: &mut Unstructured<'_>) -> [u8; 6] {
        let mut v = [0u8; 6];
        for x in v.iter_mut() {
            *x = get_below(u, UNIVERSE as u8);
        }
        v
    }
    fn put_live(out: &mut Vec<u8>, c: u8) {
        put_u8(out, LIVE_BIAS.iter().position(|x| *x == c).unwrap_or(0) as u8);
    }
    fn put_dst(out: &mut Vec<u8>, c: u8) {
        put_u8(out, DST_BIAS.iter().position(|x| *x == c).unwrap_or(0) as u8);
    }
    fn put_donor(out: &mut Vec<u8>, d: u8) {
        put_u8(out, DONOR_BIAS.iter().position(|x| *x == d).unwrap_or(0) as u8);
    }
    fn get_ksel(u: &mut Unstructured<'_>) -> KSel {
        KSel {
            mode: get_below(u, 2),
            from: get_below(u, 8),
            idx: get_u16(u),
            fresh: get_below(u, UNIVERSE as u8),
        }
    }
    fn put_ksel(out: &mut Vec<u8>, s: &KSel) {
        put_u8(out, s.mode);
        put_u8(out, s.from);
        put_u16(out, s.idx);
        put_u8(out, s.fresh);
    }
    fn get_maps(u: &mut Unstructured<'_>, n: usize) -> Vec<MapSel> {
        (0..n)
            .map(|_| {
                let mode = get_below(u, 3);
                let mut img = [0u8; 6];
                let mut def = [false; 6];
                if mode != 0 {
                    for x in 0..6 {
                        let b = get_u8(u);
                        img[x] = (b & 0x0f) % UNIVERSE as u8;
                        def[x] = b & 0x80 == 0;
                    }
                }
                MapSel { mode, img, def }
            })
            .collect()
    }
    fn put_maps(out: &mut Vec<u8>, maps: &[MapSel], n: usize) {
        for m in maps.iter().take(n) {
            put_u8(out, m.mode);
            if m.mode != 0 {
                for x in 0..6 {
                    put_u8(out, (m.img[x] & 0x0f) | if m.def[x] { 0 } else { 0x80 });
                }
            }
        }
    }

    /// bytes -> (arity, generator ops).  Total: every byte string decodes.
    pub fn decode(data: &[u8], excl: &Exclusions) -> (usize, Vec<PtGen>) {
        let mut u = Unstructured::new(data);
        let arity = get_below(&mut u, 10) as usize;
        let kinds = enabled_kinds(arity, excl);
        let mut ops = Vec::new();
        while !u.is_empty() && ops.len() < MAX_FUZZ_OPS {
            let kind = kinds[get_below(&mut u, kinds.len() as u8) as usize];
            let l = |u: &mut Unstructured<'_>| LIVE_BIAS[get_below(u, LIVE_BIAS.len() as u8) as usize];
            let d = |u: &mut Unstructured<'_>| DONOR_BIAS[get_below(u, DONOR_BIAS.len() as u8) as usize];
            let ld = |u: &mut Unstructured<'_>| DST_BIAS[get_below(u, DST_BIAS.len() as u8) as usize];
            let op = match kind {
                0 => PtGen::Insert {
                    c: l(&mut u),
                    t: get_tsel(&mut u),
                },
                1 => PtGen::Remove {
                    c: l(&mut u),
                    t: get_tsel(&mut u),
                },
                2 => PtGen::Contains {
                    c: l(&mut u),
                    t: get_tsel(&mut u),
                },
                3 => PtGen::Get {
                    c: l(&mut u),
                    k: get_ksel(&mut u),
                },
                4 => PtGen::Clear { c: l(&mut u) },
                5 => PtGen::Union {
                    a: l(&mut u),
                    b: l(&mut u),
                    dst: ld(&mut u),
                },
                6 => PtGen::Difference {
                    a: l(&mut u),
                    b: l(&mut u),
                    dst: ld(&mut u),
                },
                7 => PtGen::InsertRestriction {
                    c: l(&mut u),
                    k: get_ksel(&mut u),
                    d: d(&mut u),
                },
                8 => PtGen::RemoveRestriction {
                    c: l(&mut u),
                    k: get_ksel(&mut u),
                    d: d(&mut u),
                },
                9 => PtGen::Mapped {
                    src: l(&mut u),
                    dst: ld(&mut u),
                    maps: get_maps(&mut u, arity),
                },
                10 => PtGen::Clone {
                    src: l(&mut u),
                    dst: l(&mut u),
                },
                11 => PtGen::DonorInsert {
                    d: d(&mut u),
                    t: get_tsel(&mut u),
                },
                12 => PtGen::DonorRemove {
                    d: d(&mut u),
                    t: get_tsel(&mut u),
                },
                13 => PtGen::DonorClear { d: d(&mut u) },
                14 => PtGen::DonorFromGet {
                    d: d(&mut u),
                    c: l(&mut u),
                    k: get_ksel(&mut u),
                },
                15 => PtGen::DonorMapped {
                    src: d(&mut u),
                    dst: d(&mut u),
                    maps: get_maps(&mut u, arity.saturating_sub(1)),
                },
                16 => PtGen::DonorClone {
                    src: d(&mut u),
                    dst: d(&mut u),
                },
                17 => PtGen::InsertBurst {
                    c: l(&mut u),
                    t: get_tsel(&mut u),
                    n: 2 + get_below(&mut u, 5),
                    col: get_u16(&mut u),
                    vals: get_vals(&mut u),
                },
                18 => PtGen::DonorInsertBurst {
                    d: d(&mut u),
                    t: get_tsel(&mut u),
                    n: 2 + get_below(&mut u, 5),
                    col: get_u16(&mut u),
                    vals: get_vals(&mut u),
                },
                _ => PtGen::ModelStep {
                    own: l(&mut u),
                    all: l(&mut u),
                    d: d(&mut u),
                    dom: get_ksel(&mut u),
                    cod: get_ksel(&mut u),
                    maps: get_maps(&mut u, arity.saturating_sub(1)),
                },
            };
            ops.push(op);
        }
        (arity, ops)
    }

    /// Mirror of `decode` (ops of kinds that are not enabled are skipped).
    pub fn encode(arity: usize, gens: &[PtGen], excl: &Exclusions) -> Vec<u8> {
        let kinds = enabled_kinds(arity, excl);
        let mut out = vec![arity as u8];
        for g in gens.iter().take(MAX_FUZZ_OPS) {
            let kind = gen_kind(g);
            let Some(pos) = kinds.iter().position(|k| *k == kind) else {
                continue;
            };
            put_u8(&mut out, pos as u8);
            match g {
                PtGen::Insert { c, t } | PtGen::Remove { c, t } | PtGen::Contains { c, t } => {
                    put_live(&mut out, *c);
                    put_tsel(&mut out, t);
                }
                PtGen::Get { c, k } => {
                    put_live(&mut out, *c);
                    put_ksel(&mut out, k);
                }
                PtGen::Clear { c } => put_live(&mut out, *c),
                PtGen::Union { a, b, dst } | PtGen::Difference { a, b, dst } => {
                    put_live(&mut out, *a);
                    put_live(&mut out, *b);
                    put_dst(&mut out, *dst);
                }
                PtGen::InsertRestriction { c, k, d } | PtGen::RemoveRestriction { c, k, d } => {
                    put_live(&mut out, *c);
                    put_ksel(&mut out, k);
                    put_donor(&mut out, *d);
                }
                PtGen::Mapped { src, dst, maps } => {
                    put_live(&mut out, *src);
                    put_dst(&mut out, *dst);
                    put_maps(&mut out, maps, arity);
                }
                PtGen::Clone { src, dst } => {
                    put_live(&mut out, *src);
                    put_live(&mut out, *dst);
                }
                PtGen::DonorClone { src, dst } => {
                    put_donor(&mut out, *src);
                    put_donor(&mut out, *dst);
                }
                PtGen::DonorInsert { d, t } | PtGen::DonorRemove { d, t } => {
                    put_donor(&mut out, *d);
                    put_tsel(&mut out, t);
                }
                PtGen::DonorClear { d } => put_donor(&mut out, *d),
                PtGen::DonorFromGet { d, c, k } => {
                    put_donor(&mut out, *d);
                    put_live(&mut out, *c);
                    put_ksel(&mut out, k);
                }
                PtGen::DonorMapped { src, dst, maps } => {
                    put_donor(&mut out, *src);
                    put_donor(&mut out, *dst);
                    put_maps(&mut out, maps, arity.saturating_sub(1));
                }
                PtGen::InsertBurst { c, t, n, col, vals } => {
                    put_live(&mut out, *c);
                    put_tsel(&mut out, t);
                    put_u8(&mut out, n - 2);
                    put_u16(&mut out, *col);
                    for v in vals {
                        put_u8(&mut out, *v);
                    }
                }
                PtGen::DonorInsertBurst { d, t, n, col, vals } => {
                    put_donor(&mut out, *d);
                    put_tsel(&mut out, t);
                    put_u8(&mut out, n - 2);
                    put_u16(&mut out, *col);
                    for v in vals {
                        put_u8(&mut out, *v);
                    }
                }
                PtGen::ModelStep { own, all, d, dom, cod, maps } => {
                    put_live(&mut out, *own);
                    put_live(&mut out, *all);
                    put_donor(&mut out, *d);
                    put_ksel(&mut out, dom);
                    put_ksel(&mut out, cod);
                    put_maps(&mut out, maps, arity.saturating_sub(1));
                }
            }
        }
        out
    }

    pub fn gen_kind(g: &PtGen) -> usize {
        match g {
            PtGen::Insert { .. } => 0,
            PtGen::Remove { .. } => 1,
            PtGen::Contains { .. } => 2,
            PtGen::Get { .. } => 3,
            PtGen::Clear { .. } => 4,
            PtGen::Union { .. } => 5,
            PtGen::Difference { .. } => 6,
            PtGen::InsertRestriction { .. } => 7,
            PtGen::RemoveRestriction { .. } => 8,
            PtGen::Mapped { .. } => 9,
            PtGen::Clone { .. } => 10,
            PtGen::DonorInsert { .. } => 11,
            PtGen::DonorRemove { .. } => 12,
            PtGen::DonorClear { .. } => 13,
            PtGen::DonorFromGet { .. } => 14,
            PtGen::DonorMapped { .. } => 15,
            PtGen::DonorClone { .. } => 16,
            PtGen::InsertBurst { .. } => 17,
            PtGen::DonorInsertBurst { .. } => 18,
            PtGen::ModelStep { .. } => 19,
        }
    }

    /// Decode + resolve: what the `pt_ops` fuzz target and the artifact converter run.
    pub fn case_from_bytes(data: &[u8], excl: &Exclusions) -> PtCase {
        let (arity, gens) = decode(data, excl);
        resolve_capped(arity, &gens, excl, MAX_FUZZ_OPS)
    }
}

// ---------------------------------------------------------------------------------------------
// proptest strategies
// ---------------------------------------------------------------------------------------------

#[cfg(feature = "gen")]
pub mod strat {
    use super::*;
    use proptest::prelude::*;
    use proptest::strategy::Union;

    fn tsel() -> impl Strategy<Value = TSel> {
        (
            prop_oneof![3 => Just(0u8), 3 => Just(1u8), 2 => Just(2u8), 2 => Just(3u8)],
            0u8..8,
            any::<u16>(),
            any::<u16>(),
            proptest::array::uniform9(0u8..UNIVERSE as u8),
        )
            .prop_map(|(mode, from, idx, col, fresh)| TSel {
                mode,
                from,
                idx,
                col,
                fresh,
            })
    }
    fn ksel() -> impl Strategy<Value = KSel> {
        (0u8..2, 0u8..8, any::<u16>(), 0u8..UNIVERSE as u8).prop_map(|(mode, from, idx, fresh)| KSel {
            mode,
            from,
            idx,
            fresh,
        })
    }
    fn mapsel() -> impl Strategy<Value = MapSel> {
        (
            prop_oneof![4 => Just(0u8), 2 => Just(1u8), 2 => Just(2u8)],
            proptest::array::uniform6(0u8..UNIVERSE as u8),
            proptest::array::uniform6(proptest::bool::weighted(0.75)),
        )
            .prop_map(|(mode, img, def)| MapSel { mode, img, def })
    }
    fn maps(n: usize) -> impl Strategy<Value = Vec<MapSel>> {
        proptest::collection::vec(mapsel(), n..=n)
    }

    pub fn gen_op(arity: usize, excl: &Exclusions) -> BoxedStrategy<PtGen> {
        let l = || (0..LIVE_BIAS.len()).prop_map(|i| LIVE_BIAS[i]);
        let d = || (0..DONOR_BIAS.len()).prop_map(|i| DONOR_BIAS[i]);
        let ld = || (0..DST_BIAS.len()).prop_map(|i| DST_BIAS[i]);
        let vals = || proptest::array::uniform6(0u8..UNIVERSE as u8);
        let mut alts: Vec<(u32, BoxedStrategy<PtGen>)> = Vec::new();
        for k in enabled_kinds(arity, excl) {
            let s: BoxedStrategy<PtGen> = match k {
                0 => (l(), tsel()).prop_map(|(c, t)| PtGen::Insert { c, t }).boxed(),
                1 => (l(), tsel()).prop_map(|(c, t)| PtGen::Remove { c, t }).boxed(),
                2 => (l(), tsel()).prop_map(|(c, t)| PtGen::Contains { c, t }).boxed(),
                3 => (l(), ksel()).prop_map(|(c, k)| PtGen::Get { c, k }).boxed(),
                4 => l().prop_map(|c| PtGen::Clear { c }).boxed(),
                5 => (l(), l(), ld())
                    .prop_map(|(a, b, dst)| PtGen::Union { a, b, dst })
                    .boxed(),
                6 => (l(), l(), ld())
                    .prop_map(|(a, b, dst)| PtGen::Difference { a, b, dst })
                    .boxed(),
                7 => (l(), ksel(), d())
                    .prop_map(|(c, k, d)| PtGen::InsertRestriction { c, k, d })
                    .boxed(),
                8 => (l(), ksel(), d())
                    .prop_map(|(c, k, d)| PtGen::RemoveRestriction { c, k, d })
                    .boxed(),
                9 => (l(), ld(), maps(arity))
                    .prop_map(|(src, dst, maps)| PtGen::Mapped { src, dst, maps })
                    .boxed(),
                10 => (l(), l()).prop_map(|(src, dst)| PtGen::Clone { src, dst }).boxed(),
                11 => (d(), tsel()).prop_map(|(d, t)| PtGen::DonorInsert { d, t }).boxed(),
                12 => (d(), tsel()).prop_map(|(d, t)| PtGen::DonorRemove { d, t }).boxed(),
                13 => d().prop_map(|d| PtGen::DonorClear { d }).boxed(),
                14 => (d(), l(), ksel())
                    .prop_map(|(d, c, k)| PtGen::DonorFromGet { d, c, k })
                    .boxed(),
                15 => (d(), d(), maps(arity.saturating_sub(1)))
                    .prop_map(|(src, dst, maps)| PtGen::DonorMapped { src, dst, maps })
                    .boxed(),
                16 => (d(), d())
                    .prop_map(|(src, dst)| PtGen::DonorClone { src, dst })
                    .boxed(),
                17 => (l(), tsel(), 2u8..=6, any::<u16>(), vals())
                    .prop_map(|(c, t, n, col, vals)| PtGen::InsertBurst { c, t, n, col, vals })
                    .boxed(),
                18 => (d(), tsel(), 2u8..=6, any::<u16>(), vals())
                    .prop_map(|(d, t, n, col, vals)| PtGen::DonorInsertBurst { d, t, n, col, vals })
                    .boxed(),
                _ => (l(), l(), d(), ksel(), ksel(), maps(arity.saturating_sub(1)))
                    .prop_map(|(own, all, d, dom, cod, maps)| PtGen::ModelStep {
                        own,
                        all,
                        d,
                        dom,
                        cod,
                        maps,
                    })
                    .boxed(),
            };
            alts.push((KIND_WEIGHTS[k], s));
        }
        Union::new_weighted(alts).boxed()
    }

    pub fn gen_ops(arity: usize, max_ops: usize, excl: &Exclusions) -> BoxedStrategy<Vec<PtGen>> {
        // a quarter of the sequences of any length (keeps short cases and full shrinking), the
        // rest from the upper half of the length range
        let lo = (max_ops / 2).max(1);
        prop_oneof![
            1 => proptest::collection::vec(gen_op(arity, excl), 1..=max_ops),
            3 => proptest::collection::vec(gen_op(arity, excl), lo..=max_ops),
        ]
        .boxed()
    }
}

#[cfg(test)]
mod tests {
    use super::*;

    #[test]
    fn model_and_real_agree_on_a_simple_sequence() {
        let case = PtCase {
            arity: 2,
            ops: vec![
                PtOp::Insert { c: 0, t: vec![1, 2] },
                PtOp::Insert { c: 0, t: vec![1, 3] },
                PtOp::Clone { src: 0, dst: 1 },
                PtOp::Remove { c: 1, t: vec![1, 2] },
                PtOp::Union { a: 0, b: 1, dst: 2 },
                PtOp::Difference { a: 0, b: 1, dst: 3 },
            ],
        };
        assert_eq!(check_pt(&case), Ok(()));
    }

    #[test]
    fn codec_roundtrip() {
        let excl = Exclusions::none();
        let gens = vec![
            PtGen::Insert {
                c: 1,
                t: TSel {
                    mode: 2,
                    from: 5,
                    idx: 777,
                    col: 40000,
                    fresh: [1, 2, 3, 4, 5, 0, 1, 2, 3],
                },
            },
            PtGen::Mapped {
                src: 0,
                dst: 3,
                maps: vec![
                    MapSel {
                        mode: 2,
                        img: [5, 4, 3, 2, 1, 0],
                        def: [true, false, true, true, false, true],
                    },
                    MapSel {
                        mode: 0,
                        img: [0; 6],
                        def: [false; 6],
                    },
                    MapSel {
                        mode: 1,
                        img: [1; 6],
                        def: [true; 6],
                    },
                ],
            },
            PtGen::DonorFromGet {
                d: 1,
                c: 2,
                k: KSel {
                    mode: 1,
                    from: 7,
                    idx: 65535,
                    fresh: 4,
                },
            },
        ];
        let bytes = codec::encode(3, &gens, &excl);
        let (arity, back) = codec::decode(&bytes, &excl);
        assert_eq!(arity, 3);
        assert_eq!(back, gens);
    }
}
