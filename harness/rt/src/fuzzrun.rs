//! Thorough tier only: build the cargo-fuzz targets, run one for a fixed number of executions and
//! convert crash artifacts into replay cases (same decoder, same oracle, in-process).
//!
//! Two builds of the same target are used:
//!  * `plain`  (`cargo fuzz build -s none`, debug assertions on): the main campaign, `-runs` split
//!    evenly over `WORKERS` independent libFuzzer processes with seeds s, s+1, ...; AddressSanitizer
//!    makes these allocation-heavy targets ~10x slower, which would put 2M runs out of reach;
//!  * `asan`   (default AddressSanitizer build): replays the union of the corpora the main campaign
//!    produced (`-runs=0`), i.e. every coverage-distinct input once under ASan.

use std::path::{Path, PathBuf};
use std::process::{Command, Stdio};

use serde_json::{json, Value};

use crate::campaign::{pt_minimize, wb_minimize, Found};
use crate::replay::CaseBody;
use crate::util::Exclusions;
use crate::{pt, topo, wb};

pub const FUZZ_TARGET_DIR: &str = "/verif/.cache/target-rt-fuzz";
pub const SCRATCH_DIR: &str = "/verif/.cache/scratch";
pub const DEFAULT_RUNS: u64 = 2_000_000;
pub const WORKERS: u64 = 8;

#[derive(Debug, Default)]
pub struct FuzzOutcome {
    pub target: String,
    pub built: bool,
    pub asan_built: bool,
    pub ran: bool,
    pub runs_requested: u64,
    pub runs_executed: u64,
    pub workers: Vec<Value>,
    pub asan_replay: Value,
    pub wall_s: f64,
    pub seeds: usize,
    pub corpus_files_after: usize,
    pub artifacts: Vec<String>,
    pub found: Vec<Found>,
    /// infrastructure problems (build failure, crash that does not reproduce in-process, ...)
    pub errors: Vec<String>,
    pub scratch: String,
}

impl FuzzOutcome {
    pub fn to_json(&self) -> Value {
        json!({
            "target": self.target,
            "built": self.built,
            "asan_build": self.asan_built,
            "ran": self.ran,
            "runs_requested": self.runs_requested,
            "runs_executed": self.runs_executed,
            "worker_processes": self.workers,
            "asan_corpus_replay": self.asan_replay,
            "wall_s": self.wall_s,
            "corpus_seeds": self.seeds,
            "corpus_files_after": self.corpus_files_after,
            "crash_artifacts": self.artifacts,
            "violations_from_artifacts": self.found.len(),
            "errors": self.errors,
            "scratch_dir": self.scratch,
            "flags": "-len_control=0 -max_len=512; main campaign without sanitizer (debug assertions on), final corpora replayed once under AddressSanitizer",
        })
    }
}

pub fn target_for(property: &str) -> Option<&'static str> {
    match property {
        "C08" => Some("pt_ops"),
        "C14" => Some("wb_ops"),
        "C18" => Some("toposort"),
        _ => None,
    }
}

fn harness_dir() -> PathBuf {
    match std::env::var("EQV_RT_HARNESS_DIR") {
        Ok(s) if !s.is_empty() => PathBuf::from(s),
        _ => PathBuf::from(env!("CARGO_MANIFEST_DIR")),
    }
}

fn fuzz_target_dir() -> PathBuf {
    match std::env::var("EQV_RT_FUZZ_TARGET_DIR") {
        Ok(s) if !s.is_empty() => PathBuf::from(s),
        _ => PathBuf::from(FUZZ_TARGET_DIR),
    }
}

fn tail(s: &str, max: usize) -> String {
    if s.len() <= max {
        s.to_string()
    } else {
        let mut start = s.len() - max;
        while !s.is_char_boundary(start) {
            start += 1;
        }
        format!("...{}", &s[start..])
    }
}

/// `sanitizer`: "none" or "address".
pub fn build(target: &str, sanitizer: &str) -> Result<PathBuf, String> {
    let dir = harness_dir();
    let tdir = fuzz_target_dir().join(if sanitizer == "none" { "plain" } else { "asan" });
    let out = Command::new("cargo")
        .current_dir(&dir)
        .env("CARGO_NET_OFFLINE", "true")
        .args(["+nightly", "fuzz", "build", target, "-s", sanitizer, "--fuzz-dir"])
        .arg(dir.join("fuzz"))
        .arg("--target-dir")
        .arg(&tdir)
        .stdin(Stdio::null())
        .output()
        .map_err(|e| format!("cannot spawn `cargo +nightly fuzz build`: {e}"))?;
    if !out.status.success() {
        return Err(format!(
            "`cargo +nightly fuzz build {target} -s {sanitizer}` failed ({}): {}",
            out.status,
            tail(&String::from_utf8_lossy(&out.stderr), 2000)
        ));
    }
    let bin = tdir.join("x86_64-unknown-linux-gnu").join("release").join(target);
    if !bin.is_file() {
        return Err(format!("fuzz binary {} not found after build", bin.display()));
    }
    Ok(bin)
}

/// Decode an artifact with the target's decoder (the oracle is then run in-process).
pub fn case_of_artifact(target: &str, data: &[u8], excl: &Exclusions) -> Option<CaseBody> {
    match target {
        "pt_ops" => Some(CaseBody::Pt(pt::codec::case_from_bytes(data, excl))),
        "wb_ops" => Some(CaseBody::Wb(wb::codec::case_from_bytes(data))),
        "toposort" => Some(CaseBody::Topo(topo::codec::case_from_bytes(data))),
        _ => None,
    }
}

fn executed_units(log: &str) -> Option<u64> {
    log.lines()
        .find_map(|l| l.strip_prefix("stat::number_of_executed_units:"))
        .and_then(|v| v.trim().parse::<u64>().ok())
}

fn list_files(dir: &Path) -> Vec<PathBuf> {
    let mut v: Vec<PathBuf> = std::fs::read_dir(dir)
        .map(|r| r.filter_map(|e| e.ok()).map(|e| e.path()).filter(|p| p.is_file()).collect())
        .unwrap_or_default();
    v.sort();
    v
}

pub fn run(property: &str, seed: u64, excl: &Exclusions, seeds: Vec<Vec<u8>>) -> FuzzOutcome {
    let target = target_for(property).unwrap_or("");
    let runs = std::env::var("EQV_RT_FUZZ_RUNS")
        .ok()
        .and_then(|s| s.parse::<u64>().ok())
        .unwrap_or(DEFAULT_RUNS);
    let mut o = FuzzOutcome {
        target: target.to_string(),
        runs_requested: runs,
        asan_replay: Value::Null,
        ..Default::default()
    };
    let t0 = std::time::Instant::now();
    let asan_builder = {
        let target = target.to_string();
        std::thread::spawn(move || build(&target, "address"))
    };
    let bin = match build(target, "none") {
        Ok(b) => {
            o.built = true;
            b
        }
        Err(e) => {
            o.errors.push(e);
            let _ = asan_builder.join();
            o.wall_s = t0.elapsed().as_secs_f64();
            return o;
        }
    };
    let scratch = PathBuf::from(SCRATCH_DIR).join(format!("fuzz-{target}-seed{seed}"));
    o.scratch = scratch.display().to_string();
    let _ = std::fs::remove_dir_all(&scratch);
    o.seeds = seeds.len();
    let base_seed = if seed == 0 { 1 } else { seed % 0x7fff_0000 }.max(1);
    let excl_env = excl.list().join(",");

    // main campaign: WORKERS independent processes
    let mut children = Vec::new();
    for w in 0..WORKERS {
        let wdir = scratch.join(format!("w{w}"));
        let corpus = wdir.join("corpus");
        let artifacts = wdir.join("artifacts");
        for d in [&corpus, &artifacts] {
            if let Err(e) = std::fs::create_dir_all(d) {
                o.errors.push(format!("create {}: {e}", d.display()));
                return o;
            }
        }
        for (i, s) in seeds.iter().enumerate() {
            let _ = std::fs::write(corpus.join(format!("seed-{i:03}")), s);
        }
        let log_path = wdir.join("fuzz.log");
        let log_file = match std::fs::File::create(&log_path) {
            Ok(f) => f,
            Err(e) => {
                o.errors.push(format!("create {}: {e}", log_path.display()));
                return o;
            }
        };
        let wruns = runs / WORKERS + if w < runs % WORKERS { 1 } else { 0 };
        let wseed = base_seed + w;
        let mut cmd = Command::new(&bin);
        cmd.arg(&corpus)
            .arg(format!("-runs={wruns}"))
            .arg(format!("-seed={wseed}"))
            .arg("-len_control=0")
            .arg("-max_len=512")
            .arg("-print_final_stats=1")
            .arg(format!("-artifact_prefix={}/", artifacts.display()))
            .env("RUST_BACKTRACE", "0")
            .env("EQV_RT_EXCLUDE", &excl_env)
            .stdin(Stdio::null())
            .stdout(Stdio::null())
            .stderr(Stdio::from(log_file));
        match cmd.spawn() {
            Ok(c) => children.push((w, wruns, wseed, c, corpus, artifacts, log_path)),
            Err(e) => o.errors.push(format!("cannot run {}: {e}", bin.display())),
        }
    }
    let mut corpora: Vec<PathBuf> = Vec::new();
    let mut artifact_files: Vec<PathBuf> = Vec::new();
    for (w, wruns, wseed, mut child, corpus, artifacts, log_path) in children {
        let status = child.wait();
        o.ran = true;
        let log = std::fs::read_to_string(&log_path).unwrap_or_default();
        let executed = executed_units(&log);
        let code = status.as_ref().ok().and_then(|s| s.code());
        o.runs_executed += executed.unwrap_or(0);
        o.corpus_files_after += list_files(&corpus).len();
        let arts = list_files(&artifacts);
        o.workers.push(json!({
            "worker": w, "runs": wruns, "seed": wseed, "exit_code": code,
            "executed": executed, "log": log_path.display().to_string(),
            "artifacts": arts.len(),
        }));
        if code != Some(0) && arts.is_empty() {
            o.errors.push(format!(
                "fuzz worker {w} of {target} exited with {code:?} without an artifact; log tail: {}",
                tail(&log, 1200)
            ));
        }
        if code == Some(0) && executed.map(|r| r < wruns).unwrap_or(true) {
            o.errors.push(format!(
                "fuzz worker {w} of {target} executed {executed:?} of {wruns} requested runs"
            ));
        }
        artifact_files.extend(arts);
        corpora.push(corpus);
    }

    // ASan replay of the produced corpora
    match asan_builder.join() {
        Ok(Ok(asan_bin)) => {
            o.asan_built = true;
            let adir = scratch.join("asan");
            let artifacts = adir.join("artifacts");
            let _ = std::fs::create_dir_all(&artifacts);
            let log_path = adir.join("fuzz.log");
            if let Ok(log_file) = std::fs::File::create(&log_path) {
                let mut cmd = Command::new(&asan_bin);
                for c in &corpora {
                    cmd.arg(c);
                }
                let st = cmd
                    .arg("-runs=0")
                    .arg("-len_control=0")
                    .arg("-max_len=512")
                    .arg("-print_final_stats=1")
                    .arg(format!("-artifact_prefix={}/", artifacts.display()))
                    .env("ASAN_OPTIONS", "detect_odr_violation=0")
                    .env("RUST_BACKTRACE", "0")
                    .env("EQV_RT_EXCLUDE", &excl_env)
                    .stdin(Stdio::null())
                    .stdout(Stdio::null())
                    .stderr(Stdio::from(log_file))
                    .status();
                let log = std::fs::read_to_string(&log_path).unwrap_or_default();
                let code = st.as_ref().ok().and_then(|s| s.code());
                let arts = list_files(&artifacts);
                o.asan_replay = json!({
                    "exit_code": code,
                    "executed": executed_units(&log),
                    "artifacts": arts.len(),
                    "log": log_path.display().to_string(),
                });
                if code != Some(0) && arts.is_empty() {
                    o.errors.push(format!(
                        "ASan corpus replay of {target} exited with {code:?} without an artifact; log tail: {}",
                        tail(&log, 1200)
                    ));
                }
                artifact_files.extend(arts);
            }
        }
        Ok(Err(e)) => o.errors.push(format!("ASan build: {e}")),
        Err(_) => o.errors.push("ASan build thread panicked".into()),
    }

    for a in &artifact_files {
        o.artifacts.push(a.display().to_string());
        convert_artifact(target, a, excl, &mut o);
    }
    o.wall_s = t0.elapsed().as_secs_f64();
    o
}

fn convert_artifact(target: &str, path: &Path, excl: &Exclusions, o: &mut FuzzOutcome) {
    let data = match std::fs::read(path) {
        Ok(d) => d,
        Err(e) => {
            o.errors.push(format!("read {}: {e}", path.display()));
            return;
        }
    };
    let Some(case) = case_of_artifact(target, &data, excl) else {
        return;
    };
    let case = match case {
        CaseBody::Pt(c) => CaseBody::Pt(pt_minimize(&c, excl)),
        CaseBody::Wb(c) => CaseBody::Wb(wb_minimize(&c)),
        other => other,
    };
    match case.run() {
        Err(m) => {
            let name: String = path
                .file_name()
                .and_then(|n| n.to_str())
                .unwrap_or("artifact")
                .chars()
                .take(22)
                .collect();
            let worker = path
                .parent()
                .and_then(|p| p.parent())
                .and_then(|p| p.file_name())
                .and_then(|n| n.to_str())
                .unwrap_or("");
            // identical minimised cases from several workers are reported once
            if o.found.iter().any(|f| f.case == case) {
                return;
            }
            o.found.push(Found {
                case,
                mismatch: m,
                source: format!("libfuzzer:{target}:{}", path.display()),
                tag: format!("fuzz-{worker}-{name}"),
            });
        }
        Ok(()) => o.errors.push(format!(
            "artifact {} does not violate the oracle in-process (sanitizer finding, timeout or OOM?)",
            path.display()
        )),
    }
}
