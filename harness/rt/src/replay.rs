//! Replay files: self-contained JSON descriptions of one failing (or regression) case.

use std::path::{Path, PathBuf};

use serde::{Deserialize, Serialize};

use crate::pt::PtCase;
use crate::topo::TopoCase;
use crate::util::Mismatch;
use crate::wb::WbCase;

pub const FORMAT: &str = "eqv-rt-replay-1";

#[derive(Serialize, Deserialize, Clone, Debug, PartialEq, Eq)]
#[serde(tag = "kind", rename_all = "snake_case")]
pub enum CaseBody {
    /// C08: operation sequence on 4 live containers of arity N and 2 donors of arity N-1
    Pt(PtCase),
    /// C14: operation sequence on 4 maps and 4 sets
    Wb(WbCase),
    /// C18: a multigraph with partial morphisms and its new/old splits
    Topo(TopoCase),
}

impl CaseBody {
    pub fn property_id(&self) -> &'static str {
        match self {
            CaseBody::Pt(_) => "C08",
            CaseBody::Wb(_) => "C14",
            CaseBody::Topo(_) => "C18",
        }
    }
    pub fn validate(&self) -> Result<(), String> {
        match self {
            CaseBody::Pt(c) => c.validate(),
            CaseBody::Wb(c) => c.validate(),
            CaseBody::Topo(c) => c.validate(),
        }
    }
    /// Run the oracle on exactly this case (no generator involved).
    pub fn run(&self) -> Result<(), Mismatch> {
        match self {
            CaseBody::Pt(c) => crate::pt::run_pt(c).1,
            CaseBody::Wb(c) => crate::wb::run_wb(c).1,
            CaseBody::Topo(c) => crate::topo::run_topo(c).1,
        }
    }
    pub fn to_json(&self) -> serde_json::Value {
        serde_json::to_value(self).unwrap_or(serde_json::Value::Null)
    }
}

#[derive(Serialize, Deserialize, Clone, Debug)]
pub struct ReplayFile {
    pub format: String,
    pub property_id: String,
    pub seed: u64,
    #[serde(default)]
    pub tier: String,
    /// where the case came from: "proptest:<sub-campaign>", "exhaustive", "libfuzzer:<target>", ...
    #[serde(default)]
    pub source: String,
    pub case: CaseBody,
    #[serde(default)]
    pub expected: String,
    #[serde(default)]
    pub observed: String,
    #[serde(default)]
    pub failure: serde_json::Value,
    #[serde(default)]
    pub message: String,
    #[serde(default)]
    pub excluded: Vec<String>,
    /// informational only (C18: the six tables of every split written out)
    #[serde(default, skip_serializing_if = "serde_json::Value::is_null")]
    pub readable: serde_json::Value,
}

impl ReplayFile {
    pub fn new(
        case: CaseBody,
        m: &Mismatch,
        seed: u64,
        tier: &str,
        source: &str,
        excluded: Vec<String>,
    ) -> Self {
        let readable = match &case {
            CaseBody::Topo(c) => {
                let tabs: Vec<_> = c.splits.iter().map(|s| crate::topo::tables(c, s)).collect();
                serde_json::json!({
                    "note": "tables are (dom object, morphism) for dom_*, (morphism, cod object) for cod_*",
                    "tables_per_split": tabs,
                    "graph_has_directed_cycle": c.has_cycle(),
                })
            }
            _ => serde_json::Value::Null,
        };
        ReplayFile {
            format: FORMAT.to_string(),
            property_id: case.property_id().to_string(),
            seed,
            tier: tier.to_string(),
            source: source.to_string(),
            case,
            expected: m.expected.clone(),
            observed: m.observed.clone(),
            failure: m.to_json(),
            message: m.to_string(),
            excluded,
            readable,
        }
    }

    pub fn write(&self, path: &Path) -> Result<(), String> {
        if let Some(dir) = path.parent() {
            std::fs::create_dir_all(dir).map_err(|e| format!("create {}: {e}", dir.display()))?;
        }
        let value = serde_json::to_value(self).map_err(|e| e.to_string())?;
        let text = crate::util::pretty_json(&value);
        std::fs::write(path, text).map_err(|e| format!("write {}: {e}", path.display()))
    }

    pub fn read(path: &Path) -> Result<Self, String> {
        let text =
            std::fs::read_to_string(path).map_err(|e| format!("read {}: {e}", path.display()))?;
        let f: ReplayFile =
            serde_json::from_str(&text).map_err(|e| format!("parse {}: {e}", path.display()))?;
        if f.format != FORMAT {
            return Err(format!("{}: unknown format {:?}", path.display(), f.format));
        }
        if f.property_id != f.case.property_id() {
            return Err(format!(
                "{}: property_id {} does not match case kind ({})",
                path.display(),
                f.property_id,
                f.case.property_id()
            ));
        }
        f.case
            .validate()
            .map_err(|e| format!("{}: malformed case: {e}", path.display()))?;
        Ok(f)
    }
}

/// Base directory for evidence and replays (`/verif`, or `$EQV_RT_OUT` for scratch runs).
pub fn out_root() -> PathBuf {
    match std::env::var("EQV_RT_OUT") {
        Ok(s) if !s.is_empty() => PathBuf::from(s),
        _ => PathBuf::from("/verif"),
    }
}

pub fn absolute(p: &Path) -> PathBuf {
    std::fs::canonicalize(p).unwrap_or_else(|_| {
        if p.is_absolute() {
            p.to_path_buf()
        } else {
            std::env::current_dir().map(|d| d.join(p)).unwrap_or_else(|_| p.to_path_buf())
        }
    })
}

/// `<root>/replays/regress/<ID>-*.json`, sorted by name.
pub fn regress_files(id: &str) -> Result<Vec<PathBuf>, String> {
    let dir = out_root().join("replays").join("regress");
    let rd = match std::fs::read_dir(&dir) {
        Ok(rd) => rd,
        Err(e) if e.kind() == std::io::ErrorKind::NotFound => return Ok(vec![]),
        Err(e) => return Err(format!("read_dir {}: {e}", dir.display())),
    };
    let prefix = format!("{id}-");
    let mut v: Vec<PathBuf> = rd
        .filter_map(|e| e.ok())
        .map(|e| e.path())
        .filter(|p| {
            p.file_name()
                .and_then(|n| n.to_str())
                .map(|n| n.starts_with(&prefix) && n.ends_with(".json"))
                .unwrap_or(false)
        })
        .collect();
    v.sort();
    Ok(v)
}
