use std::path::{Path, PathBuf};
use std::process::ExitCode;
use std::time::Instant;

use serde_json::{json, Value};

use eqv_rt::campaign::{self, Found, Merged, Tier};
use eqv_rt::fuzzrun;
use eqv_rt::replay::{absolute, out_root, regress_files, ReplayFile};
use eqv_rt::util::{install_quiet_panic_hook, Exclusions};

const USAGE: &str = "usage:\n  eqv-rt check <C08|C14|C18> --tier <quick|thorough> --seed <u64>\n  eqv-rt replay <path-to-replay-json>\nenv: EQV_RT_EXCLUDE=<comma list> (C08 generator exclusions), EQV_RT_OUT=<dir> (default /verif),\n     EQV_RT_THREADS, EQV_RT_FUZZ_RUNS, EQV_RT_EXH_LEN";

fn infra(msg: impl AsRef<str>) -> ExitCode {
    eprintln!("eqv-rt: infrastructure problem: {}", msg.as_ref());
    ExitCode::from(2)
}

fn main() -> ExitCode {
    install_quiet_panic_hook();
    let args: Vec<String> = std::env::args().skip(1).collect();
    match args.first().map(|s| s.as_str()) {
        Some("check") => check(&args[1..]),
        Some("bench") => bench(args.get(1).map(|s| s.as_str()).unwrap_or("C08")),
        Some("replay") => match args.get(1) {
            Some(p) if args.len() == 2 => replay(Path::new(p)),
            _ => infra(USAGE),
        },
        _ => infra(USAGE),
    }
}

/// Hidden helper: time generation vs. oracle on a fixed batch of generated cases.
fn bench(id: &str) -> ExitCode {
    use eqv_rt::{pt, topo, wb};
    use proptest::strategy::{Strategy, ValueTree};
    let excl = Exclusions::parse("empty_restriction_insert,remove_restriction,mapped_partial").unwrap();
    let mut r = campaign::runner(1, 1);
    let n = 2000;
    match id {
        "C08" => {
            for arity in [0usize, 2, 5, 9] {
                let s = pt::strat::gen_ops(arity, 40, &excl);
                let t0 = Instant::now();
                let gens: Vec<_> = (0..n).map(|_| s.new_tree(&mut r).unwrap().current()).collect();
                let t1 = Instant::now();
                let cases: Vec<_> = gens.iter().map(|g| pt::resolve_capped(arity, g, &excl, 40)).collect();
                let t2 = Instant::now();
                let mut ops = 0;
                for c in &cases {
                    ops += c.ops.len();
                    let _ = pt::run_pt(c);
                }
                let t3 = Instant::now();
                println!(
                    "arity {arity}: generate {:.1}us/case, resolve {:.1}us/case, oracle {:.1}us/case ({:.2}us/op)",
                    (t1 - t0).as_secs_f64() * 1e6 / n as f64,
                    (t2 - t1).as_secs_f64() * 1e6 / n as f64,
                    (t3 - t2).as_secs_f64() * 1e6 / n as f64,
                    (t3 - t2).as_secs_f64() * 1e6 / ops as f64
                );
            }
        }
        "C14" => {
            let s = wb::strat::gen_ops(60);
            let t0 = Instant::now();
            let gens: Vec<_> = (0..n).map(|_| s.new_tree(&mut r).unwrap().current()).collect();
            let t1 = Instant::now();
            let cases: Vec<_> = gens.iter().map(|g| wb::resolve(64, g)).collect();
            let t2 = Instant::now();
            let mut ops = 0;
            for c in &cases {
                ops += c.ops.len();
                let _ = wb::run_wb(c);
            }
            let t3 = Instant::now();
            println!(
                "generate {:.1}us/case, resolve {:.1}us/case, oracle {:.1}us/case ({:.2}us/op)",
                (t1 - t0).as_secs_f64() * 1e6 / n as f64,
                (t2 - t1).as_secs_f64() * 1e6 / n as f64,
                (t3 - t2).as_secs_f64() * 1e6 / n as f64,
                (t3 - t2).as_secs_f64() * 1e6 / ops as f64
            );
        }
        _ => {
            let s = topo::strat::gen_case();
            let t0 = Instant::now();
            let gens: Vec<_> = (0..n).map(|_| s.new_tree(&mut r).unwrap().current()).collect();
            let t1 = Instant::now();
            for g in &gens {
                let _ = topo::run_topo(&topo::resolve(g));
            }
            let t2 = Instant::now();
            println!(
                "generate {:.1}us/case, oracle {:.1}us/case",
                (t1 - t0).as_secs_f64() * 1e6 / n as f64,
                (t2 - t1).as_secs_f64() * 1e6 / n as f64
            );
        }
    }
    ExitCode::SUCCESS
}

fn replay(path: &Path) -> ExitCode {
    let file = match ReplayFile::read(path) {
        Ok(f) => f,
        Err(e) => return infra(e),
    };
    match file.case.run() {
        Ok(()) => {
            println!("replay {}: property {} holds on this case", path.display(), file.property_id);
            ExitCode::SUCCESS
        }
        Err(m) => {
            println!("replay {}: {}", path.display(), m);
            println!("VIOLATION property={} replay={}", file.property_id, absolute(path).display());
            ExitCode::from(1)
        }
    }
}

struct Args {
    id: String,
    tier: Tier,
    seed: u64,
}

fn parse_check(args: &[String]) -> Result<Args, String> {
    let mut id = None;
    let mut tier = None;
    let mut seed = None;
    let mut i = 0;
    while i < args.len() {
        match args[i].as_str() {
            "--tier" => {
                i += 1;
                tier = Some(match args.get(i).map(|s| s.as_str()) {
                    Some("quick") => Tier::Quick,
                    Some("thorough") => Tier::Thorough,
                    other => return Err(format!("bad --tier {other:?}")),
                });
            }
            "--seed" => {
                i += 1;
                seed = Some(
                    args.get(i)
                        .and_then(|s| s.parse::<u64>().ok())
                        .ok_or_else(|| "bad --seed".to_string())?,
                );
            }
            s if id.is_none() && !s.starts_with('-') => id = Some(s.to_string()),
            other => return Err(format!("unexpected argument {other:?}")),
        }
        i += 1;
    }
    let id = id.ok_or("missing property id")?;
    if !["C08", "C14", "C18"].contains(&id.as_str()) {
        return Err(format!("unknown property {id:?} (this binary checks C08, C14, C18)"));
    }
    Ok(Args {
        id,
        tier: tier.ok_or("missing --tier")?,
        seed: seed.ok_or("missing --seed")?,
    })
}

fn write_found(f: &Found, a: &Args, excl: &Exclusions) -> Result<PathBuf, String> {
    let dir = out_root().join("replays").join("found");
    let path = dir.join(format!("{}-{}-seed{}-{}.json", a.id, a.tier.name(), a.seed, f.tag));
    let file = ReplayFile::new(
        f.case.clone(),
        &f.mismatch,
        a.seed,
        a.tier.name(),
        &f.source,
        excl.list(),
    );
    file.write(&path)?;
    Ok(absolute(&path))
}

fn check(rest: &[String]) -> ExitCode {
    let a = match parse_check(rest) {
        Ok(a) => a,
        Err(e) => return infra(format!("{e}\n{USAGE}")),
    };
    let excl = match Exclusions::from_env() {
        Ok(e) => e,
        Err(e) => return infra(e),
    };
    let t0 = Instant::now();
    let mut infra_errors: Vec<String> = Vec::new();
    let mut violation_lines: Vec<String> = Vec::new();
    let mut violations = 0u64;

    // 1. regression replays
    let mut regress_run = 0usize;
    match regress_files(&a.id) {
        Ok(files) => {
            for p in files {
                match ReplayFile::read(&p) {
                    Ok(f) => {
                        regress_run += 1;
                        if let Err(m) = f.case.run() {
                            violations += 1;
                            println!("regression replay {} fails: {}", p.display(), m);
                            violation_lines.push(format!(
                                "VIOLATION property={} replay={}",
                                a.id,
                                absolute(&p).display()
                            ));
                        }
                    }
                    Err(e) => infra_errors.push(e),
                }
            }
        }
        Err(e) => infra_errors.push(e),
    }

    // 2. generated search
    let (mut merged, rule): (Merged, &str) = match a.id.as_str() {
        "C08" => (campaign::run_c08(a.tier, a.seed, &excl), campaign::C08_RULE),
        "C14" => (campaign::run_c14(a.tier, a.seed), campaign::C14_RULE),
        _ => (campaign::run_c18(a.tier, a.seed), campaign::C18_RULE),
    };
    infra_errors.append(&mut merged.infra_errors);

    // 3. libFuzzer (thorough only)
    let mut fuzz_json = Value::Null;
    if a.tier == Tier::Thorough && std::env::var("EQV_RT_NO_FUZZ").is_err() {
        let target = fuzzrun::target_for(&a.id).unwrap_or("");
        let seeds = campaign::fuzz_seeds(target, a.seed, &excl);
        let mut o = fuzzrun::run(&a.id, a.seed, &excl, seeds);
        fuzz_json = o.to_json();
        merged.found.append(&mut o.found);
        infra_errors.append(&mut o.errors);
    }

    let mut found_json = Vec::new();
    let mut not_written = 0usize;
    for f in &merged.found {
        violations += 1;
        // replay files and VIOLATION lines for the first few findings only; the rest is counted
        if found_json.len() >= 10 {
            not_written += 1;
            continue;
        }
        match write_found(f, &a, &excl) {
            Ok(p) => {
                println!("violation [{}]: {}", f.source, f.mismatch);
                violation_lines.push(format!("VIOLATION property={} replay={}", a.id, p.display()));
                found_json.push(json!({"source": f.source, "replay": p.display().to_string(), "message": f.mismatch.to_string()}));
            }
            Err(e) => infra_errors.push(format!("cannot write replay: {e}")),
        }
    }

    if not_written > 0 {
        println!("{} further violation(s) without a replay file of their own", not_written);
    }
    let wall = t0.elapsed().as_secs_f64();
    let mut coverage = serde_json::Map::new();
    coverage.insert("evaluations".into(), json!(merged.evaluations));
    coverage.insert("distinct_nontrivial".into(), json!(merged.distinct_nontrivial));
    coverage.insert("rule".into(), json!(rule));
    coverage.insert("samples".into(), json!(merged.samples));
    coverage.insert("classes".into(), json!(merged.classes));
    coverage.insert("maxima".into(), json!(merged.maxima));
    coverage.insert("exhaustive".into(), json!(false));
    coverage.insert("sub_campaigns".into(), json!(merged.sub_campaigns));
    coverage.insert("regression_replays_run".into(), json!(regress_run));
    coverage.insert("violations_found".into(), json!(found_json));
    if !fuzz_json.is_null() {
        coverage.insert("fuzz".into(), fuzz_json);
    }
    if !infra_errors.is_empty() {
        coverage.insert("infrastructure_errors".into(), json!(infra_errors));
    }
    for (k, v) in merged.extra {
        coverage.insert(k, v);
    }
    let assumptions: Vec<&str> = match a.id.as_str() {
        "C08" => vec![
            "BTreeSet<Vec<u32>> with std's lexicographic Vec ordering is a correct model of a set of fixed-arity tuples",
            "get_mut / iter_restrictions_mut are outside the property (documented as able to break invariants) and never called",
            "column maps passed to mapped are functional and built with insert only (no empty restrictions), as the generated caller produces them",
            "keys are drawn from 0..6 (plus u32::MAX as an absent-key probe); larger keys behave alike",
            "proptest 1.11 ChaCha RNG with RngSeed::Fixed makes the run a function of code and seed",
        ],
        "C14" => vec![
            "std BTreeMap / BTreeSet are correct reference models",
            "verif_shape() (feature `verif` of eqlog-runtime) reports height, node count, balance and cached-size exactness truthfully",
            "the height bound ceil(2.41*log2(n+1))+1 is the logarithmic bound implied by the weight-balance parameter delta=3",
            "WBTreeMap::mapped is outside the property (its len is documented as an upper bound) and never called",
            "WBTreeSet exposes no shape introspection; sets are checked behaviourally only",
        ],
        _ => vec![
            "inputs are restricted to what the generated caller can produce: functional dom/cod tables, all mentioned objects are members, disjoint new/old parts, tables built with insert only",
            "the reference cycle test (iteratively deleting objects without incoming edges) is correct",
            "only the set of returned triples, not their sequence, must agree between splits",
        ],
    };
    let evidence = json!({
        "property_id": a.id,
        "tier": a.tier.name(),
        "seed": a.seed,
        "level": "exploration",
        "coverage": Value::Object(coverage),
        "assumptions": assumptions,
        "wall_s": wall,
        "violations": violations,
    });
    let ev_path = out_root().join("evidence").join(format!("{}.json", a.id));
    let write = std::fs::create_dir_all(ev_path.parent().unwrap())
        .map_err(|e| e.to_string())
        .and_then(|_| {
            std::fs::write(&ev_path, eqv_rt::util::pretty_json(&evidence)).map_err(|e| e.to_string())
        });
    if let Err(e) = write {
        infra_errors.push(format!("cannot write {}: {e}", ev_path.display()));
    }

    println!(
        "{} tier={} seed={}: {} evaluations, {} distinct non-trivial, {} violation(s), {} infrastructure error(s), {:.1}s; evidence {}",
        a.id,
        a.tier.name(),
        a.seed,
        merged.evaluations,
        merged.distinct_nontrivial,
        violations,
        infra_errors.len(),
        wall,
        ev_path.display()
    );
    for l in &violation_lines {
        println!("{l}");
    }
    for e in &infra_errors {
        eprintln!("eqv-rt: infrastructure problem: {e}");
    }
    if violations > 0 {
        ExitCode::from(1)
    } else if !infra_errors.is_empty() {
        ExitCode::from(2)
    } else {
        ExitCode::SUCCESS
    }
}
