//! C18: `morphism_toposort` against a validity predicate, on multigraphs with partial morphisms
//! and arbitrary new/old splits of the three input tables.

use std::collections::{BTreeMap, BTreeSet};

use eqlog_runtime::{morphism_toposort, PrefixTree1, PrefixTree2};
use serde::{Deserialize, Serialize};

use crate::util::{catch_panic, sel, Mismatch};

pub const MAX_OBJECTS: usize = 7;
pub const MAX_MORPHISMS: usize = 10;
pub const OBJ_ID_RANGE: u32 = 12;
pub const MOR_ID_RANGE: u32 = 16;
pub const SPLITS: usize = 3;

#[derive(Serialize, Deserialize, Clone, Debug, PartialEq, Eq, Hash)]
pub struct Mor {
    pub id: u32,
    pub dom: Option<u32>,
    pub cod: Option<u32>,
}

/// One new/old split: for every morphism whether its dom row / cod row is in the "new" table, and
/// for every object whether it is in the "new" object set.
#[derive(Serialize, Deserialize, Clone, Debug, PartialEq, Eq, Hash)]
pub struct Split {
    pub dom_new: Vec<bool>,
    pub cod_new: Vec<bool>,
    pub obj_new: Vec<bool>,
}

#[derive(Serialize, Deserialize, Clone, Debug, PartialEq, Eq, Hash)]
pub struct TopoCase {
    pub objects: Vec<u32>,
    pub morphisms: Vec<Mor>,
    pub splits: Vec<Split>,
}

impl TopoCase {
    /// The constraints the generated caller guarantees: distinct object / morphism ids (dom and
    /// cod are functions), every mentioned object is a member of the object set, split vectors
    /// have the right lengths.
    pub fn validate(&self) -> Result<(), String> {
        let objs: BTreeSet<u32> = self.objects.iter().copied().collect();
        if objs.len() != self.objects.len() {
            return Err("duplicate object id".into());
        }
        let mors: BTreeSet<u32> = self.morphisms.iter().map(|m| m.id).collect();
        if mors.len() != self.morphisms.len() {
            return Err("duplicate morphism id (dom/cod tables must be functional)".into());
        }
        for m in &self.morphisms {
            for o in [m.dom, m.cod].into_iter().flatten() {
                if !objs.contains(&o) {
                    return Err(format!("morphism {} mentions non-member object {o}", m.id));
                }
            }
        }
        if self.splits.is_empty() {
            return Err("no split".into());
        }
        for s in &self.splits {
            if s.dom_new.len() != self.morphisms.len()
                || s.cod_new.len() != self.morphisms.len()
                || s.obj_new.len() != self.objects.len()
            {
                return Err("split vector length mismatch".into());
            }
        }
        Ok(())
    }

    /// Morphisms with both ends, as (mor, dom, cod).
    pub fn full(&self) -> Vec<(u32, u32, u32)> {
        self.morphisms
            .iter()
            .filter_map(|m| Some((m.id, m.dom?, m.cod?)))
            .collect()
    }

    pub fn has_cycle(&self) -> bool {
        // Kahn on the objects over the morphisms with both ends, independent of the runtime's
        // implementation details: repeatedly delete objects without incoming edges.
        let full = self.full();
        let mut alive: BTreeSet<u32> = self.objects.iter().copied().collect();
        loop {
            let with_incoming: BTreeSet<u32> = full
                .iter()
                .filter(|(_, d, _)| alive.contains(d))
                .map(|(_, _, c)| *c)
                .collect();
            let removable: Vec<u32> = alive
                .iter()
                .copied()
                .filter(|o| !with_incoming.contains(o))
                .collect();
            if removable.is_empty() {
                break;
            }
            for o in removable {
                alive.remove(&o);
            }
        }
        // an object survives iff it is on or downstream of a directed cycle
        !alive.is_empty()
    }

    pub fn has_path_len2(&self) -> bool {
        let full = self.full();
        full.iter()
            .any(|(_, _, c)| full.iter().any(|(_, d2, _)| d2 == c))
    }
}

#[derive(Clone, Debug, Default)]
pub struct TopoStats {
    pub full_morphisms: usize,
    pub partial_morphisms: usize,
    pub cyclic: bool,
    pub self_loop: bool,
    pub parallel: bool,
    pub path_len2: bool,
    pub proper_split: bool,
    pub objects: usize,
}

impl TopoStats {
    pub fn nontrivial(&self) -> bool {
        self.full_morphisms >= 3 && (self.path_len2 || self.cyclic) && self.proper_split
    }
}

pub fn stats_of(case: &TopoCase) -> TopoStats {
    let full = case.full();
    let mut pairs = BTreeSet::new();
    let mut parallel = false;
    for (_, d, c) in &full {
        if !pairs.insert((*d, *c)) {
            parallel = true;
        }
    }
    let proper = |v: &Vec<bool>| v.iter().any(|b| *b) && v.iter().any(|b| !*b);
    // for dom / cod only rows that exist count
    let proper_rows = |v: &Vec<bool>, present: &dyn Fn(&Mor) -> bool| {
        let bits: Vec<bool> = case
            .morphisms
            .iter()
            .zip(v.iter())
            .filter(|(m, _)| present(m))
            .map(|(_, b)| *b)
            .collect();
        bits.iter().any(|b| *b) && bits.iter().any(|b| !*b)
    };
    TopoStats {
        full_morphisms: full.len(),
        partial_morphisms: case.morphisms.len() - full.len(),
        cyclic: case.has_cycle(),
        self_loop: full.iter().any(|(_, d, c)| d == c),
        parallel,
        path_len2: case.has_path_len2(),
        proper_split: case.splits.iter().any(|s| {
            proper(&s.obj_new)
                || proper_rows(&s.dom_new, &|m| m.dom.is_some())
                || proper_rows(&s.cod_new, &|m| m.cod.is_some())
        }),
        objects: case.objects.len(),
    }
}

/// The six tables of one split, written out (this is what goes into replay files).
#[derive(Serialize, Deserialize, Clone, Debug, PartialEq, Eq)]
pub struct Tables {
    /// (dom object, morphism)
    pub dom_new: Vec<(u32, u32)>,
    pub dom_old: Vec<(u32, u32)>,
    /// (morphism, cod object)
    pub cod_new: Vec<(u32, u32)>,
    pub cod_old: Vec<(u32, u32)>,
    pub obj_new: Vec<u32>,
    pub obj_old: Vec<u32>,
}

pub fn tables(case: &TopoCase, split: &Split) -> Tables {
    let mut t = Tables {
        dom_new: vec![],
        dom_old: vec![],
        cod_new: vec![],
        cod_old: vec![],
        obj_new: vec![],
        obj_old: vec![],
    };
    for (i, m) in case.morphisms.iter().enumerate() {
        if let Some(d) = m.dom {
            if split.dom_new[i] {
                t.dom_new.push((d, m.id));
            } else {
                t.dom_old.push((d, m.id));
            }
        }
        if let Some(c) = m.cod {
            if split.cod_new[i] {
                t.cod_new.push((m.id, c));
            } else {
                t.cod_old.push((m.id, c));
            }
        }
    }
    for (i, o) in case.objects.iter().enumerate() {
        if split.obj_new[i] {
            t.obj_new.push(*o);
        } else {
            t.obj_old.push(*o);
        }
    }
    t
}

fn pt2(rows: &[(u32, u32)]) -> PrefixTree2 {
    let mut t = PrefixTree2::new();
    for (a, b) in rows {
        t.insert([*a, *b]);
    }
    t
}
fn pt1(rows: &[u32]) -> PrefixTree1 {
    let mut t = PrefixTree1::new();
    for a in rows {
        t.insert([*a]);
    }
    t
}

/// Outcome of one call: `Ok(list of (mor, dom, cod))` or `Err(())` for `CycleDetected`.
pub type CallResult = Result<Vec<(u32, u32, u32)>, ()>;

pub fn call(t: &Tables) -> CallResult {
    let dom_new = pt2(&t.dom_new);
    let dom_old = pt2(&t.dom_old);
    let cod_new = pt2(&t.cod_new);
    let cod_old = pt2(&t.cod_old);
    let obj_new = pt1(&t.obj_new);
    let obj_old = pt1(&t.obj_old);
    // same argument order as the generated caller (eqlog/src/rust_gen/mod.rs:2196-2203)
    match morphism_toposort(&dom_new, &dom_old, &cod_new, &cod_old, &obj_new, &obj_old) {
        Ok(list) => Ok(list.iter().map(|m| (m.morph, m.dom, m.cod)).collect()),
        Err(_) => Err(()),
    }
}

/// The validity predicate for one result.
pub fn validate_result(case: &TopoCase, res: &CallResult, label: &str) -> Result<(), Mismatch> {
    let cyclic = case.has_cycle();
    match res {
        Err(()) => {
            if !cyclic {
                return Err(Mismatch::new(
                    format!("{label}: error iff the morphisms with both ends contain a directed cycle"),
                    "Ok(..) (graph is acyclic)",
                    "Err(CycleDetected)",
                ));
            }
            Ok(())
        }
        Ok(list) => {
            if cyclic {
                return Err(Mismatch::new(
                    format!("{label}: error iff the morphisms with both ends contain a directed cycle"),
                    "Err(CycleDetected) (graph has a directed cycle)",
                    format!("Ok({list:?})"),
                ));
            }
            let mut want: Vec<(u32, u32, u32)> = case.full();
            want.sort();
            let mut got = list.clone();
            got.sort();
            if got != want {
                return Err(Mismatch::new(
                    format!("{label}: exactly the morphisms with both ends, once each, with correct (mor, dom, cod)"),
                    format!("{want:?}"),
                    format!("{got:?} (returned order {list:?})"),
                ));
            }
            // a morphism into an object precedes every morphism out of that object
            let mut first_out: BTreeMap<u32, usize> = BTreeMap::new();
            for (i, (_, d, _)) in list.iter().enumerate() {
                first_out.entry(*d).or_insert(i);
            }
            for (i, (m, _, c)) in list.iter().enumerate() {
                if let Some(j) = first_out.get(c) {
                    if *j <= i {
                        return Err(Mismatch::new(
                            format!("{label}: every morphism into an object precedes every morphism out of it"),
                            format!("morphism {m} (into object {c}) before position {j}"),
                            format!("position {i} in {list:?}"),
                        ));
                    }
                }
            }
            Ok(())
        }
    }
}

pub fn run_topo(case: &TopoCase) -> (TopoStats, Result<(), Mismatch>) {
    let stats = stats_of(case);
    let mut first: Option<(CallResult, usize)> = None;
    for (i, split) in case.splits.iter().enumerate() {
        let t = tables(case, split);
        let op = format!(
            "morphism_toposort on split #{i} {}",
            serde_json::to_string(&t).unwrap_or_default()
        );
        let res = match catch_panic(|| call(&t)) {
            Ok(r) => r,
            Err(p) => {
                return (
                    stats,
                    Err(Mismatch::new(
                        "morphism_toposort must not panic on caller-producible tables",
                        "no panic",
                        format!("panic: {p}"),
                    )
                    .at(i, op)),
                )
            }
        };
        if let Err(m) = validate_result(case, &res, &format!("split #{i}")) {
            return (stats, Err(m.at(i, op)));
        }
        match &first {
            None => first = Some((res, i)),
            Some((r0, i0)) => {
                let same = match (r0, &res) {
                    (Err(()), Err(())) => true,
                    (Ok(a), Ok(b)) => {
                        let sa: BTreeSet<_> = a.iter().collect();
                        let sb: BTreeSet<_> = b.iter().collect();
                        sa == sb && a.len() == b.len()
                    }
                    _ => false,
                };
                if !same {
                    return (
                        stats,
                        Err(Mismatch::new(
                            format!("split independence: split #{i} vs split #{i0} (same Ok/Err, same set of (mor, dom, cod))"),
                            format!("{r0:?}"),
                            format!("{res:?}"),
                        )
                        .at(i, op)),
                    );
                }
            }
        }
    }
    (stats, Ok(()))
}

/// The oracle entry point shared by proptest, replay and libFuzzer.
pub fn check_topo(case: &TopoCase) -> Result<(), String> {
    case.validate().map_err(|e| format!("malformed case: {e}"))?;
    run_topo(case).1.map_err(|m| m.to_string())
}

// ---------------------------------------------------------------------------------------------
// Generator-level description
// ---------------------------------------------------------------------------------------------

/// mode 0: everything new, 1: everything old, 2: per-row bits.
#[derive(Clone, Debug, PartialEq, Eq)]
pub struct SplitSel {
    pub mode: u8,
    pub bits: u16,
}

#[derive(Clone, Debug, PartialEq, Eq)]
pub struct TopoGen {
    /// bitmask over object ids 0..12; the lowest (at most 7) set bits are the objects
    pub obj_mask: u16,
    /// bitmask over morphism ids 0..16; the i-th morphism gets the i-th set bit (or the next free
    /// id when the mask runs out)
    pub mor_mask: u16,
    /// (dom selector, cod selector); `None` = undefined
    pub ends: Vec<(Option<u16>, Option<u16>)>,
    /// orient every full morphism from the lower to the higher object index (self loops stay)
    pub dag_bias: bool,
    /// per split: selectors for dom, cod, obj tables
    pub splits: [[SplitSel; 3]; SPLITS],
}

pub fn resolve(g: &TopoGen) -> TopoCase {
    let objects: Vec<u32> = (0..OBJ_ID_RANGE)
        .filter(|i| g.obj_mask & (1 << i) != 0)
        .take(MAX_OBJECTS)
        .collect();
    let mut free_ids: Vec<u32> = (0..MOR_ID_RANGE).filter(|i| g.mor_mask & (1 << i) != 0).collect();
    for i in 0..MOR_ID_RANGE {
        if !free_ids.contains(&i) {
            free_ids.push(i);
        }
    }
    let mut morphisms = Vec::new();
    for (i, (d, c)) in g.ends.iter().take(MAX_MORPHISMS).enumerate() {
        let pick = |s: &Option<u16>| -> Option<usize> {
            match s {
                Some(x) if !objects.is_empty() => Some(sel(*x, objects.len())),
                _ => None,
            }
        };
        let (mut di, mut ci) = (pick(d), pick(c));
        if g.dag_bias {
            if let (Some(a), Some(b)) = (di, ci) {
                if a > b {
                    di = Some(b);
                    ci = Some(a);
                }
            }
        }
        morphisms.push(Mor {
            id: free_ids[i],
            dom: di.map(|x| objects[x]),
            cod: ci.map(|x| objects[x]),
        });
    }
    let bits = |s: &SplitSel, n: usize| -> Vec<bool> {
        (0..n)
            .map(|i| match s.mode {
                0 => true,
                1 => false,
                _ => s.bits & (1 << i) != 0,
            })
            .collect()
    };
    let splits = g
        .splits
        .iter()
        .map(|s| Split {
            dom_new: bits(&s[0], morphisms.len()),
            cod_new: bits(&s[1], morphisms.len()),
            obj_new: bits(&s[2], objects.len()),
        })
        .collect();
    TopoCase {
        objects,
        morphisms,
        splits,
    }
}

pub mod codec {
    use super::*;
    use crate::util::wire::*;
    use arbitrary::Unstructured;

    pub fn decode(data: &[u8]) -> TopoGen {
        let mut u = Unstructured::new(data);
        let obj_mask = get_u16(&mut u);
        let mor_mask = get_u16(&mut u);
        let dag_bias = get_below(&mut u, 2) == 1;
        let mut splits: Vec<[SplitSel; 3]> = Vec::new();
        for _ in 0..SPLITS {
            let mut one: Vec<SplitSel> = Vec::new();
            for _ in 0..3 {
                one.push(SplitSel {
                    mode: get_below(&mut u, 3),
                    bits: get_u16(&mut u),
                });
            }
            splits.push([one[0].clone(), one[1].clone(), one[2].clone()]);
        }
        let mut ends = Vec::new();
        while !u.is_empty() && ends.len() < MAX_MORPHISMS {
            let flags = get_u8(&mut u);
            let d = get_u16(&mut u);
            let c = get_u16(&mut u);
            // an end is undefined with probability 1/8
            let dom = if flags & 0x07 == 0 { None } else { Some(d) };
            let cod = if flags & 0x38 == 0 { None } else { Some(c) };
            ends.push((dom, cod));
        }
        TopoGen {
            obj_mask,
            mor_mask,
            ends,
            dag_bias,
            splits: [splits[0].clone(), splits[1].clone(), splits[2].clone()],
        }
    }

    pub fn encode(g: &TopoGen) -> Vec<u8> {
        let mut out = Vec::new();
        put_u16(&mut out, g.obj_mask);
        put_u16(&mut out, g.mor_mask);
        put_u8(&mut out, g.dag_bias as u8);
        for s in g.splits.iter() {
            for t in s.iter() {
                put_u8(&mut out, t.mode);
                put_u16(&mut out, t.bits);
            }
        }
        for (d, c) in g.ends.iter().take(MAX_MORPHISMS) {
            let flags = if d.is_some() { 0x01 } else { 0 } | if c.is_some() { 0x08 } else { 0 };
            put_u8(&mut out, flags);
            put_u16(&mut out, d.unwrap_or(0));
            put_u16(&mut out, c.unwrap_or(0));
        }
        out
    }

    pub fn case_from_bytes(data: &[u8]) -> TopoCase {
        resolve(&decode(data))
    }
}

#[cfg(feature = "gen")]
pub mod strat {
    use super::*;
    use proptest::prelude::*;

    fn split_sel() -> impl Strategy<Value = SplitSel> {
        (
            prop_oneof![1 => Just(0u8), 1 => Just(1u8), 4 => Just(2u8)],
            any::<u16>(),
        )
            .prop_map(|(mode, bits)| SplitSel { mode, bits })
    }
    fn one_split() -> impl Strategy<Value = [SplitSel; 3]> {
        (split_sel(), split_sel(), split_sel()).prop_map(|(a, b, c)| [a, b, c])
    }

    pub fn gen_case() -> BoxedStrategy<TopoGen> {
        (
            0u16..(1 << OBJ_ID_RANGE),
            any::<u16>(),
            proptest::collection::vec(
                (
                    proptest::option::weighted(0.88, any::<u16>()),
                    proptest::option::weighted(0.88, any::<u16>()),
                ),
                0..=MAX_MORPHISMS,
            ),
            any::<bool>(),
            (one_split(), one_split(), one_split()),
        )
            .prop_map(|(obj_mask, mor_mask, ends, dag_bias, (s0, s1, s2))| TopoGen {
                obj_mask,
                mor_mask,
                ends,
                dag_bias,
                splits: [s0, s1, s2],
            })
            .boxed()
    }
}

#[cfg(test)]
mod tests {
    use super::*;

    fn all_new(case: &TopoCase) -> Split {
        Split {
            dom_new: vec![true; case.morphisms.len()],
            cod_new: vec![true; case.morphisms.len()],
            obj_new: vec![true; case.objects.len()],
        }
    }

    #[test]
    fn chain_and_cycle() {
        let mut case = TopoCase {
            objects: vec![0, 1, 2],
            morphisms: vec![
                Mor { id: 5, dom: Some(1), cod: Some(2) },
                Mor { id: 6, dom: Some(0), cod: Some(1) },
                Mor { id: 7, dom: Some(0), cod: None },
            ],
            splits: vec![],
        };
        let s = all_new(&case);
        case.splits = vec![s.clone(), Split { dom_new: vec![false, true, false], ..s.clone() }];
        assert!(!case.has_cycle());
        assert_eq!(check_topo(&case), Ok(()));
        case.morphisms.push(Mor { id: 8, dom: Some(2), cod: Some(0) });
        let s = all_new(&case);
        case.splits = vec![s];
        assert!(case.has_cycle());
        assert_eq!(check_topo(&case), Ok(()));
    }

    #[test]
    fn codec_roundtrip() {
        let sel_ = |m, b| SplitSel { mode: m, bits: b };
        let g = TopoGen {
            obj_mask: 0x0a5f,
            mor_mask: 0xbeef,
            ends: vec![(Some(1), None), (Some(65535), Some(300)), (None, None)],
            dag_bias: true,
            splits: [
                [sel_(0, 1), sel_(1, 2), sel_(2, 3)],
                [sel_(2, 65535), sel_(2, 0), sel_(0, 9)],
                [sel_(1, 7), sel_(2, 1234), sel_(2, 4321)],
            ],
        };
        let back = codec::decode(&codec::encode(&g));
        // undefined ends decode with selector 0 dropped
        assert_eq!(back, g);
    }
}
