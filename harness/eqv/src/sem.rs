//! The semantic judge: replays a driver transcript against the reference state and applies the
//! oracles of C01, C02, C04, C05, C06 (selected by `Oracles`).

use crate::ast::*;
use crate::chase::{self, Bounds};
use crate::flat::FlatRule;
use crate::hist::{Cmd, CmdKind, Resp};
use crate::iso;
use crate::model::{Dump, Model};
use std::collections::{BTreeMap, BTreeSet};

#[derive(Clone, Copy, Debug, Default)]
pub struct Oracles {
    pub c01: bool,
    pub c02: bool,
    pub c02_ids: bool,
    pub c04: bool,
    pub c05: bool,
    pub c06: bool,
    pub c15: bool,
}

#[derive(Clone, Debug)]
pub struct Finding {
    pub prop: &'static str,
    pub msg: String,
    /// index of the command (script line) at which it was detected
    pub at: usize,
}

#[derive(Clone, Debug, Default)]
pub struct HistStats {
    pub closes: usize,
    pub judged_closes: usize,
    pub bounded: bool,
    pub chase_bounded: bool,
    pub merges: usize,
    pub created: usize,
    pub tuples_added: usize,
    pub derived_something: bool,
    pub equates_distinct: usize,
    pub define_hits: usize,
    pub define_misses: usize,
    pub clean_queries: usize,
    pub dirty_queries: usize,
    pub max_evals: usize,
    pub rows_rewritten_multi_index: usize,
    pub enum_elements_checked: usize,
    pub skipped_cmds: usize,
    pub observed_states: usize,
    pub anomalies: Vec<String>,
}

fn partition_eq(a: &dyn Fn(u32) -> u32, b: &dyn Fn(u32) -> u32, n: usize) -> Option<(u32, u32)> {
    // same partition of 0..n ?
    let mut ab: BTreeMap<u32, u32> = BTreeMap::new();
    let mut ba: BTreeMap<u32, u32> = BTreeMap::new();
    for i in 0..n as u32 {
        let (x, y) = (a(i), b(i));
        if let Some(&prev) = ab.get(&x) {
            if prev != y {
                return Some((i, x));
            }
        }
        if let Some(&prev) = ba.get(&y) {
            if prev != x {
                return Some((i, y));
            }
        }
        ab.insert(x, y);
        ba.insert(y, x);
    }
    None
}

/// Parsed name of an index field of the generated model struct.
#[derive(Debug, Clone)]
pub struct IndexField {
    pub field: String,
    /// Ok(rel) or Err(type) (type element sets are unary relations)
    pub target: Result<RelId, TypeId>,
    pub new: bool,
    /// for each column of the relation the representative column it must equal
    pub eqs: Vec<usize>,
    pub order: Vec<usize>,
    pub suffix: String,
}

pub fn parse_index_field(p: &Program, field: &str, arity: usize) -> Option<IndexField> {
    // <name>_(new|old)[_eqs_<pattern>]_order_<perm>[_own|_all]
    let (rest, suffix) = if let Some(r) = field.strip_suffix("_own") {
        (r, "_own")
    } else if let Some(r) = field.strip_suffix("_all") {
        (r, "_all")
    } else {
        (field, "")
    };
    let oi = rest.rfind("_order")?;
    let order: Vec<usize> = rest[oi + "_order".len()..].split('_').filter(|s| !s.is_empty()).map(|s| s.parse().ok()).collect::<Option<_>>()?;
    let head = &rest[..oi];
    let (head, eqs) = match head.rfind("_eqs_") {
        Some(ei) => {
            let e: Vec<usize> = head[ei + 5..].split('_').map(|s| s.parse().ok()).collect::<Option<_>>()?;
            (&head[..ei], Some(e))
        }
        None => (head, None),
    };
    let (name, new) = if let Some(n) = head.strip_suffix("_new") {
        (n, true)
    } else if let Some(n) = head.strip_suffix("_old") {
        (n, false)
    } else {
        return None;
    };
    let target = if let Some(r) = (0..p.rels.len()).find(|&r| snake(&p.rels[r].name) == name) {
        Ok(r)
    } else if let Some(t) = (0..p.types.len()).find(|&t| snake(&p.types[t].name) == name) {
        Err(t)
    } else {
        return None;
    };
    let ncols = match target {
        Ok(r) => p.rels[r].cols.len(),
        Err(_) => 1,
    };
    let eqs = eqs.unwrap_or_else(|| (0..ncols).collect());
    if eqs.len() != ncols || order.len() != arity {
        return None;
    }
    Some(IndexField { field: field.to_string(), target, new, eqs, order, suffix: suffix.to_string() })
}

impl IndexField {
    /// distinct representative columns, ascending
    fn reps(&self) -> Vec<usize> {
        let mut r: Vec<usize> = self.eqs.clone();
        r.sort();
        r.dedup();
        r
    }
    /// Expands a stored tuple to a full tuple of the relation.
    pub fn expand(&self, stored: &[u32]) -> Option<Vec<u32>> {
        let reps = self.reps();
        if stored.len() != reps.len() || self.order.len() != reps.len() {
            return None;
        }
        // stored[i] is the value of reduced column order[i]
        let mut reduced = vec![0u32; reps.len()];
        for (i, &o) in self.order.iter().enumerate() {
            if o >= reduced.len() {
                return None;
            }
            reduced[o] = stored[i];
        }
        Some(self.eqs.iter().map(|rep| reduced[reps.iter().position(|x| x == rep).unwrap()]).collect())
    }
    pub fn admits(&self, full: &[u32]) -> bool {
        self.eqs.iter().enumerate().all(|(c, &rep)| full[c] == full[rep])
    }
}

/// C04 (1) and (3): canonicity of the public iterators and agreement of all private copies.
/// `closed`: the dump was taken right after a close()/close_until() that reported a fixed point.
pub fn check_canonical(p: &Program, d: &Dump, closed: bool, stats: &mut HistStats) -> Result<(), String> {
    let nt = p.types.len();
    // root_ is idempotent
    for ty in 0..nt {
        let r = &d.roots[ty];
        for (i, &x) in r.iter().enumerate() {
            if x as usize >= r.len() || r[x as usize] != x {
                return Err(format!("root_{} is not idempotent at id {} (root {})", snake(&p.types[ty].name), i, x));
            }
        }
        let roots: BTreeSet<u32> = r.iter().copied().collect();
        let mut seen = BTreeSet::new();
        for &e in &d.iter_ty[ty] {
            if !seen.insert(e) {
                return Err(format!("iter_{} yields {} twice", snake(&p.types[ty].name), e));
            }
            if !roots.contains(&e) {
                return Err(format!("iter_{} yields non-canonical element {}", snake(&p.types[ty].name), e));
            }
        }
        if seen != roots {
            return Err(format!(
                "iter_{} does not yield exactly one representative per class: yields {:?}, classes {:?}",
                snake(&p.types[ty].name),
                seen,
                roots
            ));
        }
    }
    let mut public: Vec<BTreeSet<Vec<u32>>> = Vec::new();
    for r in 0..p.rels.len() {
        let mut seen = BTreeSet::new();
        for t in &d.iter_rel[r] {
            if t.len() != p.rels[r].cols.len() {
                return Err(format!("iter_{} yields a tuple of wrong arity", snake(&p.rels[r].name)));
            }
            for (x, &ty) in t.iter().zip(p.rels[r].cols.iter()) {
                if *x as usize >= d.roots[ty].len() || d.roots[ty][*x as usize] != *x {
                    return Err(format!("iter_{} yields non-canonical tuple {:?}", snake(&p.rels[r].name), t));
                }
            }
            if !seen.insert(t.clone()) {
                return Err(format!("iter_{} yields tuple {:?} twice", snake(&p.rels[r].name), t));
            }
        }
        public.push(seen);
    }
    if d.indices.is_empty() {
        return Ok(());
    }
    // private copies
    let mut by_target: BTreeMap<(bool, usize, bool), Vec<(IndexField, BTreeSet<Vec<u32>>)>> = BTreeMap::new();
    for (field, (arity, tuples, is_empty)) in &d.indices {
        let f = match parse_index_field(p, field, *arity) {
            Some(f) => f,
            None => {
                stats.anomalies.push(format!("cannot interpret index field {}", field));
                continue;
            }
        };
        if *is_empty != tuples.is_empty() {
            return Err(format!("{}.is_empty() = {} but it iterates {} tuples", field, is_empty, tuples.len()));
        }
        let mut set = BTreeSet::new();
        for (i, s) in tuples.iter().enumerate() {
            if i > 0 && tuples[i - 1] >= *s {
                return Err(format!("{} iterates out of order / with duplicates: {:?} then {:?}", field, tuples[i - 1], s));
            }
            match f.expand(s) {
                Some(full) => {
                    set.insert(full);
                }
                None => return Err(format!("{} holds a tuple of unexpected shape {:?}", field, s)),
            }
        }
        let key = match f.target {
            Ok(r) => (true, r, f.new),
            Err(t) => (false, t, f.new),
        };
        by_target.entry(key).or_default().push((f, set));
    }
    let targets: BTreeSet<(bool, usize)> = by_target.keys().map(|k| (k.0, k.1)).collect();
    for (is_rel, idx) in targets {
        let name = if is_rel { snake(&p.rels[idx].name) } else { snake(&p.types[idx].name) };
        let pubset: BTreeSet<Vec<u32>> = if is_rel {
            public[idx].clone()
        } else {
            d.iter_ty[idx].iter().map(|&e| vec![e]).collect()
        };
        let mut union: BTreeSet<Vec<u32>> = BTreeSet::new();
        let mut age_sets: Vec<BTreeSet<Vec<u32>>> = Vec::new();
        for new in [true, false] {
            let copies = match by_target.get(&(is_rel, idx, new)) {
                Some(c) => c,
                None => {
                    age_sets.push(BTreeSet::new());
                    continue;
                }
            };
            // the reference set for this age: the union of the non-diagonal copies (they must all agree)
            let full_copies: Vec<&(IndexField, BTreeSet<Vec<u32>>)> =
                copies.iter().filter(|(f, _)| f.eqs.iter().enumerate().all(|(c, &r)| c == r) && f.suffix != "_own").collect();
            let base: BTreeSet<Vec<u32>> = match full_copies.first() {
                Some((_, s)) => s.clone(),
                None => {
                    stats.anomalies.push(format!("no full index for {} ({})", name, if new { "new" } else { "old" }));
                    age_sets.push(BTreeSet::new());
                    continue;
                }
            };
            for (f, s) in copies {
                if f.suffix == "_own" {
                    if !s.is_subset(&base) {
                        return Err(format!("index copy {} holds tuples that {} lacks", f.field, full_copies[0].0.field));
                    }
                    continue;
                }
                let expect: BTreeSet<Vec<u32>> = base.iter().filter(|t| f.admits(t)).cloned().collect();
                if *s != expect {
                    let extra: Vec<&Vec<u32>> = s.difference(&expect).take(3).collect();
                    let missing: Vec<&Vec<u32>> = expect.difference(s).take(3).collect();
                    return Err(format!(
                        "index copy {} disagrees with {}: extra {:?}, missing {:?}",
                        f.field, full_copies[0].0.field, extra, missing
                    ));
                }
            }
            if closed && new && !base.is_empty() {
                return Err(format!("after a completed close the new-copy of {} still holds {:?}", name, base.iter().next().unwrap()));
            }
            union.extend(base.iter().cloned());
            age_sets.push(base);
        }
        if let Some(t) = age_sets[0].intersection(&age_sets[1]).next() {
            return Err(format!("tuple {:?} of {} is both new and old", t, name));
        }
        if union != pubset {
            let extra: Vec<&Vec<u32>> = union.difference(&pubset).take(3).collect();
            let missing: Vec<&Vec<u32>> = pubset.difference(&union).take(3).collect();
            return Err(format!("new ∪ old of {} differs from the public iterator: extra {:?}, missing {:?}", name, extra, missing));
        }
    }
    if closed {
        for ty in 0..nt {
            if !d.uprooted[ty].is_empty() {
                return Err(format!("uprooted list of {} not empty after a completed close", p.types[ty].name));
            }
        }
    }
    // element index: every current row is listed under each (root) element occurring in it
    for r in 0..p.rels.len() {
        let rn = snake(&p.rels[r].name);
        for (c, &ty) in p.rels[r].cols.iter().enumerate() {
            let field = format!("{}_{}_element_index", rn, snake(&p.types[ty].name));
            let rows = match d.element_indices.get(&field) {
                Some((_, rows)) => rows,
                None => {
                    stats.anomalies.push(format!("no element index {}", field));
                    continue;
                }
            };
            let listed: BTreeSet<(u32, &Vec<u32>)> = rows.iter().map(|(k, t)| (*k, t)).collect();
            for t in &public[r] {
                if !listed.contains(&(t[c], t)) {
                    return Err(format!("element index {} lacks row {:?} under element {}", field, t, t[c]));
                }
            }
        }
    }
    Ok(())
}

/// C04 (2): point queries (on all ids, roots or not) agree with the iterators.
pub fn check_cross_queries(p: &Program, d: &Dump, xq: &[String]) -> Result<usize, String> {
    let m = d.to_model(p);
    let mut checked = 0;
    for l in xq {
        let mut parts = l.split(" :");
        let head: Vec<&str> = parts.next().unwrap_or("").split_whitespace().collect();
        if head.len() < 2 || head[0] != "Q" || head.get(2) == Some(&"skipped") {
            continue;
        }
        let r: usize = head[1].parse().map_err(|_| "bad Q line")?;
        let cols = &p.rels[r].cols;
        let body = parts.next().unwrap_or("");
        if p.rels[r].is_func() {
            let n = cols.len() - 1;
            let mut got: BTreeMap<Vec<u32>, u32> = BTreeMap::new();
            for kv in body.split_whitespace() {
                let (k, v) = kv.split_once('=').ok_or("bad Q entry")?;
                got.insert(crate::model::parse_tuple(k), v.parse().map_err(|_| "bad Q value")?);
            }
            // expected: for every id combination, the unique graph tuple at the rooted args
            let lens: Vec<usize> = cols[..n].iter().map(|&t| m.len(t)).collect();
            for args in combos(&lens) {
                let vals = m.eval_all(p, r, &args);
                checked += 1;
                match (vals.len(), got.get(&args)) {
                    (0, None) => {}
                    (0, Some(v)) => return Err(format!("{}({:?}) evaluates to {} but the iterator has no such tuple", p.rels[r].name, args, v)),
                    (_, None) => return Err(format!("{}({:?}) evaluates to None but iter_{} yields a tuple for the equal arguments", p.rels[r].name, args, snake(&p.rels[r].name))),
                    (_, Some(v)) => {
                        if !vals.contains(&m.find(cols[n], *v)) {
                            return Err(format!("{}({:?}) = {} disagrees with the graph tuples {:?}", p.rels[r].name, args, v, vals));
                        }
                    }
                }
            }
        } else {
            let got: BTreeSet<Vec<u32>> = body.split_whitespace().map(crate::model::parse_tuple).collect();
            let lens: Vec<usize> = cols.iter().map(|&t| m.len(t)).collect();
            for args in combos(&lens) {
                checked += 1;
                let exp = m.holds(p, r, &args);
                if exp != got.contains(&args) {
                    return Err(format!(
                        "{}({:?}) = {} but the iterator {} the tuple of the equal canonical arguments",
                        p.rels[r].name,
                        args,
                        got.contains(&args),
                        if exp { "yields" } else { "does not yield" }
                    ));
                }
            }
        }
    }
    Ok(checked)
}

fn combos(lens: &[usize]) -> Vec<Vec<u32>> {
    let mut out = vec![vec![]];
    for &l in lens {
        let mut next = Vec::new();
        for pre in &out {
            for x in 0..l as u32 {
                let mut t = pre.clone();
                t.push(x);
                next.push(t);
            }
        }
        out = next;
    }
    out
}

/// C15 dynamic part: every id of an enum type destructures, and each case re-constructs it.
pub fn check_enum_cases(p: &Program, d: &Dump, lines: &[String], stats: &mut HistStats) -> Result<(), String> {
    let m = d.to_model(p);
    for l in lines {
        // cases <ty> <el> : c(args) c(args)
        let mut parts = l.split(" :");
        let head: Vec<&str> = parts.next().unwrap_or("").split_whitespace().collect();
        if head.len() != 3 || head[0] != "cases" {
            continue;
        }
        let ty: usize = head[1].parse().map_err(|_| "bad cases line")?;
        let el: u32 = head[2].parse().map_err(|_| "bad cases line")?;
        let body_all = parts.next().unwrap_or("");
        let (body, first) = match body_all.split_once(" | ") {
            Some((b, f)) => (b, Some(f.trim())),
            None => (body_all.strip_suffix(" |").unwrap_or(body_all), None),
        };
        match first {
            Some("PANIC") => return Err(format!("{}_case({}) panicked", snake(&p.types[ty].name), el)),
            Some(f) => {
                if !body.split_whitespace().any(|c| c == f) {
                    return Err(format!("{}_case({}) returned {} which is not among {}_cases({}) = [{}]", snake(&p.types[ty].name), el, f, snake(&p.types[ty].name), el, body.trim()));
                }
            }
            None => {}
        }
        let mut n = 0;
        for c in body.split_whitespace() {
            let (ctor, rest) = c.split_once('(').ok_or("bad case")?;
            let ctor: usize = ctor.parse().map_err(|_| "bad ctor")?;
            let args = crate::model::parse_tuple(rest.trim_end_matches(')'));
            n += 1;
            match m.eval(p, ctor, &args) {
                Some(v) if m.find(ty, v) == m.find(ty, el) => {}
                other => {
                    return Err(format!(
                        "{}_cases({}) returned {}({:?}) but that application evaluates to {:?}",
                        snake(&p.types[ty].name),
                        el,
                        p.rels[ctor].name,
                        args,
                        other
                    ))
                }
            }
        }
        stats.enum_elements_checked += 1;
        if n == 0 {
            return Err(format!("element {} of enum type {} has no constructor case", el, p.types[ty].name));
        }
        // completeness: every constructor row whose result is el must be listed
        let expected: usize = p.ctors(ty).iter().map(|&c| m.rels[c].iter().filter(|t| *t.last().unwrap() == m.find(ty, el)).count()).sum();
        if expected != n {
            return Err(format!("{}_cases({}) lists {} cases but the constructor graphs hold {}", snake(&p.types[ty].name), el, n, expected));
        }
    }
    Ok(())
}

pub struct Judge<'a> {
    pub p: &'a Program,
    pub rules: &'a [FlatRule],
    pub or: Oracles,
    pub bounds: Bounds,
    pub id_bound: Option<usize>,
    pub max_evals: usize,
}

impl<'a> Judge<'a> {
    /// Judges one history (commands from a `reset` up to the next one).
    pub fn judge(&self, cmds: &[Cmd], resps: &[Resp], base_index: usize) -> (Vec<Finding>, HistStats) {
        let p = self.p;
        let mut st = HistStats::default();
        let mut out: Vec<Finding> = Vec::new();
        let mut rm = Model::new(p);
        let mut dirty = false;
        let mut last_close_dump: Option<Dump> = None;
        let primary: &'static str = if self.or.c05 {
            "C05"
        } else if self.or.c01 {
            "C01"
        } else if self.or.c02 {
            "C02"
        } else if self.or.c04 {
            "C04"
        } else if self.or.c06 {
            "C06"
        } else {
            "C15"
        };
        macro_rules! fail {
            ($prop:expr, $at:expr, $($arg:tt)*) => {{
                out.push(Finding { prop: $prop, msg: format!($($arg)*), at: base_index + $at });
                return (out, st);
            }};
        }
        for (i, (cmd, resp)) in cmds.iter().zip(resps.iter()).enumerate() {
            if resp.is_poisoned() {
                break;
            }
            if let Some(m) = resp.panic_msg() {
                fail!(primary, i, "API call `{}` panicked: {}", cmd.text, m);
            }
            if resp.is_skip() {
                st.skipped_cmds += 1;
                continue;
            }
            if resp.lines.is_empty() {
                st.anomalies.push(format!("no response to `{}`", cmd.text));
                break;
            }
            let dump_after: Option<Dump> = match resp.last_dump(p) {
                Ok(d) => d,
                Err(e) => {
                    st.anomalies.push(format!("unparsable dump: {}", e));
                    break;
                }
            };
            let mut mutated = false;
            match &cmd.kind {
                CmdKind::Reset | CmdKind::Auto | CmdKind::Dump | CmdKind::Other => {}
                CmdKind::Xq => {
                    if let (true, Some(d)) = (self.or.c04, &last_close_dump) {
                        match check_cross_queries(p, d, &resp.lines) {
                            Ok(n) => st.clean_queries += n,
                            Err(e) => fail!("C04", i, "{}", e),
                        }
                    }
                }
                CmdKind::Cases(_) => {
                    if let (true, Some(d)) = (self.or.c15 || self.or.c04, &last_close_dump) {
                        if let Err(e) = check_enum_cases(p, d, &resp.lines, &mut st) {
                            fail!(if self.or.c15 { "C15" } else { "C04" }, i, "{}", e);
                        }
                    }
                }
                CmdKind::New(ty) => {
                    let (id, _) = match resp.id() {
                        Some(x) => x,
                        None => break,
                    };
                    if id as usize != rm.len(*ty) {
                        if self.or.c05 {
                            fail!("C05", i, "new_{} returned id {} but {} ids exist (expected the next dense id, distinct from all existing elements)", snake(&p.types[*ty].name), id, rm.len(*ty));
                        }
                        st.anomalies.push("id mismatch on new".into());
                        break;
                    }
                    rm.new_el(*ty);
                    mutated = true;
                }
                CmdKind::Insert(r) => {
                    let args = match resp.ok_args() {
                        Some(a) => a,
                        None => break,
                    };
                    rm.insert(p, *r, &args);
                    mutated = true;
                    if self.or.c05 && !dirty {
                        // the point query right after the insert
                        if let Some(q) = resp.lines.iter().find_map(|l| l.strip_prefix("q ")) {
                            if p.rels[*r].is_func() {
                                let n = args.len() - 1;
                                let vals = rm.eval_all(p, *r, &args[..n]);
                                let ok = q.parse::<u32>().ok().map(|v| vals.contains(&rm.find(p.rels[*r].cols[n], v))).unwrap_or(false);
                                if !ok {
                                    fail!("C05", i, "after insert_{}({:?}) the evaluation query returned {} (graph tuples at these arguments: {:?})", snake(&p.rels[*r].name), args, q, vals);
                                }
                            } else if q != "1" {
                                fail!("C05", i, "after insert_{}({:?}) the predicate query returned false", snake(&p.rels[*r].name), args);
                            }
                            st.clean_queries += 1;
                        }
                    }
                }
                CmdKind::Define(f) => {
                    let (id, args) = match resp.id() {
                        Some(x) => x,
                        None => break,
                    };
                    let res_ty = p.rels[*f].result_type().unwrap();
                    if !dirty {
                        let vals = rm.eval_all(p, *f, &args);
                        if vals.is_empty() {
                            st.define_misses += 1;
                            if id as usize != rm.len(res_ty) {
                                if self.or.c05 {
                                    fail!("C05", i, "define_{}({:?}) is undefined in the reference state but returned existing id {} instead of a fresh element", snake(&p.rels[*f].name), args, id);
                                }
                                break;
                            }
                            rm.new_el(res_ty);
                            let mut t = args.clone();
                            t.push(id);
                            rm.insert(p, *f, &t);
                        } else {
                            st.define_hits += 1;
                            let ok = (id as usize) < rm.len(res_ty) && vals.contains(&rm.find(res_ty, id));
                            if !ok {
                                if self.or.c05 {
                                    fail!("C05", i, "define_{}({:?}) is already defined (value {:?}) but returned {}", snake(&p.rels[*f].name), args, vals, id);
                                }
                                // keep the reference in step with the ids the implementation allocated
                                if id as usize == rm.len(res_ty) {
                                    rm.new_el(res_ty);
                                    let mut t = args.clone();
                                    t.push(id);
                                    rm.insert(p, *f, &t);
                                } else {
                                    break;
                                }
                            }
                        }
                    } else if id as usize == rm.len(res_ty) {
                        rm.new_el(res_ty);
                        let mut t = args.clone();
                        t.push(id);
                        rm.insert(p, *f, &t);
                    } else if id as usize > rm.len(res_ty) {
                        if self.or.c05 {
                            fail!("C05", i, "define_{} returned id {} beyond the next dense id {}", snake(&p.rels[*f].name), id, rm.len(res_ty));
                        }
                        break;
                    }
                    mutated = true;
                }
                CmdKind::Equate(ty) => {
                    let a = match resp.ok_args() {
                        Some(a) if a.len() == 2 => a,
                        _ => break,
                    };
                    if rm.union(*ty, a[0], a[1]) {
                        st.equates_distinct += 1;
                    }
                    dirty = true;
                    mutated = true;
                }
                CmdKind::Close | CmdKind::CloseSteps(_) => {
                    st.closes += 1;
                    let (ret, evals, _after) = match resp.cu() {
                        Some(x) => x,
                        None => break,
                    };
                    st.max_evals = st.max_evals.max(evals);
                    let full = matches!(cmd.kind, CmdKind::Close);
                    let d = match &dump_after {
                        Some(d) => d,
                        None => {
                            st.anomalies.push("no dump after close".into());
                            break;
                        }
                    };
                    let classes_before: Vec<usize> = (0..p.types.len()).map(|t| rm.class_count(t)).collect();
                    let prelens: Vec<usize> = (0..p.types.len()).map(|t| rm.len(t)).collect();
                    let mut pre = rm.clone();
                    pre.normalize(p);
                    if full && ret {
                        // the bound (ids / evaluations) was hit
                        let hit_evals = evals >= self.max_evals;
                        if self.or.c06 && hit_evals && !p.has_nonsurjective() {
                            // deterministic iteration bound: every non-final iteration adds a tuple or merges classes
                            let ids: usize = prelens.iter().sum();
                            let mut tuples: usize = 1;
                            for r in &p.rels {
                                tuples = tuples.saturating_add(r.cols.iter().map(|&t| prelens[t].max(1)).product::<usize>());
                            }
                            let bound = (ids + 1).saturating_mul(tuples).saturating_add(2);
                            if bound.saturating_mul(100) <= self.max_evals {
                                fail!("C06", i, "close() did not reach a fixed point within {} iterations (at most {} iterations are possible for a terminating evaluation of this model)", evals, bound);
                            }
                        }
                        st.bounded = true;
                        break;
                    }
                    if !full && !ret {
                        // close_until(steps) reached the fixed point before k evaluations: a full close
                    }
                    let closed = !ret;
                    let dm = d.to_model(p);
                    if self.or.c04 {
                        // every state the condition closure saw
                        match resp.observations(p) {
                            Ok(obs) => {
                                for (k, (_, od)) in obs.iter().enumerate() {
                                    st.observed_states += 1;
                                    if let Err(e) = check_canonical(p, od, false, &mut st) {
                                        fail!("C04", i, "at evaluation {} of the close_until condition: {}", k, e);
                                    }
                                }
                            }
                            Err(e) => st.anomalies.push(format!("unparsable observation: {}", e)),
                        }
                    }
                    if self.or.c04 {
                        let before = st.anomalies.len();
                        if let Err(e) = check_canonical(p, d, closed, &mut st) {
                            fail!("C04", i, "{}", e);
                        }
                        let _ = before;
                    }
                    if closed {
                        st.judged_closes += 1;
                        if self.or.c06 && !p.has_nonsurjective() {
                            for ty in 0..p.types.len() {
                                if d.roots[ty].len() != prelens[ty] {
                                    fail!("C06", i, "close() allocated {} new ids of type {} although no rule uses `!`", d.roots[ty].len() - prelens[ty], p.types[ty].name);
                                }
                                if dm.class_count(ty) > classes_before[ty] {
                                    fail!("C06", i, "type {} has {} elements after close() but had {} before", p.types[ty].name, dm.class_count(ty), classes_before[ty]);
                                }
                            }
                        }
                        if self.or.c01 {
                            if let Some(e) = chase::first_unsatisfied(p, self.rules, &dm, self.bounds.max_matches) {
                                fail!("C01", i, "closed model violates a rule: {}", e);
                            }
                        }
                        let mut expected = pre.clone();
                        let cs = chase::chase(p, self.rules, &mut expected, &self.bounds);
                        if cs.stuck > 0 {
                            st.anomalies.push(format!("reference chase got stuck {} times", cs.stuck));
                        }
                        if cs.bounded {
                            st.chase_bounded = true;
                        } else {
                            st.merges += cs.merges;
                            st.created += cs.created;
                            st.tuples_added += cs.tuples_added;
                            if cs.merges + cs.created + cs.tuples_added > 0 {
                                st.derived_something = true;
                            }
                            if self.or.c02 {
                                if let Err(e) = iso::isomorphic(p, &expected, &dm, &prelens) {
                                    fail!("C02", i, "closed model is not the free model (first = reference chase, second = implementation): {}", e);
                                }
                                if self.or.c02_ids {
                                    let allocated: usize = (0..p.types.len()).map(|t| d.roots[t].len() - prelens[t]).sum();
                                    if allocated != cs.created {
                                        fail!("C02", i, "[sub=ids] close() allocated {} element ids, the staged reference chase needed {}", allocated, cs.created);
                                    }
                                }
                            }
                        }
                    }
                    // adopt the implementation's state (verified above where it could be)
                    for ty in 0..p.types.len() {
                        if d.roots[ty].len() < prelens[ty] {
                            fail!(primary, i, "ids of type {} disappeared during close", p.types[ty].name);
                        }
                    }
                    rm = dm;
                    dirty = false;
                    last_close_dump = if closed { Some(d.clone()) } else { None };
                }
            }
            // C05: state right after a mutating call
            if self.or.c05 && mutated {
                if let Some(d) = &dump_after {
                    for ty in 0..p.types.len() {
                        if d.roots[ty].len() != rm.len(ty) {
                            fail!("C05", i, "type {}: {} ids allocated, reference expects {}", p.types[ty].name, d.roots[ty].len(), rm.len(ty));
                        }
                        let r = &d.roots[ty];
                        for (k, &x) in r.iter().enumerate() {
                            if x as usize >= r.len() || r[x as usize] != x {
                                fail!("C05", i, "root_{} is not idempotent at id {}", snake(&p.types[ty].name), k);
                            }
                        }
                        let rmr = &rm;
                        if let Some((id, _)) = partition_eq(&|x| r[x as usize], &|x| rmr.find(ty, x), r.len()) {
                            fail!("C05", i, "are_equal_{} differs from the equivalence generated by the closed state and the equate_ calls (around id {})", snake(&p.types[ty].name), id);
                        }
                    }
                    if !dirty {
                        st.clean_queries += 1;
                        for r in 0..p.rels.len() {
                            let mut seen = BTreeSet::new();
                            for t in &d.iter_rel[r] {
                                if !seen.insert(t.clone()) {
                                    fail!("C05", i, "iter_{} reports tuple {:?} twice", snake(&p.rels[r].name), t);
                                }
                            }
                            if seen != rm.rels[r] {
                                fail!("C05", i, "iter_{} = {:?}, reference tuple set = {:?}", snake(&p.rels[r].name), seen, rm.rels[r]);
                            }
                        }
                        for ty in 0..p.types.len() {
                            let got: BTreeSet<u32> = d.iter_ty[ty].iter().copied().collect();
                            let exp: BTreeSet<u32> = rm.roots(ty).into_iter().collect();
                            if got != exp || got.len() != d.iter_ty[ty].len() {
                                fail!("C05", i, "iter_{} = {:?}, expected {:?}", snake(&p.types[ty].name), d.iter_ty[ty], exp);
                            }
                        }
                    } else {
                        st.dirty_queries += 1;
                    }
                }
            }
        }
        (out, st)
    }
}
