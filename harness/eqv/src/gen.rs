//! Typed program generator: builds programs that are well-formed by construction from a
//! "choice tape" (`Vec<u16>` drawn by proptest, so that every random choice stays inside the
//! library, is replayable from the seed and shrinks towards the simplest alternative, which is
//! always alternative 0).

use crate::ast::*;
use serde::{Deserialize, Serialize};

#[derive(Clone, Copy, Debug, PartialEq, Eq, Serialize, Deserialize)]
pub enum Bang {
    /// No `!` in any then-statement (C06: close terminates, creates nothing).
    None,
    /// `!` only for functions whose argument types are all strictly lower (by type index) than
    /// the result type: the chase terminates.
    Stratified,
    /// No restriction; the chase may diverge (always run under a bound).
    Free,
}

#[derive(Clone, Debug, Serialize, Deserialize)]
pub struct Profile {
    pub name: String,
    pub max_types: usize,
    pub max_enums: usize,
    pub max_preds: usize,
    pub max_funcs: usize,
    pub max_arity: usize,
    pub max_rules: usize,
    pub max_stmts: usize,
    pub bang: Bang,
    pub branches: bool,
    pub matches: bool,
    pub primes: bool,
    /// functions with an enum result type (non-constructors)
    pub funcs_into_enums: bool,
    /// bound on the product of block counts of the branch/match statements of one rule
    pub max_fanout: usize,
}

impl Profile {
    pub fn surjective() -> Profile {
        Profile {
            name: "surjective".into(),
            max_types: 3,
            max_enums: 1,
            max_preds: 4,
            max_funcs: 3,
            max_arity: 3,
            max_rules: 4,
            max_stmts: 6,
            bang: Bang::None,
            branches: true,
            matches: true,
            primes: false,
            funcs_into_enums: true,
            max_fanout: 6,
        }
    }
    pub fn stratified() -> Profile {
        Profile { name: "stratified".into(), bang: Bang::Stratified, ..Profile::surjective() }
    }
    pub fn free() -> Profile {
        Profile { name: "free".into(), bang: Bang::Free, primes: true, ..Profile::surjective() }
    }
    /// relations with up to 5 columns (more index orders per relation), `!` stratified
    pub fn medium() -> Profile {
        Profile { name: "medium".into(), max_arity: 5, max_preds: 3, max_funcs: 2, bang: Bang::Stratified, max_fanout: 4, ..Profile::surjective() }
    }
    pub fn with_enums() -> Profile {
        Profile { name: "with_enums".into(), max_enums: 2, bang: Bang::Stratified, ..Profile::surjective() }
    }
    pub fn wide() -> Profile {
        Profile {
            name: "wide".into(),
            max_types: 4,
            max_enums: 2,
            max_preds: 5,
            max_funcs: 4,
            max_arity: 9,
            max_rules: 4,
            max_stmts: 6,
            bang: Bang::Free,
            branches: true,
            matches: true,
            primes: true,
            funcs_into_enums: true,
            max_fanout: 4,
        }
    }
    pub fn by_name(n: &str) -> Option<Profile> {
        Some(match n {
            "surjective" => Profile::surjective(),
            "stratified" => Profile::stratified(),
            "free" => Profile::free(),
            "with_enums" => Profile::with_enums(),
            "medium" => Profile::medium(),
            "wide" => Profile::wide(),
            _ => return None,
        })
    }
}

pub struct Tape<'a> {
    data: &'a [u16],
    pos: usize,
}

impl<'a> Tape<'a> {
    pub fn new(data: &'a [u16]) -> Self {
        Tape { data, pos: 0 }
    }
    /// Uniform choice in 0..n (monotone in the tape value; 0 when the tape is exhausted).
    pub fn pick(&mut self, n: usize) -> usize {
        if n <= 1 {
            return 0;
        }
        let v = if self.pos < self.data.len() { self.data[self.pos] } else { 0 };
        self.pos += 1;
        ((v as usize) * n) >> 16
    }
    pub fn chance(&mut self, num: usize, den: usize) -> bool {
        // true with probability num/den; false on exhausted tape
        self.pick(den) >= den - num
    }
    /// Weighted choice; returns an index into `w` (entries with weight 0 are never chosen).
    pub fn weighted(&mut self, w: &[usize]) -> usize {
        let total: usize = w.iter().sum();
        if total == 0 {
            return 0;
        }
        let mut k = self.pick(total);
        for (i, &wi) in w.iter().enumerate() {
            if k < wi {
                return i;
            }
            k -= wi;
        }
        w.len() - 1
    }
}

const TYPE_NAMES: &[&str] = &["A", "B", "C", "D", "El", "Node", "Obj", "Sort"];
const ENUM_NAMES: &[&str] = &["E", "Shape", "Tree", "Opt"];
const CTOR_NAMES: &[&str] = &["Ka", "Kb", "Kc", "Leaf", "Fork", "Nil", "Cons", "Unit", "Wrap", "Pair"];
const PRED_NAMES: &[&str] = &["p", "q", "r", "le", "edge", "rel_x", "marked", "is_ok", "s_1", "t"];
const FUNC_NAMES: &[&str] = &["f", "g", "h", "meet", "succ", "mk", "op_x", "zero", "k"];
const RULE_NAMES: &[&str] = &["ax", "step", "lemma_a", "trans", "refl", "rule_1", "cong", "sat"];
const VAR_NAMES: &[&str] = &["x", "y", "z", "u", "v", "w", "aa", "t_0", "m", "n", "y_1", "el"];

#[derive(Clone)]
struct VarInfo {
    name: String,
    ty: TypeId,
    count: usize,
    intro_then: bool,
}

#[derive(Clone, Default)]
struct Ctx {
    /// visible variables (indices into RuleGen::vars)
    vars: Vec<usize>,
    /// wildcard-free application terms that occurred on this path
    known: Vec<(Term, TypeId)>,
}

struct RuleGen<'a, 'b> {
    p: &'a Program,
    prof: &'a Profile,
    t: &'a mut Tape<'b>,
    vars: Vec<VarInfo>,
    /// product of the block counts of all branch/match statements generated so far: statements
    /// after a branch are continued once per block, so the number of flat rules (and the size of
    /// the generated code) grows with this product
    fanout: usize,
}

impl<'a, 'b> RuleGen<'a, 'b> {
    fn funcs_into(&self, ty: TypeId) -> Vec<RelId> {
        (0..self.p.rels.len())
            .filter(|&r| self.p.rels[r].result_type() == Some(ty))
            .collect()
    }

    fn fresh_var(&mut self, ctx: &mut Ctx, ty: TypeId, intro_then: bool) -> String {
        // Prefer a name that is not visible; names of variables that went out of scope may be
        // reused (boosted on purpose).
        let visible: Vec<&str> = ctx.vars.iter().map(|&v| self.vars[v].name.as_str()).collect();
        let mut cands: Vec<String> = VAR_NAMES
            .iter()
            .map(|s| s.to_string())
            .filter(|s| !visible.contains(&s.as_str()))
            .collect();
        if cands.is_empty() {
            let mut i = 0;
            loop {
                let c = format!("x_{}", i);
                if !visible.contains(&c.as_str()) {
                    cands.push(c);
                    break;
                }
                i += 1;
            }
        }
        let k = self.t.pick(cands.len().min(4));
        let mut name = cands[k].clone();
        if self.prof.primes && self.t.chance(1, 6) {
            name.push('\'');
            if visible.contains(&name.as_str()) {
                name.pop();
            }
        }
        let id = self.vars.len();
        self.vars.push(VarInfo { name: name.clone(), ty, count: 0, intro_then });
        ctx.vars.push(id);
        name
    }

    fn use_var(&mut self, id: usize) -> Term {
        self.vars[id].count += 1;
        Term::Var(self.vars[id].name.clone())
    }

    fn vars_of(&self, ctx: &Ctx, ty: TypeId) -> Vec<usize> {
        ctx.vars.iter().copied().filter(|&v| self.vars[v].ty == ty).collect()
    }

    fn note_known(&self, ctx: &mut Ctx, t: &Term) {
        fn has_wild(t: &Term) -> bool {
            match t {
                Term::Wild => true,
                Term::Var(_) => false,
                Term::App(_, a) => a.iter().any(has_wild),
            }
        }
        if let Term::App(f, args) = t {
            for a in args {
                self.note_known(ctx, a);
            }
            if !has_wild(t) {
                let ty = self.p.rels[*f].result_type().unwrap();
                if !ctx.known.iter().any(|(k, _)| k == t) {
                    ctx.known.push((t.clone(), ty));
                }
            }
        }
    }

    /// A term in an `if` atom at a position of type `ty`.
    fn if_term(&mut self, ctx: &mut Ctx, ty: TypeId, depth: usize, fresh: bool, wild: bool) -> Term {
        let existing = self.vars_of(ctx, ty);
        let fs = if depth < 2 { self.funcs_into(ty) } else { vec![] };
        let w = [
            if existing.is_empty() { 0 } else { 8 },
            if fresh { if existing.is_empty() { 4 } else { 2 } } else { 0 },
            if fs.is_empty() { 0 } else { 3 },
            if wild { 1 } else { 0 },
        ];
        if w.iter().sum::<usize>() == 0 {
            // nothing else possible: introduce a fresh variable anyway
            let n = self.fresh_var(ctx, ty, false);
            let id = *ctx.vars.last().unwrap();
            let _ = n;
            return self.use_var(id);
        }
        match self.t.weighted(&w) {
            0 => {
                let k = self.t.pick(existing.len());
                self.use_var(existing[k])
            }
            1 => {
                self.fresh_var(ctx, ty, false);
                let id = *ctx.vars.last().unwrap();
                self.use_var(id)
            }
            2 => {
                let f = fs[self.t.pick(fs.len())];
                let arg_tys: Vec<TypeId> = self.p.rels[f].arg_types().to_vec();
                let args: Vec<Term> = arg_tys
                    .iter()
                    .map(|&at| self.if_term(ctx, at, depth + 1, true, true))
                    .collect();
                Term::App(f, args)
            }
            _ => Term::Wild,
        }
    }

    fn if_atom(&mut self, ctx: &mut Ctx) -> Option<IfAtom> {
        let preds = self.p.preds();
        let funcs = self.p.funcs();
        let w = [
            if preds.is_empty() { 0 } else { 6 },
            if funcs.is_empty() { 0 } else { 2 },
            2,
            1,
        ];
        let atom = match self.t.weighted(&w) {
            0 => {
                let r = preds[self.t.pick(preds.len())];
                let tys: Vec<TypeId> = self.p.rels[r].cols.clone();
                let mut args: Vec<Term> = Vec::new();
                for (k, &ty) in tys.iter().enumerate() {
                    // boosted: the same variable at several positions of one atom (diagonal indices,
                    // also with three occurrences / two pairs)
                    let earlier: Vec<String> = (0..k)
                        .filter(|&i| tys[i] == ty)
                        .filter_map(|i| if let Term::Var(v) = &args[i] { Some(v.clone()) } else { None })
                        .collect();
                    if !earlier.is_empty() && self.t.chance(1, 4) {
                        let v = earlier[self.t.pick(earlier.len())].clone();
                        if let Some(&id) = ctx.vars.iter().rev().find(|&&id| self.vars[id].name == v) {
                            args.push(self.use_var(id));
                            continue;
                        }
                    }
                    args.push(self.if_term(ctx, ty, 0, true, true));
                }
                IfAtom::Pred(r, args)
            }
            1 => {
                let f = funcs[self.t.pick(funcs.len())];
                let tys: Vec<TypeId> = self.p.rels[f].arg_types().to_vec();
                let args = tys.iter().map(|&ty| self.if_term(ctx, ty, 1, true, true)).collect();
                IfAtom::Defined(Term::App(f, args))
            }
            2 => {
                // equality: at least one side is an existing variable or an application so that
                // the type is determined
                let ty = self.t.pick(self.p.types.len());
                let existing = self.vars_of(ctx, ty);
                let fs = self.funcs_into(ty);
                if existing.is_empty() && fs.is_empty() {
                    let v = self.if_term(ctx, ty, 0, true, false);
                    IfAtom::Typed(v, ty)
                } else {
                    let lhs = if !fs.is_empty() && (existing.is_empty() || self.t.chance(1, 2)) {
                        let f = fs[self.t.pick(fs.len())];
                        let tys: Vec<TypeId> = self.p.rels[f].arg_types().to_vec();
                        let args = tys.iter().map(|&ty| self.if_term(ctx, ty, 1, true, true)).collect();
                        Term::App(f, args)
                    } else {
                        let k = self.t.pick(existing.len());
                        self.use_var(existing[k])
                    };
                    let rhs = self.if_term(ctx, ty, 1, true, false);
                    if self.t.chance(1, 2) {
                        IfAtom::Eq(rhs, lhs)
                    } else {
                        IfAtom::Eq(lhs, rhs)
                    }
                }
            }
            _ => {
                let ty = self.t.pick(self.p.types.len());
                let existing = self.vars_of(ctx, ty);
                if !existing.is_empty() && self.t.chance(1, 3) {
                    let k = self.t.pick(existing.len());
                    IfAtom::Typed(self.use_var(existing[k]), ty)
                } else {
                    self.fresh_var(ctx, ty, false);
                    let id = *ctx.vars.last().unwrap();
                    IfAtom::Typed(self.use_var(id), ty)
                }
            }
        };
        match &atom {
            IfAtom::Pred(_, args) => {
                for a in args {
                    self.note_known(ctx, a);
                }
            }
            IfAtom::Defined(t) => self.note_known(ctx, t),
            IfAtom::Eq(l, r) => {
                self.note_known(ctx, l);
                self.note_known(ctx, r);
            }
            IfAtom::Typed(..) => {}
        }
        Some(atom)
    }

    /// A term usable in a `then` atom at a position of type `ty`: a visible variable or a
    /// known application term.
    fn then_term(&mut self, ctx: &Ctx, ty: TypeId) -> Option<Term> {
        let vs = self.vars_of(ctx, ty);
        let ks: Vec<Term> = ctx.known.iter().filter(|(_, t)| *t == ty).map(|(k, _)| k.clone()).collect();
        let n = vs.len() + ks.len();
        if n == 0 {
            return None;
        }
        let k = self.t.pick(n);
        if k < vs.len() {
            Some(self.use_var(vs[k]))
        } else {
            let t = ks[k - vs.len()].clone();
            self.count_vars(ctx, &t);
            Some(t)
        }
    }

    fn count_vars(&mut self, ctx: &Ctx, t: &Term) {
        match t {
            Term::Var(n) => {
                if let Some(&id) = ctx.vars.iter().rev().find(|&&v| &self.vars[v].name == n) {
                    self.vars[id].count += 1;
                }
            }
            Term::Wild => {}
            Term::App(_, a) => a.iter().for_each(|a| self.count_vars(ctx, a)),
        }
    }

    fn bang_ok(&self, f: RelId) -> bool {
        let d = &self.p.rels[f];
        let res = d.result_type().unwrap();
        // a non-constructor must not create elements of an enum type
        if self.p.is_enum(res) && !matches!(d.kind, RelKind::Ctor(_)) {
            return false;
        }
        match self.prof.bang {
            Bang::None => false,
            Bang::Free => true,
            Bang::Stratified => d.arg_types().iter().all(|&a| a < res),
        }
    }

    fn new_app(&mut self, ctx: &Ctx, f: RelId) -> Option<Term> {
        let tys: Vec<TypeId> = self.p.rels[f].arg_types().to_vec();
        let mut args = Vec::new();
        for ty in tys {
            args.push(self.then_term(ctx, ty)?);
        }
        Some(Term::App(f, args))
    }

    fn then_atom(&mut self, ctx: &mut Ctx) -> Option<ThenAtom> {
        let preds = self.p.preds();
        let bangable: Vec<RelId> = self.p.funcs().into_iter().filter(|&f| self.bang_ok(f)).collect();
        let w = [
            if preds.is_empty() { 0 } else { 6 },
            3,
            if bangable.is_empty() { 0 } else { 3 },
        ];
        // Variable counts must not be touched by failed attempts: snapshot and restore.
        let snapshot: Vec<usize> = self.vars.iter().map(|v| v.count).collect();
        let res = match self.t.weighted(&w) {
            0 => {
                let r = preds[self.t.pick(preds.len())];
                let tys: Vec<TypeId> = self.p.rels[r].cols.clone();
                let mut args = Vec::new();
                let mut ok = true;
                for ty in tys {
                    match self.then_term(ctx, ty) {
                        Some(t) => args.push(t),
                        None => {
                            ok = false;
                            break;
                        }
                    }
                }
                if ok {
                    Some(ThenAtom::Pred(r, args))
                } else {
                    None
                }
            }
            1 => {
                let ty = self.t.pick(self.p.types.len());
                let rhs = self.then_term(ctx, ty);
                match rhs {
                    None => None,
                    Some(rhs) => {
                        // lhs: known term, or a new application (inserts a graph tuple). A new
                        // non-constructor application of enum type is avoided (kept for mutants).
                        let fs: Vec<RelId> = self
                            .funcs_into(ty)
                            .into_iter()
                            .filter(|&f| !self.p.is_enum(ty) || matches!(self.p.rels[f].kind, RelKind::Ctor(_)))
                            .collect();
                        let lhs = if !fs.is_empty() && self.t.chance(1, 3) {
                            let f = fs[self.t.pick(fs.len())];
                            self.new_app(ctx, f)
                        } else {
                            // prefer an equation between two different terms (a real merge)
                            let mut l = self.then_term(ctx, ty);
                            if l.as_ref() == Some(&rhs) {
                                let snapshot2: Vec<usize> = self.vars.iter().map(|v| v.count).collect();
                                let l2 = self.then_term(ctx, ty);
                                if l2.as_ref() != Some(&rhs) && l2.is_some() {
                                    // undo the count of the first draw
                                    if let Some(first) = &l {
                                        let mut names = Vec::new();
                                        fn vars_of(t: &Term, out: &mut Vec<String>) {
                                            match t {
                                                Term::Var(v) => out.push(v.clone()),
                                                Term::App(_, a) => a.iter().for_each(|x| vars_of(x, out)),
                                                Term::Wild => {}
                                            }
                                        }
                                        vars_of(first, &mut names);
                                        for n in names {
                                            if let Some(&id) = ctx.vars.iter().rev().find(|&&id| self.vars[id].name == n) {
                                                self.vars[id].count = self.vars[id].count.saturating_sub(1);
                                            }
                                        }
                                    }
                                    l = l2;
                                } else {
                                    for (v, c) in self.vars.iter_mut().zip(snapshot2) {
                                        v.count = c;
                                    }
                                }
                            }
                            l
                        };
                        match lhs {
                            None => None,
                            Some(lhs) => {
                                if self.t.chance(1, 2) {
                                    Some(ThenAtom::Eq(rhs, lhs))
                                } else {
                                    Some(ThenAtom::Eq(lhs, rhs))
                                }
                            }
                        }
                    }
                }
            }
            _ => {
                let f = bangable[self.t.pick(bangable.len())];
                match self.new_app(ctx, f) {
                    None => None,
                    Some(t) => {
                        let res = self.p.rels[f].result_type().unwrap();
                        let var = if self.t.chance(1, 2) {
                            Some(self.fresh_var(ctx, res, true))
                        } else {
                            None
                        };
                        if let Some(_) = &var {
                            let id = *ctx.vars.last().unwrap();
                            self.vars[id].count += 1;
                        }
                        Some(ThenAtom::Defined(var, t))
                    }
                }
            }
        };
        match &res {
            None => {
                for (v, c) in self.vars.iter_mut().zip(snapshot) {
                    v.count = c;
                }
            }
            Some(ThenAtom::Defined(_, t)) => self.note_known(ctx, t),
            Some(ThenAtom::Eq(l, r)) => {
                // after `then f(x) = y` the application is known on this path
                self.note_known(ctx, l);
                self.note_known(ctx, r);
            }
            _ => {}
        }
        res
    }

    fn block(&mut self, ctx: &mut Ctx, depth: usize, budget: usize) -> Vec<Stmt> {
        let first_var = self.vars.len();
        let mut out = Vec::new();
        let n = 2 + self.t.pick(budget.max(2) - 1);
        // mostly: ifs first, thens later; sometimes interleaved, rarely a then first
        let n_if = 1 + self.t.pick(n.min(3));
        let interleave = self.t.chance(1, 4);
        let then_first = self.t.chance(1, 10);
        let mut seen_then = false;
        for i in 0..n {
            let then_bias = if interleave {
                if i == 0 && !then_first { 0 } else { 5 }
            } else if then_first && i == 0 {
                100
            } else if i < n_if && !seen_then {
                0
            } else {
                30
            };
            let enum_vars: Vec<usize> = ctx
                .vars
                .iter()
                .copied()
                .filter(|&v| self.p.is_enum(self.vars[v].ty))
                .collect();
            let w = [
                if then_bias >= 30 { 2 } else { 6 },
                then_bias,
                if self.prof.branches && depth < 2 && self.fanout * 2 <= self.prof.max_fanout { 1 } else { 0 },
                if self.prof.matches && depth < 2 && !enum_vars.is_empty() && self.fanout * 2 <= self.prof.max_fanout { 2 } else { 0 },
            ];
            match self.t.weighted(&w) {
                0 => {
                    if let Some(a) = self.if_atom(ctx) {
                        out.push(Stmt::If(a));
                    }
                }
                1 => {
                    if let Some(a) = self.then_atom(ctx) {
                        out.push(Stmt::Then(a));
                        seen_then = true;
                    } else if let Some(a) = self.if_atom(ctx) {
                        out.push(Stmt::If(a));
                    }
                }
                2 => {
                    let nb = 1 + self.t.pick(3.min(self.prof.max_fanout / self.fanout));
                    self.fanout *= nb;
                    let mut blocks = Vec::new();
                    for _ in 0..nb {
                        let mut c = ctx.clone();
                        blocks.push(self.block(&mut c, depth + 1, budget.saturating_sub(2).max(2)));
                    }
                    out.push(Stmt::Branch(blocks));
                }
                _ => {
                    // only enums whose constructor count fits the fan-out budget
                    let fit: Vec<usize> = enum_vars.iter().copied().filter(|&v| self.fanout * self.p.ctors(self.vars[v].ty).len().max(1) <= self.prof.max_fanout).collect();
                    if fit.is_empty() {
                        if let Some(a) = self.if_atom(ctx) {
                            out.push(Stmt::If(a));
                        }
                        continue;
                    }
                    let v = fit[self.t.pick(fit.len())];
                    let ety = self.vars[v].ty;
                    self.fanout *= self.p.ctors(ety).len().max(1);
                    let disc = self.use_var(v);
                    let mut ctors: Vec<RelId> = self.p.ctors(ety).to_vec();
                    // random case order
                    for i in (1..ctors.len()).rev() {
                        let j = self.t.pick(i + 1);
                        ctors.swap(i, i - j.min(i));
                    }
                    let mut cases = Vec::new();
                    for c in ctors {
                        let mut cctx = ctx.clone();
                        let tys: Vec<TypeId> = self.p.rels[c].arg_types().to_vec();
                        let mut args = Vec::new();
                        for ty in tys {
                            if self.t.chance(1, 4) {
                                args.push(Term::Wild);
                            } else {
                                self.fresh_var(&mut cctx, ty, false);
                                let id = *cctx.vars.last().unwrap();
                                args.push(self.use_var(id));
                            }
                        }
                        let n_pat_vars = args.iter().filter(|a| matches!(a, Term::Var(_))).count();
                        let first_case_var = self.vars.len() - n_pat_vars;
                        let mut body = self.block(&mut cctx, depth + 1, budget.saturating_sub(2).max(2));
                        // pattern variables that were never used again
                        self.fixup(&cctx, &mut body, first_case_var, first_case_var + n_pat_vars);
                        cases.push(MatchCase { ctor: c, args, body, raw_pattern: None });
                    }
                    out.push(Stmt::Match(disc, cases));
                }
            }
        }
        let end = self.vars.len();
        self.fixup(ctx, &mut out, first_var, end);
        out
    }

    /// A `then` predicate atom that mentions variable `id` (other columns filled with known
    /// terms), if the signature allows one.
    fn then_pred_using(&mut self, ctx: &Ctx, id: usize) -> Option<ThenAtom> {
        let ty = self.vars[id].ty;
        let cands: Vec<(RelId, usize)> = self
            .p
            .preds()
            .into_iter()
            .flat_map(|r| {
                self.p.rels[r]
                    .cols
                    .iter()
                    .enumerate()
                    .filter(|(_, &c)| c == ty)
                    .map(|(i, _)| (r, i))
                    .collect::<Vec<_>>()
            })
            .collect();
        if cands.is_empty() {
            return None;
        }
        let (r, pos) = cands[self.t.pick(cands.len())];
        let snapshot: Vec<usize> = self.vars.iter().map(|v| v.count).collect();
        let tys: Vec<TypeId> = self.p.rels[r].cols.clone();
        let mut args = Vec::new();
        for (i, ty) in tys.into_iter().enumerate() {
            if i == pos {
                args.push(self.use_var(id));
            } else {
                match self.then_term(ctx, ty) {
                    Some(t) => args.push(t),
                    None => {
                        for (v, c) in self.vars.iter_mut().zip(snapshot) {
                            v.count = c;
                        }
                        return None;
                    }
                }
            }
        }
        Some(ThenAtom::Pred(r, args))
    }

    /// Every variable introduced in [from, to) that occurs only once gets a second occurrence.
    fn fixup(&mut self, ctx: &Ctx, out: &mut Vec<Stmt>, from: usize, to: usize) {
        for id in from..to.min(self.vars.len()) {
            if self.vars[id].count == 1 {
                if ctx.vars.contains(&id) && self.t.chance(3, 4) {
                    if let Some(a) = self.then_pred_using(ctx, id) {
                        out.push(Stmt::Then(a));
                        continue;
                    }
                }
                let v = Term::Var(self.vars[id].name.clone());
                if self.vars[id].intro_then {
                    out.push(Stmt::Then(ThenAtom::Eq(v.clone(), v)));
                    self.vars[id].count += 2;
                } else {
                    out.push(Stmt::If(IfAtom::Typed(v, self.vars[id].ty)));
                    self.vars[id].count += 1;
                }
            }
        }
    }
}

fn pick_names(t: &mut Tape, pool: &[&str], n: usize) -> Vec<String> {
    // rotate the pool by a tape-chosen offset, then take the first n
    let off = t.pick(pool.len());
    (0..n).map(|i| pool[(off + i) % pool.len()].to_string()).collect()
}

pub fn gen_program(tape: &[u16], prof: &Profile) -> Program {
    let mut t = Tape::new(tape);
    let n_plain = 1 + t.pick(prof.max_types);
    let n_enum = if prof.max_enums > 0 { t.pick(prof.max_enums + 1) } else { 0 };
    let mut types: Vec<TypeDecl> = pick_names(&mut t, TYPE_NAMES, n_plain)
        .into_iter()
        .map(|name| TypeDecl { name, kind: TypeKind::Plain })
        .collect();
    let enum_names = pick_names(&mut t, ENUM_NAMES, n_enum);
    let mut rels: Vec<RelDecl> = Vec::new();
    // enum types are interleaved into the type list so that the stratification order mixes them
    let mut ctor_names = pick_names(&mut t, CTOR_NAMES, CTOR_NAMES.len()).into_iter();
    let n_types_total = n_plain + n_enum;
    for name in enum_names {
        let pos = t.pick(types.len() + 1);
        types.insert(pos, TypeDecl { name, kind: TypeKind::Enum(vec![]) });
    }
    for ty in 0..n_types_total {
        if let TypeKind::Enum(_) = types[ty].kind {
            let nc = 1 + t.pick(3);
            let mut ctors = Vec::new();
            for _ in 0..nc {
                let name = match ctor_names.next() {
                    Some(n) => n,
                    None => break,
                };
                let ar = t.weighted(&[3, 4, 2, 1]);
                let mut cols: Vec<TypeId> = (0..ar).map(|_| t.pick(n_types_total)).collect();
                cols.push(ty);
                ctors.push(rels.len());
                rels.push(RelDecl { name, kind: RelKind::Ctor(ty), cols });
            }
            types[ty].kind = TypeKind::Enum(ctors);
        }
    }
    let n_pred = 1 + t.pick(prof.max_preds);
    for name in pick_names(&mut t, PRED_NAMES, n_pred) {
        let ar = if prof.max_arity > 4 {
            t.weighted(&[1, 3, 4, 3, 2, 2, 1, 1, 1, 1][..=prof.max_arity.min(9)])
        } else {
            t.weighted(&[1, 4, 5, 3, 1][..=prof.max_arity.min(4)])
        };
        let cols = (0..ar).map(|_| t.pick(n_types_total)).collect();
        rels.push(RelDecl { name, kind: RelKind::Pred, cols });
    }
    let n_func = t.pick(prof.max_funcs + 1);
    for name in pick_names(&mut t, FUNC_NAMES, n_func) {
        let max_args = prof.max_arity.saturating_sub(1).min(8);
        let ar = if max_args > 3 {
            t.weighted(&[2, 4, 3, 1, 1, 1, 1, 1, 1][..=max_args])
        } else {
            t.weighted(&[2, 5, 3, 1][..=max_args.min(3)])
        };
        let plain: Vec<TypeId> = (0..n_types_total)
            .filter(|&x| prof.funcs_into_enums || matches!(types[x].kind, TypeKind::Plain))
            .collect();
        // In the stratified profile most functions go from lower to strictly higher plain types,
        // so that `!` conclusions are available and the chase still terminates.
        let upward: Vec<TypeId> = (1..n_types_total).filter(|&x| matches!(types[x].kind, TypeKind::Plain)).collect();
        let cols = if prof.bang == Bang::Stratified && !upward.is_empty() && t.chance(2, 3) {
            let res = upward[t.pick(upward.len())];
            let mut cols: Vec<TypeId> = (0..ar).map(|_| t.pick(res)).collect();
            cols.push(res);
            cols
        } else {
            let mut cols: Vec<TypeId> = (0..ar).map(|_| t.pick(n_types_total)).collect();
            cols.push(plain[t.pick(plain.len())]);
            cols
        };
        rels.push(RelDecl { name, kind: RelKind::Func, cols });
    }
    let mut p = Program { types, rels, rules: vec![], order: vec![], layout: 0 };
    let n_rules = 1 + t.pick(prof.max_rules);
    let rule_names = pick_names(&mut t, RULE_NAMES, n_rules);
    for name in rule_names {
        let name = if t.chance(1, 3) { None } else { Some(name) };
        let body = {
            let mut g = RuleGen { p: &p, prof, t: &mut t, vars: Vec::new(), fanout: 1 };
            let mut ctx = Ctx::default();
            g.block(&mut ctx, 0, prof.max_stmts)
        };
        p.rules.push(Rule { name, body });
    }
    // declaration order: declarations may come in any order
    let mut order: Vec<DeclRef> = Vec::new();
    for ty in 0..p.types.len() {
        order.push(DeclRef::Type(ty));
    }
    for r in 0..p.rels.len() {
        if !matches!(p.rels[r].kind, RelKind::Ctor(_)) {
            order.push(DeclRef::Rel(r));
        }
    }
    for r in 0..p.rules.len() {
        order.push(DeclRef::Rule(r));
    }
    if t.chance(1, 2) {
        for i in (1..order.len()).rev() {
            let j = t.pick(i + 1);
            order.swap(i, i - j.min(i));
        }
    }
    p.order = order;
    p.layout = t.pick(1 << 15) as u32;
    p
}

/// An edited version of `base` (C12): same signature (possibly one more predicate), rules keep
/// their names but may get a different body, rules may disappear or be added. Anonymous rules are
/// numbered by position, so removing a rule renames the later anonymous ones.
pub fn gen_variant(base: &Program, tape: &[u16], prof: &Profile) -> Program {
    let mut t = Tape::new(tape);
    let mut p = base.clone();
    if t.chance(1, 6) {
        let used: Vec<&str> = p.rels.iter().map(|r| r.name.as_str()).collect();
        if let Some(name) = PRED_NAMES.iter().find(|n| !used.contains(n)) {
            let ar = t.pick(3);
            let cols = (0..ar).map(|_| t.pick(p.types.len())).collect();
            p.rels.push(RelDecl { name: name.to_string(), kind: RelKind::Pred, cols });
            p.order.push(DeclRef::Rel(p.rels.len() - 1));
        }
    }
    // regenerate some bodies
    for ri in 0..p.rules.len() {
        if t.chance(1, 2) {
            let body = {
                let mut g = RuleGen { p: &p, prof, t: &mut t, vars: Vec::new(), fanout: 1 };
                let mut ctx = Ctx::default();
                g.block(&mut ctx, 0, prof.max_stmts)
            };
            p.rules[ri].body = body;
        }
    }
    // remove a rule
    if p.rules.len() > 1 && t.chance(1, 4) {
        let ri = t.pick(p.rules.len());
        p.rules.remove(ri);
        p.order = p
            .order
            .iter()
            .filter_map(|d| match d {
                DeclRef::Rule(r) if *r == ri => None,
                DeclRef::Rule(r) if *r > ri => Some(DeclRef::Rule(r - 1)),
                other => Some(*other),
            })
            .collect();
    }
    // add a rule
    if t.chance(1, 3) {
        let used: Vec<String> = p.rules.iter().filter_map(|r| r.name.clone()).collect();
        let name = if t.chance(1, 3) { None } else { RULE_NAMES.iter().map(|s| s.to_string()).find(|n| !used.contains(n)) };
        let body = {
            let mut g = RuleGen { p: &p, prof, t: &mut t, vars: Vec::new(), fanout: 1 };
            let mut ctx = Ctx::default();
            g.block(&mut ctx, 0, prof.max_stmts)
        };
        p.rules.push(Rule { name, body });
        let pos = t.pick(p.order.len() + 1);
        p.order.insert(pos, DeclRef::Rule(p.rules.len() - 1));
    }
    p.layout = t.pick(1 << 15) as u32;
    p
}

/// A minimal edit of `base` (C12): the arguments of ONE atom are permuted among positions of the same
/// type (or one `then p(..)` atom is duplicated with permuted arguments). Declarations, rule names, the
/// relations each rule reads and writes stay the same, so in a component build the generated MODULE text
/// is often byte-identical and only one component source changes - the edit a "nothing changed" shortcut
/// would miss.
pub fn gen_small_edit(base: &Program, tape: &[u16]) -> Program {
    let mut t = Tape::new(tape);
    let mut p = base.clone();
    // collect (rule, path) of predicate atoms with two argument positions of the same type
    fn sites(p: &Program, stmts: &[Stmt], rule: usize, path: &mut Vec<usize>, out: &mut Vec<(usize, Vec<usize>)>) {
        for (i, s) in stmts.iter().enumerate() {
            path.push(i);
            match s {
                Stmt::If(IfAtom::Pred(r, _)) | Stmt::Then(ThenAtom::Pred(r, _)) => {
                    let cols = &p.rels[*r].cols;
                    if (0..cols.len()).any(|a| (a + 1..cols.len()).any(|b| cols[a] == cols[b])) {
                        out.push((rule, path.clone()));
                    }
                }
                Stmt::Branch(bs) => {
                    for (bi, b) in bs.iter().enumerate() {
                        path.push(bi);
                        sites(p, b, rule, path, out);
                        path.pop();
                    }
                }
                Stmt::Match(_, cs) => {
                    for (ci, c) in cs.iter().enumerate() {
                        path.push(ci);
                        sites(p, &c.body, rule, path, out);
                        path.pop();
                    }
                }
                _ => {}
            }
            path.pop();
        }
    }
    let mut all = Vec::new();
    for ri in 0..p.rules.len() {
        let mut path = Vec::new();
        sites(&p, &p.rules[ri].body, ri, &mut path, &mut all);
    }
    if all.is_empty() {
        return p;
    }
    let (ri, path) = all[t.pick(all.len())].clone();
    fn at<'a>(stmts: &'a mut Vec<Stmt>, path: &[usize]) -> Option<&'a mut Stmt> {
        let s = stmts.get_mut(path[0])?;
        if path.len() == 1 {
            return Some(s);
        }
        match s {
            Stmt::Branch(bs) => at(bs.get_mut(path[1])?, &path[2..]),
            Stmt::Match(_, cs) => at(&mut cs.get_mut(path[1])?.body, &path[2..]),
            _ => None,
        }
    }
    let rels = p.rels.clone();
    if let Some(stmt) = at(&mut p.rules[ri].body, &path) {
        if let Stmt::If(IfAtom::Pred(r, args)) | Stmt::Then(ThenAtom::Pred(r, args)) = stmt {
            let cols = &rels[*r].cols;
            let pairs: Vec<(usize, usize)> = (0..cols.len()).flat_map(|a| (a + 1..cols.len()).filter(move |&b| cols[a] == cols[b]).map(move |b| (a, b))).collect();
            let (a, b) = pairs[t.pick(pairs.len())];
            args.swap(a, b);
        }
    }
    p.layout = base.layout;
    p
}
