//! Isomorphism / homomorphism finder between two structures that share their generator ids.

use crate::ast::*;
use crate::model::Model;
use std::collections::BTreeMap;

/// Extends the correspondence "id i of `a` <-> id i of `b`" for the ids < fixed[ty] (the
/// elements the caller created) along function graphs, then demands a bijection on classes under
/// which every relation of `a` maps exactly onto the relation of `b`.
pub fn isomorphic(p: &Program, a: &Model, b: &Model, fixed: &[usize]) -> Result<(), String> {
    let seeds: Vec<(TypeId, u32, u32)> = prefix_seeds(p, a, b, fixed)?;
    isomorphic_with(p, a, b, &seeds)
}

fn prefix_seeds(p: &Program, a: &Model, b: &Model, fixed: &[usize]) -> Result<Vec<(TypeId, u32, u32)>, String> {
    let mut seeds = Vec::new();
    for ty in 0..p.types.len() {
        if fixed[ty] > a.len(ty) || fixed[ty] > b.len(ty) {
            return Err(format!("model lacks caller-created elements of type {}", p.types[ty].name));
        }
        for i in 0..fixed[ty] as u32 {
            seeds.push((ty, i, i));
        }
    }
    Ok(seeds)
}

/// Like `isomorphic`, with an explicit correspondence of caller-created elements
/// (type, id in `a`, id in `b`).
pub fn isomorphic_with(p: &Program, a: &Model, b: &Model, seeds: &[(TypeId, u32, u32)]) -> Result<(), String> {
    let map = extend(p, a, b, seeds)?;
    // totality on classes of a
    for ty in 0..p.types.len() {
        for r in a.roots(ty) {
            if !map[ty].contains_key(&r) {
                return Err(format!(
                    "element {}#{} of the first model is not denoted by any term over the caller-created elements that is defined in the second model",
                    p.types[ty].name, r
                ));
            }
        }
        // injective + surjective on classes
        let mut img: BTreeMap<u32, u32> = BTreeMap::new();
        for (&x, &y) in &map[ty] {
            if let Some(prev) = img.insert(y, x) {
                if prev != x {
                    return Err(format!(
                        "elements {}#{} and {}#{} are distinct in the first model but equal ({}) in the second",
                        p.types[ty].name, prev, p.types[ty].name, x, y
                    ));
                }
            }
        }
        for r in b.roots(ty) {
            if !img.contains_key(&r) {
                return Err(format!("element {}#{} of the second model has no counterpart in the first", p.types[ty].name, r));
            }
        }
    }
    for r in 0..p.rels.len() {
        let cols = &p.rels[r].cols;
        let mapped: std::collections::BTreeSet<Vec<u32>> =
            a.rels[r].iter().map(|t| t.iter().zip(cols.iter()).map(|(x, &ty)| map[ty][x]).collect()).collect();
        if mapped != b.rels[r] {
            let missing: Vec<&Vec<u32>> = mapped.difference(&b.rels[r]).take(3).collect();
            let extra: Vec<&Vec<u32>> = b.rels[r].difference(&mapped).take(3).collect();
            return Err(format!(
                "relation {} differs: in first only (mapped) {:?}; in second only {:?}",
                p.rels[r].name, missing, extra
            ));
        }
    }
    Ok(())
}

/// Homomorphism `a -> b` fixing the caller-created ids: equalities and tuples of `a` must hold
/// in `b`, and every element of `a` must be reachable (used for intermediate states).
pub fn homomorphic(p: &Program, a: &Model, b: &Model, fixed: &[usize]) -> Result<(), String> {
    let seeds = prefix_seeds(p, a, b, fixed)?;
    let map = extend(p, a, b, &seeds)?;
    for ty in 0..p.types.len() {
        for r in a.roots(ty) {
            if !map[ty].contains_key(&r) {
                return Err(format!("element {}#{} is not denoted by a term defined in the free model", p.types[ty].name, r));
            }
        }
    }
    for r in 0..p.rels.len() {
        let cols = &p.rels[r].cols;
        for t in &a.rels[r] {
            let m: Vec<u32> = t.iter().zip(cols.iter()).map(|(x, &ty)| map[ty][x]).collect();
            if !b.rels[r].contains(&m) {
                return Err(format!("tuple {}{:?} (mapped {:?}) does not hold in the free model", p.rels[r].name, t, m));
            }
        }
    }
    Ok(())
}

/// map[ty]: root of `a` -> root of `b`.
fn extend(p: &Program, a: &Model, b: &Model, seeds: &[(TypeId, u32, u32)]) -> Result<Vec<BTreeMap<u32, u32>>, String> {
    let nt = p.types.len();
    let mut map: Vec<BTreeMap<u32, u32>> = vec![BTreeMap::new(); nt];
    for &(ty, ia, ib) in seeds {
        if ia as usize >= a.len(ty) || ib as usize >= b.len(ty) {
            return Err(format!("model lacks caller-created element of type {}", p.types[ty].name));
        }
        let (ra, rb) = (a.find(ty, ia), b.find(ty, ib));
        match map[ty].get(&ra) {
            Some(&prev) if prev != rb => {
                return Err(format!(
                    "caller-created elements of {} are equal in the first model but not in the second (ids {} / {})",
                    p.types[ty].name, ia, ib
                ));
            }
            _ => {
                map[ty].insert(ra, rb);
            }
        }
    }
    loop {
        let mut progress = false;
        for r in 0..p.rels.len() {
            if !p.rels[r].is_func() {
                continue;
            }
            let cols = &p.rels[r].cols;
            let n = cols.len() - 1;
            let res_ty = cols[n];
            for t in &a.rels[r] {
                if map[res_ty].contains_key(&t[n]) {
                    continue;
                }
                let args: Option<Vec<u32>> = (0..n).map(|k| map[cols[k]].get(&t[k]).copied()).collect();
                if let Some(args) = args {
                    if let Some(v) = b.eval(p, r, &args) {
                        map[res_ty].insert(t[n], b.find(res_ty, v));
                        progress = true;
                    }
                }
            }
        }
        if !progress {
            break;
        }
    }
    Ok(map)
}
