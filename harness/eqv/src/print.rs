//! Pretty printer: AST -> .eql source text. Layout (comments, blank lines, indentation) is
//! varied deterministically from `Program::layout`. Also reports the 1-based line on which
//! every rule statement starts (used by C10 to compare reported error lines).

use crate::ast::*;

pub struct Printed {
    pub text: String,
    /// (rule index, statement path, 1-based line) for every statement.
    pub stmt_lines: Vec<(usize, Vec<usize>, usize)>,
    /// 1-based line of every top-level declaration in `Program::order`.
    pub decl_lines: Vec<usize>,
}

struct Lcg(u64);
impl Lcg {
    fn next(&mut self, n: u32) -> u32 {
        self.0 = self.0.wrapping_mul(6364136223846793005).wrapping_add(1442695040888963407);
        (((self.0 >> 33) as u64 * n as u64) >> 31) as u32
    }
}

pub fn term(p: &Program, t: &Term) -> String {
    match t {
        Term::Var(v) => v.clone(),
        Term::Wild => "_".to_string(),
        Term::App(f, args) => {
            let a: Vec<String> = args.iter().map(|a| term(p, a)).collect();
            match p.rels[*f].kind {
                RelKind::Dom(_) => format!("dom({})", a.join(", ")),
                RelKind::Cod(_) => format!("cod({})", a.join(", ")),
                _ => format!("{}({})", p.rels[*f].name, a.join(", ")),
            }
        }
    }
}

fn pred_atom(p: &Program, r: RelId, args: &[Term]) -> String {
    let a: Vec<String> = args.iter().map(|a| term(p, a)).collect();
    match p.rels[r].kind {
        // member predicate: the model element is written in front
        RelKind::Member(_) if !a.is_empty() => format!("{}.{}({})", a[0], p.rels[r].name, a[1..].join(", ")),
        _ => format!("{}({})", p.rels[r].name, a.join(", ")),
    }
}

fn type_name(p: &Program, t: TypeId) -> String {
    match p.types[t].kind {
        TypeKind::Mor(m) => format!("Mor({})", p.types[m].name),
        _ => p.types[t].name.clone(),
    }
}

pub fn if_atom(p: &Program, a: &IfAtom) -> String {
    match a {
        IfAtom::Pred(r, args) => pred_atom(p, *r, args),
        IfAtom::Eq(l, r) => format!("{} = {}", term(p, l), term(p, r)),
        IfAtom::Defined(t) => format!("{}!", term(p, t)),
        IfAtom::Typed(t, ty) => format!("{}: {}", term(p, t), type_name(p, *ty)),
    }
}

pub fn then_atom(p: &Program, a: &ThenAtom) -> String {
    match a {
        ThenAtom::Pred(r, args) => pred_atom(p, *r, args),
        ThenAtom::Eq(l, r) => format!("{} = {}", term(p, l), term(p, r)),
        ThenAtom::Defined(None, t) => format!("{}!", term(p, t)),
        ThenAtom::Defined(Some(v), t) => format!("{} := {}!", v, term(p, t)),
    }
}

struct Pr<'a> {
    p: &'a Program,
    out: String,
    line: usize,
    rng: Lcg,
    plain: bool,
    stmt_lines: Vec<(usize, Vec<usize>, usize)>,
}

impl<'a> Pr<'a> {
    fn nl(&mut self) {
        self.out.push('\n');
        self.line += 1;
    }
    fn emit_line(&mut self, indent: usize, s: &str) {
        let unit = if self.plain { 4 } else { 2 + 2 * (self.p.layout as usize % 2) };
        for _ in 0..indent * unit {
            self.out.push(' ');
        }
        self.out.push_str(s);
        if !self.plain && self.rng.next(12) == 0 {
            // comments with multi-byte characters: the compiler blanks comments before parsing and
            // must keep every later location (error lines!) where it was
            const TAILS: [&str; 4] = ["  // note: x = y; // nested", "  // Größe → λx. 日本語 😀", "  // naïve café ∀x∃y", "  // \u{2028}é"];
            let k = self.rng.next(TAILS.len() as u32) as usize;
            self.out.push_str(TAILS[k]);
        }
        self.nl();
    }
    fn noise(&mut self, indent: usize) {
        if self.plain {
            return;
        }
        match self.rng.next(10) {
            0 => self.nl(),
            1 => {
                const LINES: [&str; 3] = ["// a comment line", "// Übergang ⇒ «Zeile» 😀😀", "// ∀ ε > 0 ∃ δ — 漢字"];
                let k = self.rng.next(LINES.len() as u32) as usize;
                self.emit_line(indent, LINES[k]);
            }
            _ => {}
        }
    }
    fn stmts(&mut self, rule: usize, path: &mut Vec<usize>, indent: usize, stmts: &[Stmt]) {
        for (i, s) in stmts.iter().enumerate() {
            path.push(i);
            self.noise(indent);
            self.stmt_lines.push((rule, path.clone(), self.line));
            match s {
                Stmt::If(a) => {
                    let t = format!("if {};", if_atom(self.p, a));
                    self.emit_line(indent, &t);
                }
                Stmt::Then(a) => {
                    let t = format!("then {};", then_atom(self.p, a));
                    self.emit_line(indent, &t);
                }
                Stmt::Branch(blocks) => {
                    for (bi, b) in blocks.iter().enumerate() {
                        if bi == 0 {
                            self.emit_line(indent, "branch {");
                        } else {
                            self.emit_line(indent, "} along {");
                        }
                        path.push(bi);
                        self.stmts(rule, path, indent + 1, b);
                        path.pop();
                    }
                    self.emit_line(indent, "}");
                }
                Stmt::Match(t, cases) => {
                    let h = format!("match {} {{", term(self.p, t));
                    self.emit_line(indent, &h);
                    for (ci, c) in cases.iter().enumerate() {
                        let a: Vec<String> = c.args.iter().map(|a| term(self.p, a)).collect();
                        let h = match &c.raw_pattern {
                            Some(raw) => format!("{} => {{", raw),
                            None => format!("{}({}) => {{", self.p.rels[c.ctor].name, a.join(", ")),
                        };
                        self.emit_line(indent + 1, &h);
                        path.push(ci);
                        self.stmts(rule, path, indent + 2, &c.body);
                        path.pop();
                        self.emit_line(indent + 1, "}");
                    }
                    self.emit_line(indent, "}");
                }
            }
            path.pop();
        }
    }
}

pub fn rel_decl(p: &Program, r: RelId) -> String {
    let d = &p.rels[r];
    let tys: Vec<String> = d.arg_types().iter().map(|&t| type_name(p, t)).collect();
    match d.kind {
        RelKind::Pred => format!("pred {}({});", d.name, tys.join(", ")),
        // inside its model declaration, without the model column
        RelKind::Member(_) => format!("pred {}({});", d.name, tys[1..].join(", ")),
        RelKind::Dom(_) | RelKind::Cod(_) => String::new(),
        RelKind::Func => format!(
            "func {}({}) -> {};",
            d.name,
            tys.join(", "),
            type_name(p, d.result_type().unwrap())
        ),
        RelKind::Ctor(_) => format!("{}({})", d.name, tys.join(", ")),
    }
}

/// `plain = true` prints one canonical layout (used for replay files and samples).
pub fn print_with(p: &Program, plain: bool) -> Printed {
    let mut pr = Pr {
        p,
        out: String::new(),
        line: 1,
        rng: Lcg(p.layout as u64 ^ 0x9e3779b97f4a7c15),
        plain,
        stmt_lines: Vec::new(),
    };
    let mut decl_lines = Vec::new();
    for d in &p.order {
        pr.noise(0);
        decl_lines.push(pr.line);
        match *d {
            DeclRef::Type(t) => match &p.types[t].kind {
                TypeKind::Plain => {
                    let s = format!("type {};", p.types[t].name);
                    pr.emit_line(0, &s);
                }
                TypeKind::Mor(_) => {}
                TypeKind::Model(members) => {
                    let s = format!("model {} {{", p.types[t].name);
                    pr.emit_line(0, &s);
                    for m in members {
                        let s = rel_decl(p, *m);
                        pr.emit_line(1, &s);
                    }
                    pr.emit_line(0, "}");
                }
                TypeKind::Enum(ctors) => {
                    let s = format!("enum {} {{", p.types[t].name);
                    pr.emit_line(0, &s);
                    for (i, c) in ctors.iter().enumerate() {
                        let sep = if i + 1 < ctors.len() { "," } else { "" };
                        let s = format!("{}{}", rel_decl(p, *c), sep);
                        pr.emit_line(1, &s);
                    }
                    pr.emit_line(0, "}");
                }
            },
            DeclRef::Rel(r) => {
                let s = rel_decl(p, r);
                pr.emit_line(0, &s);
            }
            DeclRef::Rule(ri) => {
                let r = &p.rules[ri];
                let h = match &r.name {
                    Some(n) => format!("rule {} {{", n),
                    None => "rule {".to_string(),
                };
                pr.emit_line(0, &h);
                let mut path = Vec::new();
                pr.stmts(ri, &mut path, 1, &r.body);
                pr.emit_line(0, "}");
            }
        }
    }
    Printed { text: pr.out, stmt_lines: pr.stmt_lines, decl_lines }
}

pub fn print(p: &Program) -> Printed {
    print_with(p, false)
}

pub fn plain(p: &Program) -> String {
    print_with(p, true).text
}
