//! C03: incremental closing equals closing from scratch. A fact set (ground atoms over named
//! generators, with nested terms) is rendered into several API histories (permutations,
//! intermediate closes, duplicated assertions, generator creation order); all must end in
//! isomorphic models, and a second close() must change nothing.

use crate::ast::*;
use crate::campaign::{self, draw_programs};
use crate::evidence::{self, Evidence, KnownFindings};
use crate::flat;
use crate::gen::Tape;
use crate::hist::{self, Resp};
use crate::iso;
use crate::model::Dump;
use crate::pipeline::{self, Mode};
use crate::print;
use crate::pt;
use crate::util;
use rayon::prelude::*;
use serde::{Deserialize, Serialize};
use serde_json::json;
use std::time::{Duration, Instant};

#[derive(Clone, Debug, PartialEq, Eq, Serialize, Deserialize)]
pub enum GTerm {
    Gen(usize),
    App(RelId, Vec<GTerm>),
}

#[derive(Clone, Debug, PartialEq, Eq, Serialize, Deserialize)]
pub enum Fact {
    Rel(RelId, Vec<GTerm>),
    Eq(TypeId, GTerm, GTerm),
    Def(GTerm),
}

#[derive(Clone, Debug, PartialEq, Eq, Serialize, Deserialize)]
pub struct FactSet {
    pub gens: Vec<TypeId>,
    pub facts: Vec<Fact>,
}

fn gterm(p: &Program, t: &mut Tape, gens: &[TypeId], ty: TypeId, depth: usize) -> Option<GTerm> {
    let gs: Vec<usize> = (0..gens.len()).filter(|&g| gens[g] == ty).collect();
    let fs: Vec<RelId> = if depth < 2 { (0..p.rels.len()).filter(|&r| p.definable(r) && p.rels[r].result_type() == Some(ty)).collect() } else { vec![] };
    let w = [if gs.is_empty() { 0 } else { 5 }, if fs.is_empty() { 0 } else { 2 }];
    if w[0] + w[1] == 0 {
        return None;
    }
    if t.weighted(&w) == 0 {
        Some(GTerm::Gen(gs[t.pick(gs.len())]))
    } else {
        let f = fs[t.pick(fs.len())];
        let mut args = Vec::new();
        for &a in p.rels[f].arg_types() {
            args.push(gterm(p, t, gens, a, depth + 1)?);
        }
        Some(GTerm::App(f, args))
    }
}

pub fn gen_factset(p: &Program, tape: &[u16]) -> FactSet {
    let mut t = Tape::new(tape);
    let plain: Vec<TypeId> = (0..p.types.len()).filter(|&x| !p.is_enum(x)).collect();
    let mut gens = Vec::new();
    if !plain.is_empty() {
        let n = 1 + t.pick(5);
        for _ in 0..n {
            gens.push(plain[t.pick(plain.len())]);
        }
    }
    let n_facts = 2 + t.pick(9);
    let mut facts = Vec::new();
    for _ in 0..n_facts {
        match t.weighted(&[7, 2, 2]) {
            0 => {
                if p.rels.is_empty() {
                    continue;
                }
                let r = t.pick(p.rels.len());
                let mut args = Vec::new();
                let mut ok = true;
                for &c in &p.rels[r].cols {
                    match gterm(p, &mut t, &gens, c, 0) {
                        Some(x) => args.push(x),
                        None => {
                            ok = false;
                            break;
                        }
                    }
                }
                if ok {
                    facts.push(Fact::Rel(r, args));
                }
            }
            1 => {
                let ty = t.pick(p.types.len());
                if let (Some(a), Some(b)) = (gterm(p, &mut t, &gens, ty, 0), gterm(p, &mut t, &gens, ty, 0)) {
                    facts.push(Fact::Eq(ty, a, b));
                }
            }
            _ => {
                let ty = t.pick(p.types.len());
                if let Some(a @ GTerm::App(..)) = gterm(p, &mut t, &gens, ty, 1) {
                    facts.push(Fact::Def(a));
                }
            }
        }
    }
    FactSet { gens, facts }
}

#[derive(Clone, Debug, Default)]
pub struct Rendering {
    pub script: Vec<String>,
    /// script line of the `new` command of every generator
    pub gen_lines: Vec<usize>,
    pub first_close_line: Option<usize>,
    pub dump_lines: Vec<usize>,
    pub close_lines: Vec<usize>,
    pub has_split_close: bool,
    pub n_intermediate_closes: usize,
    pub n_partial_closes: usize,
    pub n_dups: usize,
}

struct R<'a> {
    p: &'a Program,
    out: Rendering,
    created: Vec<bool>,
    next_reg: usize,
    close_cmd: String,
}

impl<'a> R<'a> {
    fn ensure_gen(&mut self, fs: &FactSet, g: usize) {
        if !self.created[g] {
            self.created[g] = true;
            self.out.gen_lines[g] = self.out.script.len();
            self.out.script.push(format!("new {} g{}", fs.gens[g], g));
        }
    }
    fn term(&mut self, fs: &FactSet, t: &GTerm) -> String {
        match t {
            GTerm::Gen(g) => {
                self.ensure_gen(fs, *g);
                format!("$g{}", g)
            }
            GTerm::App(f, args) => {
                let a: Vec<String> = args.iter().map(|x| self.term(fs, x)).collect();
                let reg = format!("t{}", self.next_reg);
                self.next_reg += 1;
                self.out.script.push(format!("def {} {} {}", f, a.join(" "), reg).replace("  ", " "));
                format!("${}", reg)
            }
        }
    }
    fn fact(&mut self, fs: &FactSet, f: &Fact) {
        match f {
            Fact::Rel(r, args) => {
                let a: Vec<String> = args.iter().map(|x| self.term(fs, x)).collect();
                self.out.script.push(format!("ins {} {}", r, a.join(" ")));
            }
            Fact::Eq(ty, a, b) => {
                let x = self.term(fs, a);
                let y = self.term(fs, b);
                self.out.script.push(format!("eq {} {} {}", ty, x, y));
            }
            Fact::Def(t) => {
                self.term(fs, t);
            }
        }
        let _ = self.p;
    }
    fn close(&mut self) {
        self.out.close_lines.push(self.out.script.len());
        self.out.script.push(self.close_cmd.clone());
    }
}

/// plan == None: the one-shot rendering (declaration order, no intermediate close, no duplicates).
pub fn render(p: &Program, fs: &FactSet, plan: Option<&[u16]>, close_cmd: &str) -> Rendering {
    let mut r = R {
        p,
        out: Rendering { gen_lines: vec![usize::MAX; fs.gens.len()], ..Default::default() },
        created: vec![false; fs.gens.len()],
        next_reg: 0,
        close_cmd: close_cmd.to_string(),
    };
    r.out.script.push("reset".into());
    r.out.script.push("auto 0".into());
    let empty: [u16; 0] = [];
    let mut t = Tape::new(plan.unwrap_or(&empty));
    let mut order: Vec<usize> = (0..fs.facts.len()).collect();
    let mut gen_order: Vec<usize> = (0..fs.gens.len()).collect();
    let mut upfront = true;
    if plan.is_some() {
        for i in (1..order.len()).rev() {
            let j = t.pick(i + 1);
            order.swap(i, j);
        }
        for i in (1..gen_order.len()).rev() {
            let j = t.pick(i + 1);
            gen_order.swap(i, j);
        }
        upfront = t.chance(1, 2);
        // duplicated assertions
        let nd = t.pick(3);
        for _ in 0..nd {
            if !order.is_empty() {
                let f = order[t.pick(order.len())];
                let pos = t.pick(order.len() + 1);
                order.insert(pos, f);
                r.out.n_dups += 1;
            }
        }
    }
    if upfront {
        for g in gen_order {
            r.ensure_gen(fs, g);
        }
    }
    let n = order.len();
    let mut close_after: Vec<bool> = vec![false; n];
    if plan.is_some() && n > 1 {
        let k = t.pick(5);
        for _ in 0..k {
            close_after[t.pick(n - 1)] = true;
        }
    }
    // partially run closes (close_until stopping after a few evaluations of its condition) between
    // assertions: the final model must not depend on where evaluation was suspended either
    let mut partial_after: Vec<usize> = vec![0; n];
    if plan.is_some() && n > 1 {
        let k = t.pick(4);
        for _ in 0..k {
            partial_after[t.pick(n - 1)] = 1 + t.pick(4);
        }
    }
    for (i, f) in order.iter().enumerate() {
        r.fact(fs, &fs.facts[*f]);
        if partial_after[i] > 0 && !close_after[i] {
            r.out.script.push(format!("cu 0 evals {}", partial_after[i]));
            r.out.n_partial_closes += 1;
            r.out.has_split_close = true;
        }
        if close_after[i] {
            if r.out.first_close_line.is_none() {
                r.out.first_close_line = Some(r.out.script.len());
            }
            r.close();
            r.out.n_intermediate_closes += 1;
            r.out.has_split_close = true;
        }
    }
    // generators never mentioned still exist in every rendering
    for g in 0..fs.gens.len() {
        r.ensure_gen(fs, g);
    }
    r.out.dump_lines.push(r.out.script.len());
    r.out.script.push("dump".into());
    r.close();
    r.out.dump_lines.push(r.out.script.len());
    r.out.script.push("dump".into());
    r.close();
    r.out.dump_lines.push(r.out.script.len());
    r.out.script.push("dump".into());
    r.out
}

#[derive(Clone, Debug, Serialize, Deserialize)]
pub struct C03Replay {
    pub kind: String,
    pub property: String,
    pub program: Program,
    pub source: String,
    pub facts: FactSet,
    pub plans: Vec<Vec<u16>>,
    pub message: String,
    pub scripts: Vec<String>,
    pub seed: u64,
}

pub struct Outcome {
    pub finding: Option<String>,
    pub bounded: bool,
    pub nontrivial: bool,
    pub derived: bool,
    pub infra: Option<String>,
}

fn close_cmd_for(p: &Program) -> String {
    if p.has_nonsurjective() {
        "cu 0 or ids 48 evals 400".into()
    } else {
        "cu 0 evals 200000".into()
    }
}

/// Runs one fact set under the given plans (the one-shot rendering is always added first).
pub fn run_factset(p: &Program, exe: &std::path::Path, fs: &FactSet, plans: &[Vec<u16>]) -> Outcome {
    let cc = close_cmd_for(p);
    let mut rs: Vec<Rendering> = vec![render(p, fs, None, &cc)];
    for pl in plans {
        rs.push(render(p, fs, Some(pl), &cc));
    }
    let mut script = String::new();
    let mut offs = Vec::new();
    let mut n = 0;
    for r in &rs {
        offs.push(n);
        for l in &r.script {
            script.push_str(l);
            script.push('\n');
        }
        n += r.script.len();
    }
    let out = match pipeline::run_driver(exe, &script, Duration::from_secs(30), &[]) {
        Ok(o) => o,
        Err(e) => return Outcome { finding: None, bounded: false, nontrivial: false, derived: false, infra: Some(e.to_string()) },
    };
    if out.timed_out {
        return Outcome { finding: None, bounded: true, nontrivial: false, derived: false, infra: Some("timeout".into()) };
    }
    let resps = hist::parse_transcript(&out.stdout_str(), n);
    let mut finals: Vec<(Dump, Vec<u32>)> = Vec::new();
    let mut derived = false;
    for (ri, r) in rs.iter().enumerate() {
        let rr: &[Resp] = &resps[offs[ri]..offs[ri] + r.script.len()];
        for (li, resp) in rr.iter().enumerate() {
            if let Some(m) = resp.panic_msg() {
                return Outcome { finding: Some(format!("rendering {}: `{}` panicked: {}", ri, r.script[li], m)), bounded: false, nontrivial: false, derived, infra: None };
            }
        }
        for &cl in &r.close_lines {
            match rr[cl].cu() {
                Some((true, _, _)) => return Outcome { finding: None, bounded: true, nontrivial: false, derived, infra: None },
                Some(_) => {}
                None => return Outcome { finding: None, bounded: false, nontrivial: false, derived, infra: Some("no cu response".into()) },
            }
        }
        let mut ids = Vec::new();
        for g in 0..fs.gens.len() {
            match rr[r.gen_lines[g]].id() {
                Some((id, _)) => ids.push(id),
                None => return Outcome { finding: None, bounded: false, nontrivial: false, derived, infra: Some("no id for generator".into()) },
            }
        }
        let dumps: Vec<Dump> = match r.dump_lines.iter().map(|&dl| rr[dl].last_dump(p).map(|d| d.ok_or("missing dump".to_string())).and_then(|x| x)).collect::<Result<Vec<_>, _>>() {
            Ok(d) => d,
            Err(e) => return Outcome { finding: None, bounded: false, nontrivial: false, derived, infra: Some(e) },
        };
        // idempotence: the second close changes nothing observable (ids, roots, iteration)
        if dumps[1] != dumps[2] {
            return Outcome {
                finding: Some(format!("rendering {}: close() on a closed model changed the public state", ri)),
                bounded: false,
                nontrivial: false,
                derived,
                infra: None,
            };
        }
        if ri == 0 && dumps[0].to_model(p) != dumps[1].to_model(p) {
            derived = true;
        }
        finals.push((dumps[1].clone(), ids));
    }
    let base = finals[0].0.to_model(p);
    for ri in 1..finals.len() {
        let m = finals[ri].0.to_model(p);
        let seeds: Vec<(TypeId, u32, u32)> = (0..fs.gens.len()).map(|g| (fs.gens[g], finals[0].1[g], finals[ri].1[g])).collect();
        if let Err(e) = iso::isomorphic_with(p, &base, &m, &seeds) {
            return Outcome {
                finding: Some(format!(
                    "rendering {} ({} intermediate closes, {} partially run closes, {} duplicated assertions) ends in a different model than the one-shot rendering: {}",
                    ri, rs[ri].n_intermediate_closes, rs[ri].n_partial_closes, rs[ri].n_dups, e
                )),
                bounded: false,
                nontrivial: false,
                derived,
                infra: None,
            };
        }
    }
    let nontrivial = derived && rs.iter().any(|r| r.has_split_close);
    Outcome { finding: None, bounded: false, nontrivial, derived, infra: None }
}

pub fn run_c03(tier: &str, seed: u64) -> campaign::CampaignResult {
    let start = Instant::now();
    let thorough = tier == "thorough";
    let (np, nf, k) = if thorough { (400, 100, 10) } else { (48, 60, 6) };
    let np = std::env::var("EQV_NPROG").ok().and_then(|v| v.parse().ok()).unwrap_or(np);
    let nf = std::env::var("EQV_NHIST").ok().and_then(|v| v.parse().ok()).unwrap_or(nf);
    let known = KnownFindings::load();
    let mut ev = Evidence::new("C03", tier, seed, "exploration");
    let profiles = vec!["surjective".to_string(), "stratified".to_string(), "free".to_string(), "medium".to_string()];
    let programs = draw_programs(seed, &profiles, np);
    struct PP {
        built: bool,
        outcomes: Vec<(bool, bool, bool, u64)>,
        finding: Option<(FactSet, Vec<Vec<u16>>, String)>,
        sample: Option<serde_json::Value>,
        infra: usize,
    }
    let items: Vec<(&Program, &str)> = programs.iter().map(|pc| (&pc.program, pc.source.as_str())).collect();
    let builts = pipeline::build_all(&items, Mode::Module);
    let results: Vec<PP> = programs
        .par_iter()
        .zip(builts.into_par_iter())
        .map(|(pc, built)| {
            let mut pp = PP { built: false, outcomes: vec![], finding: None, sample: None, infra: 0 };
            let built = match built {
                Ok(b) => b,
                Err(_) => return pp,
            };
            pp.built = true;
            let tapes = pt::draw_tapes(seed ^ 0xC03, nf * (k + 1), 120);
            let _ = &tapes;
            let tapes = pt::draw_tapes(seed.wrapping_add(0xC03).wrapping_add(pc.index as u64 * 7919), nf * (k + 1), 120);
            for fi in 0..nf {
                let fs = gen_factset(&pc.program, &tapes[fi * (k + 1)]);
                if fs.facts.is_empty() {
                    continue;
                }
                let plans: Vec<Vec<u16>> = (1..=k).map(|j| tapes[fi * (k + 1) + j].clone()).collect();
                let o = run_factset(&pc.program, &built.exe, &fs, &plans);
                if o.infra.is_some() {
                    pp.infra += 1;
                    // closes that keep running into the watchdog: give the program up (inconclusive)
                    if pp.infra >= 4 {
                        break;
                    }
                }
                let fp = util::hash64(&[pc.source.as_bytes(), serde_json::to_string(&fs).unwrap().as_bytes()]);
                pp.outcomes.push((o.bounded, o.nontrivial, o.derived, fp));
                if pp.sample.is_none() && o.nontrivial {
                    let cc = close_cmd_for(&pc.program);
                    pp.sample = Some(json!({"program": print::plain(&pc.program), "one_shot": render(&pc.program, &fs, None, &cc).script, "a_rendering": render(&pc.program, &fs, Some(&plans[0]), &cc).script}));
                }
                if let Some(msg) = o.finding {
                    // shrink: fewer plans, fewer facts
                    let mut fs2 = fs.clone();
                    let mut plans2 = plans.clone();
                    for j in 0..plans.len() {
                        let single = vec![plans[j].clone()];
                        if run_factset(&pc.program, &built.exe, &fs2, &single).finding.is_some() {
                            plans2 = single;
                            break;
                        }
                    }
                    let mut i = 0;
                    while i < fs2.facts.len() {
                        let mut c = fs2.clone();
                        c.facts.remove(i);
                        if !c.facts.is_empty() && run_factset(&pc.program, &built.exe, &c, &plans2).finding.is_some() {
                            fs2 = c;
                        } else {
                            i += 1;
                        }
                    }
                    let msg2 = run_factset(&pc.program, &built.exe, &fs2, &plans2).finding.unwrap_or(msg);
                    pp.finding = Some((fs2, plans2, msg2));
                    break;
                }
            }
            pp
        })
        .collect();
    let mut violations = 0;
    let mut built = 0u64;
    for (pc, pp) in programs.iter().zip(results.iter()) {
        if !pp.built {
            ev.count("programs_not_built", 1);
            continue;
        }
        built += 1;
        campaign::program_features(&pc.program, &mut ev);
        ev.count("infra_problems", pp.infra as u64);
        for (bounded, nt, derived, fp) in &pp.outcomes {
            ev.evaluations += 1;
            if *bounded {
                ev.count("factsets.discarded_unbounded", 1);
            }
            if *derived {
                ev.count("factsets.with_derivation", 1);
            }
            if *nt {
                ev.nontrivial.insert(*fp);
            }
        }
        if let Some(s) = &pp.sample {
            ev.sample(s.clone(), 3);
        }
        if let Some((fs, plans, msg)) = &pp.finding {
            let budget = if violations >= 3 { 0 } else { 30 };
            let reduced = campaign::reduce_program_with(&pc.program, budget, &|q, _rules, b| run_factset(q, &b.exe, fs, plans).finding.is_some());
            let src = print::plain(&reduced);
            let cc = close_cmd_for(&reduced);
            let mut scripts = vec![render(&reduced, fs, None, &cc).script.join("\n")];
            for pl in plans {
                scripts.push(render(&reduced, fs, Some(pl), &cc).script.join("\n"));
            }
            let rep = C03Replay { kind: "c03".into(), property: "C03".into(), program: reduced, source: src, facts: fs.clone(), plans: plans.clone(), message: msg.clone(), scripts, seed };
            let sig = format!("C03:{}", msg.chars().map(|c| if c.is_ascii_digit() { '#' } else { c }).take(90).collect::<String>());
            if let Some(kf) = known.known("C03", &sig) {
                println!("KNOWN-FINDING: property=C03 {}", kf.what);
                continue;
            }
            let path = evidence::write_replay("C03", "factset", &serde_json::to_value(&rep).unwrap());
            eprintln!("violation of C03: {}\n  signature: {}", msg, sig);
            evidence::print_violation("C03", &path);
            violations += 1;
        }
    }
    ev.count("programs_built", built);
    ev.count("renderings_per_factset", (k + 1) as u64);
    ev.extra.insert("programs".into(), json!(built));
    ev.rule = format!("fact sets (ground atoms with nested terms over named generators) from a proptest tape, each rendered into 1 one-shot history + {} histories (permuted assertions, 0-4 intermediate closes, 0-3 partially run closes = close_until stopped after 1-4 evaluations, duplicated assertions, generator creation order); evaluations = fact sets; non-trivial = the final close derives something and some rendering has an intermediate close between assertions; distinct by hash(program, fact set)", k);
    ev.assumptions = vec!["the isomorphism finder is correct; closes of programs with `!` are bounded, bounded fact sets are discarded".into()];
    ev.violations = violations as u64;
    ev.wall_s = start.elapsed().as_secs_f64();
    ev.write();
    println!("C03 {} seed={} programs={} factsets={} nontrivial={} violations={} wall={:.1}s", tier, seed, built, ev.evaluations, ev.nontrivial.len(), violations, ev.wall_s);
    campaign::CampaignResult { violations, inconclusive: built == 0 }
}

pub fn replay_c03(rep: &C03Replay) -> Result<Option<String>, String> {
    let _ = flat::flatten_program(&rep.program);
    let built = pipeline::build_driver(&rep.program, &rep.source, Mode::Module).map_err(|e| format!("{:?}", e))?;
    let o = run_factset(&rep.program, &built.exe, &rep.facts, &rep.plans);
    if let Some(i) = o.infra {
        return Err(i);
    }
    Ok(o.finding)
}
