//! Process helpers (rlimit + watchdog), scratch directories, hashing.

use sha2::{Digest, Sha256};
use std::io::{Read, Write};
use std::os::unix::process::ExitStatusExt;
use std::path::{Path, PathBuf};
use std::process::{Command, Stdio};
use std::sync::atomic::{AtomicUsize, Ordering};
use std::time::{Duration, Instant};

pub const VERIF: &str = "/verif";
pub const REPO: &str = "/repo";

pub fn cache_dir() -> PathBuf {
    PathBuf::from(VERIF).join(".cache")
}

static SCRATCH_N: AtomicUsize = AtomicUsize::new(0);

/// A scratch directory under /verif/.cache/scratch that is removed on drop.
pub struct Scratch {
    pub path: PathBuf,
    keep: bool,
}

impl Scratch {
    pub fn new(tag: &str) -> Scratch {
        let n = SCRATCH_N.fetch_add(1, Ordering::SeqCst);
        let base = std::env::var("EQV_SCRATCH").map(PathBuf::from).unwrap_or_else(|_| cache_dir().join("scratch"));
        let path = base.join(format!("{}-{}-{}", tag, std::process::id(), n));
        let _ = std::fs::remove_dir_all(&path);
        std::fs::create_dir_all(&path).expect("create scratch dir");
        Scratch { path, keep: std::env::var("EQV_KEEP").is_ok() }
    }
    pub fn join(&self, p: &str) -> PathBuf {
        self.path.join(p)
    }
}

impl Drop for Scratch {
    fn drop(&mut self) {
        if !self.keep {
            let _ = std::fs::remove_dir_all(&self.path);
        }
    }
}

pub fn sha_hex(parts: &[&[u8]]) -> String {
    let mut h = Sha256::new();
    for p in parts {
        h.update((p.len() as u64).to_le_bytes());
        h.update(p);
    }
    let d = h.finalize();
    d.iter().map(|b| format!("{:02x}", b)).collect()
}

pub fn hash64(parts: &[&[u8]]) -> u64 {
    let h = sha_hex(parts);
    u64::from_str_radix(&h[..16], 16).unwrap()
}

#[derive(Debug, Clone)]
pub struct Output {
    /// exit code, or None when killed by a signal
    pub code: Option<i32>,
    pub signal: Option<i32>,
    pub stdout: Vec<u8>,
    pub stderr: Vec<u8>,
    pub timed_out: bool,
    pub wall: Duration,
}

impl Output {
    pub fn stdout_str(&self) -> String {
        String::from_utf8_lossy(&self.stdout).into_owned()
    }
    pub fn stderr_str(&self) -> String {
        String::from_utf8_lossy(&self.stderr).into_owned()
    }
    pub fn ok(&self) -> bool {
        self.code == Some(0) && !self.timed_out
    }
}

/// Runs a command with an address-space limit and a wall-clock watchdog. A timeout is reported
/// through `timed_out` and is never interpreted as a property violation by callers.
pub fn run(cmd: &mut Command, stdin: Option<&[u8]>, timeout: Duration, mem_bytes: u64) -> std::io::Result<Output> {
    cmd.stdin(if stdin.is_some() { Stdio::piped() } else { Stdio::null() });
    cmd.stdout(Stdio::piped());
    cmd.stderr(Stdio::piped());
    let _ = mem_bytes;
    let start = Instant::now();
    let mut child = cmd.spawn()?;
    if mem_bytes > 0 {
        // set the limit from the parent (keeps Command on the fast posix_spawn path)
        let lim = libc::rlimit { rlim_cur: mem_bytes, rlim_max: mem_bytes };
        unsafe {
            libc::prlimit(child.id() as libc::pid_t, libc::RLIMIT_AS, &lim, std::ptr::null_mut());
        }
    }
    let mut so = child.stdout.take().unwrap();
    let mut se = child.stderr.take().unwrap();
    let t_out = std::thread::spawn(move || {
        let mut v = Vec::new();
        let _ = so.read_to_end(&mut v);
        v
    });
    let t_err = std::thread::spawn(move || {
        let mut v = Vec::new();
        let _ = se.read_to_end(&mut v);
        v
    });
    let t_in = if let Some(data) = stdin {
        let mut si = child.stdin.take().unwrap();
        let data = data.to_vec();
        Some(std::thread::spawn(move || {
            let _ = si.write_all(&data);
        }))
    } else {
        None
    };
    let mut timed_out = false;
    let status = loop {
        match child.try_wait()? {
            Some(s) => break s,
            None => {
                if start.elapsed() > timeout {
                    timed_out = true;
                    let _ = child.kill();
                    break child.wait()?;
                }
                std::thread::sleep(Duration::from_millis(2));
            }
        }
    };
    if let Some(t) = t_in {
        let _ = t.join();
    }
    let stdout = t_out.join().unwrap_or_default();
    let stderr = t_err.join().unwrap_or_default();
    Ok(Output {
        code: status.code(),
        signal: status.signal(),
        stdout,
        stderr,
        timed_out,
        wall: start.elapsed(),
    })
}

pub fn read_to_string(p: &Path) -> String {
    std::fs::read_to_string(p).unwrap_or_else(|e| panic!("reading {}: {}", p.display(), e))
}

/// All regular files below `root`, as sorted relative paths.
pub fn walk(root: &Path) -> Vec<PathBuf> {
    fn go(root: &Path, rel: &Path, out: &mut Vec<PathBuf>) {
        let dir = root.join(rel);
        let rd = match std::fs::read_dir(&dir) {
            Ok(r) => r,
            Err(_) => return,
        };
        for e in rd.flatten() {
            let name = e.file_name();
            let r = rel.join(&name);
            match e.file_type() {
                Ok(t) if t.is_dir() => go(root, &r, out),
                Ok(_) => out.push(r),
                Err(_) => {}
            }
        }
    }
    let mut out = Vec::new();
    go(root, Path::new(""), &mut out);
    out.sort();
    out
}
