//! Semantic campaigns (C01, C02, C04, C05, C06, C15 dynamic part): generated programs x
//! generated API histories, judged by `sem::Judge`.

use crate::ast::*;
use crate::evidence::{self, Evidence, KnownFindings};
use crate::flat;
use crate::gen::{self, Profile};
use crate::hist::{self, Op, RenderOpts};
use crate::pipeline::{self, BuildError, Mode};
use crate::print;
use crate::pt;
use crate::sem::{Finding, HistStats, Judge, Oracles};
use crate::util;
use proptest::strategy::{Strategy, ValueTree};
use rayon::prelude::*;
use serde::{Deserialize, Serialize};
use serde_json::json;
use std::time::{Duration, Instant};

#[derive(Clone, Debug, Serialize, Deserialize)]
pub struct SemSpec {
    pub property: String,
    pub profiles: Vec<String>,
    pub n_programs: usize,
    pub n_hist: usize,
    pub max_ops: usize,
    pub auto: u8,
    pub xq_cap: usize,
    pub cases: bool,
    pub with_steps: bool,
}

pub fn oracles_for(prop: &str) -> Oracles {
    let mut o = Oracles::default();
    match prop {
        "C01" => o.c01 = true,
        "C02" => {
            o.c02 = true;
            o.c02_ids = std::env::var("EQV_C02_IDS").map(|v| v != "0").unwrap_or(true);
        }
        "C04" => o.c04 = true,
        "C05" => o.c05 = true,
        "C06" => o.c06 = true,
        "C15" => o.c15 = true,
        _ => {}
    }
    o
}

pub fn spec_for(prop: &str, tier: &str) -> SemSpec {
    let thorough = tier == "thorough";
    let (np, nh) = match (prop, thorough) {
        ("C05", false) => (64, 150),
        ("C05", true) => (1000, 400),
        ("C15", false) => (48, 100),
        ("C15", true) => (1000, 300),
        (_, false) => (64, 120),
        (_, true) => (1500, 400),
    };
    let profiles: Vec<String> = match prop {
        "C06" => vec!["surjective".into()],
        "C15" => vec!["with_enums".into()],
        "C05" => vec!["surjective".into(), "stratified".into(), "free".into()],
        _ => vec!["surjective".into(), "stratified".into(), "free".into(), "medium".into()],
    };
    let np = std::env::var("EQV_NPROG").ok().and_then(|v| v.parse().ok()).unwrap_or(np);
    let nh = std::env::var("EQV_NHIST").ok().and_then(|v| v.parse().ok()).unwrap_or(nh);
    SemSpec {
        property: prop.into(),
        profiles,
        n_programs: np,
        n_hist: nh,
        max_ops: 22,
        auto: if prop == "C04" { 2 } else { 1 },
        xq_cap: if prop == "C04" { 4000 } else { 0 },
        cases: prop == "C04" || prop == "C15",
        with_steps: true,
    }
}

pub fn render_opts(p: &Program, spec: &SemSpec) -> RenderOpts {
    RenderOpts {
        auto: spec.auto,
        id_bound: if p.has_nonsurjective() { Some(48) } else { None },
        max_evals: if p.has_nonsurjective() { 400 } else { 200_000 },
        final_close: true,
        with_steps: spec.with_steps,
        xq_cap: spec.xq_cap,
        cases: spec.cases,
        observe: if spec.property == "C04" { 2 } else { 0 },
    }
}

pub struct ProgramCase {
    pub index: usize,
    pub profile: Profile,
    pub program: Program,
    pub source: String,
}

pub fn draw_programs(seed: u64, profiles: &[String], n: usize) -> Vec<ProgramCase> {
    let tapes = pt::draw_tapes(seed, n, 700);
    tapes
        .into_iter()
        .enumerate()
        .map(|(i, tape)| {
            let profile = Profile::by_name(&profiles[i % profiles.len()]).expect("profile");
            let program = gen::gen_program(&tape, &profile);
            let source = print::print(&program).text;
            ProgramCase { index: i, profile, program, source }
        })
        .collect()
}

#[derive(Clone, Debug, Serialize, Deserialize)]
pub struct SemReplay {
    pub kind: String,
    pub property: String,
    pub profile: String,
    pub program: Program,
    pub source: String,
    pub history: Vec<Op>,
    pub spec: SemSpec,
    pub message: String,
    pub script: String,
    pub seed: u64,
}

pub struct RunOut {
    pub findings: Vec<Finding>,
    pub stats: Vec<HistStats>,
    pub timed_out: bool,
    pub crashed: Option<String>,
}

/// Runs a batch of histories against a built driver and judges each one.
pub fn run_histories(p: &Program, rules: &[flat::FlatRule], exe: &std::path::Path, spec: &SemSpec, hs: &[Vec<Op>]) -> RunOut {
    let ro = render_opts(p, spec);
    let mut all = Vec::new();
    let mut spans = Vec::new();
    for h in hs {
        let cmds = hist::render(p, h, &ro);
        spans.push((all.len(), cmds.len()));
        all.extend(cmds);
    }
    let script = hist::script(&all);
    let timeout = Duration::from_secs(20 + hs.len() as u64);
    let t0 = Instant::now();
    let out = match pipeline::run_driver(exe, &script, timeout, &[]) {
        Ok(o) => o,
        Err(e) => return RunOut { findings: vec![], stats: vec![], timed_out: false, crashed: Some(e.to_string()) },
    };
    let t_drv = t0.elapsed();
    let resps = hist::parse_transcript(&out.stdout_str(), all.len());
    let judge = Judge {
        p,
        rules,
        or: oracles_for(&spec.property),
        bounds: Default::default(),
        id_bound: ro.id_bound,
        max_evals: ro.max_evals,
    };
    let mut findings = Vec::new();
    let mut stats = Vec::new();
    for (hi, (start, len)) in spans.iter().enumerate() {
        let _ = hi;
        let (f, s) = judge.judge(&all[*start..*start + *len], &resps[*start..*start + *len], *start);
        findings.extend(f);
        stats.push(s);
    }
    if std::env::var("EQV_TIMING").is_ok() {
        eprintln!("timing: driver {:.2}s ({} KB out), judge+parse {:.2}s, {} histories", t_drv.as_secs_f64(), out.stdout.len() / 1024, t0.elapsed().as_secs_f64() - t_drv.as_secs_f64(), hs.len());
    }
    let crashed = if !out.timed_out && out.code != Some(0) {
        Some(format!("driver exit {:?} signal {:?}: {}", out.code, out.signal, out.stderr_str().lines().last().unwrap_or("")))
    } else {
        None
    };
    RunOut { findings, stats, timed_out: out.timed_out, crashed }
}

fn nontrivial(prop: &str, p: &Program, s: &HistStats) -> bool {
    let multi_premise = flat_has_multi_premise(p);
    match prop {
        "C01" => s.judged_closes > 0 && s.derived_something && multi_premise,
        "C02" => s.judged_closes > 0 && (s.merges > 0 || s.created > 0) && !s.chase_bounded,
        "C04" => s.judged_closes > 0 && (s.merges > 0 || s.equates_distinct > 0),
        "C05" => s.define_hits > 0 && s.define_misses > 0 && s.equates_distinct > 0 && s.clean_queries > 0 && s.dirty_queries > 0,
        "C06" => s.judged_closes > 0 && s.merges > 0 && s.max_evals >= 3,
        "C15" => s.enum_elements_checked > 0 && s.judged_closes > 0,
        _ => false,
    }
}

fn flat_has_multi_premise(p: &Program) -> bool {
    fn count_ifs(stmts: &[Stmt]) -> usize {
        stmts
            .iter()
            .map(|s| match s {
                Stmt::If(_) => 1,
                Stmt::Match(_, cs) => 1 + cs.iter().map(|c| count_ifs(&c.body)).max().unwrap_or(0),
                Stmt::Branch(bs) => bs.iter().map(|b| count_ifs(b)).max().unwrap_or(0),
                _ => 0,
            })
            .sum()
    }
    p.rules.iter().any(|r| count_ifs(&r.body) >= 2)
}

pub fn program_features(p: &Program, ev: &mut Evidence) {
    fn walk_terms(t: &Term, depth: usize, maxd: &mut usize) {
        if let Term::App(_, a) = t {
            *maxd = (*maxd).max(depth + 1);
            a.iter().for_each(|x| walk_terms(x, depth + 1, maxd));
        }
    }
    fn repeated(args: &[Term]) -> usize {
        let mut vs: Vec<&String> = args.iter().filter_map(|a| if let Term::Var(v) = a { Some(v) } else { None }).collect();
        vs.sort();
        let n = vs.len();
        vs.dedup();
        n - vs.len()
    }
    fn go(stmts: &[Stmt], ev: &mut Evidence, seen_then: &mut bool) {
        for s in stmts {
            match s {
                Stmt::If(a) => {
                    if *seen_then {
                        ev.count("prog.if_after_then", 1);
                    }
                    match a {
                        IfAtom::Pred(_, args) => {
                            let r = repeated(args);
                            if r == 1 {
                                ev.count("prog.atom_repeated_var_once", 1);
                            }
                            if r >= 2 {
                                ev.count("prog.atom_repeated_var_multi", 1);
                            }
                            let mut d = 0;
                            args.iter().for_each(|t| walk_terms(t, 0, &mut d));
                            if d >= 1 {
                                ev.count("prog.nested_term_in_if", 1);
                            }
                            if d >= 2 {
                                ev.count("prog.nested_term_depth2", 1);
                            }
                        }
                        IfAtom::Eq(..) => ev.count("prog.premise_equality", 1),
                        IfAtom::Defined(_) => ev.count("prog.premise_defined", 1),
                        IfAtom::Typed(..) => ev.count("prog.premise_typed", 1),
                    }
                }
                Stmt::Then(a) => {
                    *seen_then = true;
                    match a {
                        ThenAtom::Pred(..) => ev.count("prog.then_pred", 1),
                        ThenAtom::Eq(..) => ev.count("prog.then_eq", 1),
                        ThenAtom::Defined(None, _) => ev.count("prog.then_bang", 1),
                        ThenAtom::Defined(Some(_), _) => ev.count("prog.then_bang_named", 1),
                    }
                }
                Stmt::Branch(bs) => {
                    ev.count("prog.branch", 1);
                    for b in bs {
                        let mut st = *seen_then;
                        go(b, ev, &mut st);
                    }
                }
                Stmt::Match(_, cs) => {
                    ev.count("prog.match", 1);
                    for c in cs {
                        let mut st = *seen_then;
                        go(&c.body, ev, &mut st);
                    }
                }
            }
        }
    }
    for r in &p.rules {
        let mut st = false;
        if matches!(r.body.first(), Some(Stmt::Then(_))) {
            ev.count("prog.rule_empty_premise_then_first", 1);
        }
        go(&r.body, ev, &mut st);
    }
    if p.has_nonsurjective() {
        ev.count("prog.with_bang", 1);
    }
    if p.types.iter().any(|t| matches!(t.kind, TypeKind::Enum(_))) {
        ev.count("prog.with_enum", 1);
    }
}

/// Shrinks a failing history with proptest's value tree against the live driver.
fn shrink_history(
    p: &Program,
    rules: &[flat::FlatRule],
    exe: &std::path::Path,
    spec: &SemSpec,
    tree: Box<dyn ValueTree<Value = Vec<Op>>>,
    prop: &str,
) -> Vec<Op> {
    struct Wrap(Box<dyn ValueTree<Value = Vec<Op>>>);
    impl ValueTree for Wrap {
        type Value = Vec<Op>;
        fn current(&self) -> Vec<Op> {
            self.0.current()
        }
        fn simplify(&mut self) -> bool {
            self.0.simplify()
        }
        fn complicate(&mut self) -> bool {
            self.0.complicate()
        }
    }
    let prop = prop.to_string();
    pt::shrink(
        Wrap(tree),
        |h| {
            let r = run_histories(p, rules, exe, spec, &[h.clone()]);
            r.findings.iter().any(|f| f.prop == prop)
        },
        400,
    )
}

fn stmt_count(stmts: &[Stmt]) -> usize {
    stmts
        .iter()
        .map(|s| match s {
            Stmt::Branch(bs) => 1 + bs.iter().map(|b| stmt_count(b)).sum::<usize>(),
            Stmt::Match(_, cs) => 1 + cs.iter().map(|c| stmt_count(&c.body)).sum::<usize>(),
            _ => 1,
        })
        .sum()
}

/// All programs obtained by deleting one rule or one statement.
pub fn reductions_pub(p: &Program) -> Vec<Program> {
    reductions(p)
}

fn reductions(p: &Program) -> Vec<Program> {
    let mut out = Vec::new();
    for ri in 0..p.rules.len() {
        if p.rules.len() > 1 {
            let mut q = p.clone();
            q.rules.remove(ri);
            q.order = q
                .order
                .iter()
                .filter_map(|d| match d {
                    DeclRef::Rule(r) if *r == ri => None,
                    DeclRef::Rule(r) if *r > ri => Some(DeclRef::Rule(r - 1)),
                    other => Some(*other),
                })
                .collect();
            out.push(q);
        }
    }
    fn remove_nth(stmts: &mut Vec<Stmt>, n: &mut usize) -> bool {
        let mut i = 0;
        while i < stmts.len() {
            if *n == 0 {
                stmts.remove(i);
                return true;
            }
            *n -= 1;
            match &mut stmts[i] {
                Stmt::Branch(bs) => {
                    for b in bs.iter_mut() {
                        if remove_nth(b, n) {
                            return true;
                        }
                    }
                }
                Stmt::Match(_, cs) => {
                    for c in cs.iter_mut() {
                        if remove_nth(&mut c.body, n) {
                            return true;
                        }
                    }
                }
                _ => {}
            }
            i += 1;
        }
        false
    }
    for ri in 0..p.rules.len() {
        let total = stmt_count(&p.rules[ri].body);
        for k in 0..total {
            let mut q = p.clone();
            let mut n = k;
            if remove_nth(&mut q.rules[ri].body, &mut n) {
                out.push(q);
            }
        }
    }
    out
}

/// Greedy program reduction: keep a deletion if the program is still accepted by the compiler
/// and `fails` still reports the failure.
pub fn reduce_program_with(p: &Program, budget: usize, fails: &dyn Fn(&Program, &[flat::FlatRule], &pipeline::Built) -> bool) -> Program {
    let mut best = p.clone();
    let mut used = 0;
    'outer: loop {
        for q in reductions(&best) {
            if used >= budget {
                break 'outer;
            }
            used += 1;
            let rules = match flat::flatten_program(&q) {
                Ok(r) => r,
                Err(_) => continue,
            };
            let src = print::plain(&q);
            let built = match pipeline::build_driver(&q, &src, Mode::Module) {
                Ok(b) => b,
                Err(_) => continue,
            };
            if fails(&q, &rules, &built) {
                best = q;
                continue 'outer;
            }
        }
        break;
    }
    best
}

fn reduce_program(p: &Program, spec: &SemSpec, h: &[Op], prop: &str, budget: usize) -> Program {
    reduce_program_with(p, budget, &|q, rules, built| {
        let r = run_histories(q, rules, &built.exe, spec, &[h.to_vec()]);
        r.findings.iter().any(|f| f.prop == prop)
    })
}

/// C15, static part: the API offers no way to make an enum element except through a
/// constructor, and the compiler rejects rules that would make a non-constructor term of enum
/// type defined. Returns the number of mutants tried.
pub fn c15_static(p: &Program, module_text: &str) -> std::result::Result<usize, String> {
    for t in 0..p.types.len() {
        if !p.is_enum(t) {
            continue;
        }
        let sn = snake(&p.types[t].name);
        if module_text.contains(&format!("pub fn new_{}(&mut self, )", sn)) || module_text.contains(&format!("pub fn new_{}(&mut self)", sn)) {
            return Err(format!("the API offers new_{}() without a constructor case", sn));
        }
        if !module_text.contains(&format!("pub fn new_{}(&mut self, value: ", sn)) {
            return Err(format!("the API lacks new_{}(case)", sn));
        }
    }
    let mut mutants = 0;
    for r in 0..p.rels.len() {
        let d = &p.rels[r];
        if d.kind != RelKind::Func || !p.is_enum(d.result_type().unwrap()) {
            continue;
        }
        if module_text.contains(&format!("pub fn define_{}(", snake(&d.name))) {
            return Err(format!("the API offers define_{} although {} is not a constructor of its enum result type", snake(&d.name), d.name));
        }
        // mutants: a rule that makes f(args) defined
        for named in [false, true] {
            let mut q = p.clone();
            let mut body: Vec<Stmt> = Vec::new();
            let args: Vec<Term> = d.arg_types().iter().enumerate().map(|(i, _)| Term::Var(format!("v_{}", (b'a' + i as u8) as char))).collect();
            for (i, &ty) in d.arg_types().iter().enumerate() {
                body.push(Stmt::If(IfAtom::Typed(args[i].clone(), ty)));
                // second occurrence is the use below
            }
            if named {
                body.push(Stmt::Then(ThenAtom::Defined(Some("res".into()), Term::App(r, args.clone()))));
                body.push(Stmt::Then(ThenAtom::Eq(Term::Var("res".into()), Term::Var("res".into()))));
            } else {
                body.push(Stmt::Then(ThenAtom::Defined(None, Term::App(r, args.clone()))));
            }
            q.rules.push(Rule { name: None, body });
            q.order.push(DeclRef::Rule(q.rules.len() - 1));
            let src = print::plain(&q);
            let s = util::Scratch::new("c15m");
            let sd = s.join("src");
            std::fs::create_dir_all(&sd).unwrap();
            std::fs::write(sd.join("thy.eql"), &src).unwrap();
            let out = s.join("out");
            let run = pipeline::run_cli(&pipeline::CliOpts { src: &sd, out: &out, component_out: None, rustc_path: None, threads: None, envs: vec![], cwd: None });
            mutants += 1;
            if run.accepted() {
                return Err(format!("the compiler accepts a rule that makes the non-constructor term {}(..) of enum type {} defined:\n{}", d.name, p.types[d.result_type().unwrap()].name, src));
            }
            if run.crashed() {
                return Err(format!("the compiler crashes on a rule that makes a non-constructor term of enum type defined (exit {:?})", run.out.code));
            }
        }
    }
    Ok(mutants)
}

pub struct CampaignResult {
    pub violations: usize,
    pub inconclusive: bool,
}

pub fn run_sem_campaign(prop: &'static str, tier: &str, seed: u64) -> CampaignResult {
    let start = Instant::now();
    let spec = spec_for(prop, tier);
    let known = KnownFindings::load();
    let mut ev = Evidence::new(prop, tier, seed, "exploration");
    let programs = draw_programs(seed, &spec.profiles, spec.n_programs);
    struct PerProgram {
        index: usize,
        build: Result<(), String>,
        findings: Vec<(Finding, Vec<Op>, String)>,
        stats: Vec<(HistStats, u64)>,
        sample: Option<serde_json::Value>,
        timed_out: bool,
        anomalies: Vec<String>,
        static_mutants: usize,
        static_finding: Option<String>,
    }
    let items: Vec<(&Program, &str)> = programs.iter().map(|pc| (&pc.program, pc.source.as_str())).collect();
    let builts = pipeline::build_all(&items, Mode::Module);
    let results: Vec<PerProgram> = programs
        .par_iter()
        .zip(builts.into_par_iter())
        .map(|(pc, built)| {
            let mut pp = PerProgram { index: pc.index, build: Ok(()), findings: vec![], stats: vec![], sample: None, timed_out: false, anomalies: vec![], static_mutants: 0, static_finding: None };
            let rules = match flat::flatten_program(&pc.program) {
                Ok(r) => r,
                Err(e) => {
                    pp.build = Err(format!("reference elaboration failed: {}", e));
                    return pp;
                }
            };
            let built = match built {
                Ok(b) => b,
                Err(BuildError::Rejected(r)) => {
                    pp.build = Err(format!("rejected: {}", r.out.stderr_str().lines().next().unwrap_or("")));
                    return pp;
                }
                Err(e) => {
                    pp.build = Err(format!("{:?}", e).chars().take(300).collect());
                    return pp;
                }
            };
            // histories: value trees are kept so that a failing one can be shrunk
            let mut runner = pt::runner(seed, 1000 + pc.index as u64);
            let strat = hist::history_strategy(spec.max_ops).boxed();
            let trees: Vec<Box<dyn ValueTree<Value = Vec<Op>>>> =
                (0..spec.n_hist).map(|_| Box::new(strat.new_tree(&mut runner).expect("history tree")) as Box<dyn ValueTree<Value = Vec<Op>>>).collect();
            let hs: Vec<Vec<Op>> = trees.iter().map(|t| t.current()).collect();
            let run = run_histories(&pc.program, &rules, &built.exe, &spec, &hs);
            pp.timed_out = run.timed_out;
            if prop == "C15" {
                match c15_static(&pc.program, &built.module_text) {
                    Ok(n) => pp.static_mutants = n,
                    Err(e) => pp.static_finding = Some(e),
                }
            }
            if let Some(c) = &run.crashed {
                pp.anomalies.push(c.clone());
            }
            let ro = render_opts(&pc.program, &spec);
            for (hi, s) in run.stats.iter().enumerate() {
                let script = hist::script(&hist::render(&pc.program, &hs[hi], &ro));
                let fp = util::hash64(&[pc.source.as_bytes(), script.as_bytes()]);
                for a in &s.anomalies {
                    if pp.anomalies.len() < 5 {
                        pp.anomalies.push(a.clone());
                    }
                }
                if pp.sample.is_none() && nontrivial(prop, &pc.program, s) {
                    pp.sample = Some(json!({"program": print::plain(&pc.program), "script": script}));
                }
                pp.stats.push((s.clone(), fp));
            }
            // first finding of this program: shrink history, then program
            if let Some(f) = run.findings.first() {
                // which history?
                let mut off = 0;
                let mut which = 0;
                for (hi, h) in hs.iter().enumerate() {
                    let n = hist::render(&pc.program, h, &ro).len();
                    if f.at < off + n {
                        which = hi;
                        break;
                    }
                    off += n;
                }
                let mut trees = trees;
                let tree = trees.swap_remove(which);
                let small = shrink_history(&pc.program, &rules, &built.exe, &spec, tree, f.prop);
                pp.findings.push((f.clone(), small, String::new()));
            }
            pp
        })
        .collect();

    let mut violations = 0usize;
    let mut built_ok = 0u64;
    let mut timeouts = 0u64;
    for (pc, pp) in programs.iter().zip(results.iter()) {
        let _ = pp.index;
        ev.count(&format!("profile.{}", pc.profile.name), 1);
        match &pp.build {
            Ok(()) => {
                built_ok += 1;
                program_features(&pc.program, &mut ev);
            }
            Err(e) => {
                ev.count("programs_not_built", 1);
                let key: String = e.chars().take(60).collect();
                ev.count(&format!("not_built: {}", key), 1);
                continue;
            }
        }
        if pp.timed_out {
            timeouts += 1;
        }
        for a in &pp.anomalies {
            let key: String = a.chars().take(80).collect();
            ev.count(&format!("anomaly: {}", key), 1);
        }
        for (s, fp) in &pp.stats {
            ev.evaluations += 1;
            if s.bounded {
                ev.count("hist.discarded_unbounded", 1);
            }
            if s.chase_bounded {
                ev.count("hist.reference_chase_bounded", 1);
            }
            ev.count("hist.closes_judged", s.judged_closes as u64);
            if s.observed_states > 0 {
                ev.count("hist.states_observed_inside_close_until", s.observed_states as u64);
            }
            if s.merges > 0 {
                ev.count("hist.with_merge", 1);
            }
            if s.created > 0 {
                ev.count("hist.with_derived_element", 1);
            }
            if s.tuples_added > 0 {
                ev.count("hist.with_derived_tuple", 1);
            }
            if s.define_hits > 0 {
                ev.count("hist.with_define_hit", 1);
            }
            if s.equates_distinct > 0 {
                ev.count("hist.with_equate_distinct", 1);
            }
            if s.max_evals >= 3 {
                ev.count("hist.three_or_more_iterations", 1);
            }
            if nontrivial(prop, &pc.program, s) {
                ev.nontrivial.insert(*fp);
            }
        }
        if let Some(s) = &pp.sample {
            ev.sample(s.clone(), 4);
        }
        ev.count("c15_static_mutants_rejected", pp.static_mutants as u64);
        if let Some(msg) = &pp.static_finding {
            let rep = SemReplay { kind: "sem".into(), property: "C15".into(), profile: pc.profile.name.clone(), program: pc.program.clone(), source: pc.source.clone(), history: vec![], spec: spec.clone(), message: msg.clone(), script: String::new(), seed };
            let sig = signature(&rep);
            if let Some(k) = known.known("C15", &sig) {
                println!("KNOWN-FINDING: property=C15 {}", k.what);
            } else {
                let path = evidence::write_replay("C15", "static", &serde_json::to_value(&rep).unwrap());
                eprintln!("violation of C15 (static): {}", msg);
                evidence::print_violation("C15", &path);
                violations += 1;
            }
        }
        for (f, small, _) in &pp.findings {
            // Full minimisation (program reduction with recompilation) only for the first few
            // findings of a run; the others are counted and make the run fail all the same.
            if violations >= 3 {
                ev.count("further_violations_not_minimised", 1);
                violations += 1;
                continue;
            }
            // program reduction (sequential; rare)
            let reduced = reduce_program(&pc.program, &spec, small, f.prop, 40);
            let rules = flat::flatten_program(&reduced).unwrap_or_default();
            let src = print::plain(&reduced);
            let (msg, script) = match pipeline::build_driver(&reduced, &src, Mode::Module) {
                Ok(b) => {
                    let r = run_histories(&reduced, &rules, &b.exe, &spec, &[small.clone()]);
                    let ro = render_opts(&reduced, &spec);
                    (
                        r.findings.iter().find(|x| x.prop == f.prop).map(|x| x.msg.clone()).unwrap_or_else(|| f.msg.clone()),
                        hist::script(&hist::render(&reduced, small, &ro)),
                    )
                }
                Err(_) => (f.msg.clone(), String::new()),
            };
            let rep = SemReplay {
                kind: "sem".into(),
                property: f.prop.to_string(),
                profile: pc.profile.name.clone(),
                program: reduced,
                source: src,
                history: small.clone(),
                spec: spec.clone(),
                message: msg.clone(),
                script,
                seed,
            };
            let sig = signature(&rep);
            if let Some(k) = known.known(f.prop, &sig) {
                println!("KNOWN-FINDING: property={} {}", f.prop, k.what);
                ev.count("known_finding_hits", 1);
                continue;
            }
            let path = evidence::write_replay(f.prop, "sem", &serde_json::to_value(&rep).unwrap());
            eprintln!("violation of {}: {}\n  signature: {}", f.prop, msg, sig);
            evidence::print_violation(f.prop, &path);
            violations += 1;
        }
    }
    ev.count("programs_built", built_ok);
    ev.count("programs_timed_out", timeouts);
    ev.extra.insert("programs".into(), json!(built_ok));
    ev.rule = format!(
        "programs: typed generator (profiles {:?}) from a proptest choice tape; histories: proptest vec of new/insert/define/equate/close ops (<= {} ops, selectors resolved against the live model), final close appended; non-trivial/distinct: {} ; distinct by hash(program text, rendered script)",
        spec.profiles,
        spec.max_ops,
        match prop {
            "C01" => "a judged close derived >= 1 tuple/equality/element and some rule has >= 2 premise atoms",
            "C02" => "reference chase merged classes or created an element and terminated within the bound",
            "C04" => "a judged close after >= 1 merge of distinct classes (by equate_ or by a rule), i.e. rows rewritten by canonicalisation",
            "C05" => "history has a define_ hit and a miss, an equate_ of distinct classes, and state comparisons in both regimes (before/after an equate since the last close)",
            "C06" => ">= 1 merge and >= 3 iterations of the close loop",
            "C15" => ">= 1 enum element destructured after a judged close",
            _ => "",
        }
    );
    ev.assumptions = vec![
        "reference elaborator + naive chase are correct (independent of the compiler's flattening)".into(),
        "closes of programs with `!` are bounded (ids >= 48 or 400 iterations); bounded cases are discarded, never judged".into(),
    ];
    ev.violations = violations as u64;
    ev.wall_s = start.elapsed().as_secs_f64();
    ev.write();
    let inconclusive = built_ok == 0 || timeouts * 2 > built_ok.max(1);
    println!(
        "{} {} seed={} programs={} histories={} nontrivial={} violations={} wall={:.1}s",
        prop,
        tier,
        seed,
        built_ok,
        ev.evaluations,
        ev.nontrivial.len(),
        violations,
        ev.wall_s
    );
    CampaignResult { violations, inconclusive }
}

/// Signature of a semantic failure: property, first line of the message with ids abstracted.
pub fn signature(rep: &SemReplay) -> String {
    let msg: String = rep.message.chars().map(|c| if c.is_ascii_digit() { '#' } else { c }).collect();
    let head: String = msg.chars().take(100).collect();
    format!("{}:{}", rep.property, head)
}

pub fn replay_sem(rep: &SemReplay) -> Result<Option<String>, String> {
    let rules = flat::flatten_program(&rep.program)?;
    let built = pipeline::build_driver(&rep.program, &rep.source, Mode::Module).map_err(|e| format!("{:?}", e))?;
    if rep.property == "C15" && rep.history.is_empty() {
        return Ok(c15_static(&rep.program, &built.module_text).err());
    }
    let r = run_histories(&rep.program, &rules, &built.exe, &rep.spec, &[rep.history.clone()]);
    if r.timed_out {
        return Err("driver timed out".into());
    }
    Ok(r.findings.iter().find(|f| f.prop == rep.property).map(|f| f.msg.clone()))
}
