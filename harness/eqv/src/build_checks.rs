//! Checks on the build pipeline itself: C09 (accepted programs compile in both modes),
//! C13 (compilation is deterministic), C19 (component build = module build),
//! C20 (model evaluation is deterministic).

use crate::ast::*;
use crate::campaign::{self, draw_programs, ProgramCase};
use crate::evidence::{self, Evidence, KnownFindings};
use crate::flat;
use crate::hist::{self, Op};
use crate::pipeline::{self, BuildError, CliOpts, Mode, THEORY};
use crate::print;
use crate::pt;
use crate::sem::{Judge, Oracles};
use crate::util::{self, Scratch};
use proptest::strategy::{Strategy, ValueTree};
use rayon::prelude::*;
use serde::{Deserialize, Serialize};
use serde_json::json;
use std::collections::{BTreeMap, BTreeSet};
use std::path::Path;
use std::time::{Duration, Instant};

fn env_usize(k: &str, d: usize) -> usize {
    std::env::var(k).ok().and_then(|v| v.parse().ok()).unwrap_or(d)
}

#[derive(Clone, Debug, Serialize, Deserialize)]
pub struct ProgReplay {
    pub kind: String,
    pub property: String,
    pub program: Option<Program>,
    pub source: String,
    pub message: String,
    pub detail: serde_json::Value,
    pub seed: u64,
}

fn sig_of(prop: &str, msg: &str) -> String {
    format!("{}:{}", prop, msg.chars().map(|c| if c.is_ascii_digit() { '#' } else { c }).take(90).collect::<String>())
}

fn report(prop: &str, known: &KnownFindings, rep: &ProgReplay, violations: &mut usize) {
    let mut sig = sig_of(prop, &rep.message);
    if prop == "C09" {
        if let Some(p) = &rep.program {
            let primed = p.types.iter().any(|t| t.name.contains('\'')) || p.rels.iter().any(|r| r.name.contains('\'')) || p.rules.iter().any(|r| r.name.as_deref().map(|n| n.contains('\'')).unwrap_or(false));
            if primed && rep.message.contains("rustc rejects") {
                sig = "C09:primed-symbol-name".to_string();
            }
        }
    }
    if prop == "C09" && rep.message.contains("rustc rejects") && sibling_models_share_member_name(&rep.source) && (rep.message.contains("defined multiple times") || rep.message.contains("more than once") || rep.message.contains("already declared")) {
        sig = "C09:sibling-models-share-member-name".to_string();
    }
    if let Some(k) = known.known(prop, &sig) {
        println!("KNOWN-FINDING: property={} {}", prop, k.what);
        return;
    }
    let path = evidence::write_replay(prop, "prog", &serde_json::to_value(rep).unwrap());
    eprintln!("violation of {}: {}\n  signature: {}", prop, rep.message, sig);
    evidence::print_violation(prop, &path);
    *violations += 1;
}

// ------------------------------------------------------------------------------------------
// C09

/// Two `model` blocks of the source declare a member (type, pred, func) of the same name.
pub fn sibling_models_share_member_name(source: &str) -> bool {
    let mut seen: std::collections::BTreeSet<String> = Default::default();
    let mut depth = 0usize;
    let mut in_model = false;
    let mut cur: Vec<String> = Vec::new();
    for line in source.lines() {
        let l = line.trim();
        if depth == 0 && l.starts_with("model ") {
            in_model = true;
            cur.clear();
        }
        if in_model && depth >= 1 {
            for kw in ["type ", "pred ", "func "] {
                if let Some(r) = l.strip_prefix(kw) {
                    let name: String = r.chars().take_while(|c| c.is_alphanumeric() || *c == '_' || *c == '\'').collect();
                    if !name.is_empty() {
                        cur.push(name);
                    }
                }
            }
        }
        // single-line model blocks: `model M { type El; pred p(A); }`
        if in_model && depth == 0 {
            if let Some(i) = l.find('{') {
                for part in l[i + 1..].split(';') {
                    let part = part.trim();
                    for kw in ["type ", "pred ", "func "] {
                        if let Some(r) = part.strip_prefix(kw) {
                            let name: String = r.chars().take_while(|c| c.is_alphanumeric() || *c == '_' || *c == '\'').collect();
                            if !name.is_empty() {
                                cur.push(name);
                            }
                        }
                    }
                }
            }
        }
        depth += l.matches('{').count();
        depth = depth.saturating_sub(l.matches('}').count());
        if in_model && depth == 0 && l.contains('}') {
            in_model = false;
            for n in cur.drain(..) {
                if !seen.insert(n) {
                    return true;
                }
            }
        }
    }
    false
}

fn c09_features(p: &Program, module: &str) -> Vec<&'static str> {
    let mut f = Vec::new();
    if p.rels.iter().any(|r| r.cols.len() >= 5) {
        f.push("arity>=5");
    }
    if module.contains("_eqs_") {
        f.push("diagonal_index");
    }
    if let Some(mf) = pipeline::parse_model_fields(module) {
        let mut per: BTreeMap<String, usize> = BTreeMap::new();
        for (name, _) in &mf.indices {
            if let Some(i) = name.find("_new_order") {
                *per.entry(name[..i].to_string()).or_default() += 1;
            }
        }
        if per.values().any(|&n| n >= 3) {
            f.push("three_or_more_index_orders");
        }
    }
    fn has_match(s: &[Stmt]) -> bool {
        s.iter().any(|x| match x {
            Stmt::Match(..) => true,
            Stmt::Branch(bs) => bs.iter().any(|b| has_match(b)),
            _ => false,
        })
    }
    if p.rules.iter().any(|r| has_match(&r.body)) {
        f.push("enum_match");
    }
    if p.rules.iter().any(|r| matches!(r.body.first(), Some(Stmt::Then(_)))) {
        f.push("empty_premise");
    }
    if p.types.iter().any(|t| matches!(t.kind, TypeKind::Model(_))) {
        f.push("model_declaration");
    }
    f
}

/// Err(message) = violation of C09 for this program.
pub fn c09_one(p: &Program, source: &str) -> (Result<(), String>, Vec<&'static str>, bool) {
    let mut feats = Vec::new();
    let mut accepted = false;
    for mode in [Mode::Module, Mode::Component] {
        match pipeline::build_driver(p, source, mode) {
            Ok(b) => {
                accepted = true;
                if mode == Mode::Module {
                    feats = c09_features(p, &b.module_text);
                }
                match pipeline::run_driver(&b.exe, "reset\nclose\ndump\n", Duration::from_secs(30), &[]) {
                    Ok(o) if o.ok() => {}
                    Ok(o) => return (Err(format!("{:?} build: driver running an empty history exits with {:?}/{:?}: {}", mode, o.code, o.signal, o.stderr_str().lines().last().unwrap_or(""))), feats, accepted),
                    Err(e) => return (Err(format!("{:?} build: cannot run driver: {}", mode, e)), feats, accepted),
                }
            }
            Err(BuildError::Rejected(_)) => return (Ok(()), feats, false),
            Err(BuildError::CompilerCrash(r)) => {
                return (
                    Err(format!(
                        "{:?} build: compiler crashed (exit {:?}, signal {:?}): {}",
                        mode,
                        r.out.code,
                        r.out.signal,
                        r.out.stderr_str().lines().find(|l| l.contains("panicked")).unwrap_or("")
                    )),
                    feats,
                    accepted,
                )
            }
            Err(BuildError::RustcFailed { stage, stderr }) => {
                let first = stderr.lines().find(|l| l.starts_with("error")).unwrap_or("").to_string();
                return (Err(format!("{:?} build: rustc rejects the generated code ({}): {}", mode, stage, first)), feats, true);
            }
            Err(BuildError::Infra(_)) => return (Ok(()), feats, false),
        }
    }
    (Ok(()), feats, accepted)
}

/// C09 for a bare source text (no signature known to the harness): the module-mode output must
/// compile as a library.
pub fn c09_source_only(source: &str) -> Result<(), String> {
    let s = Scratch::new("c09src");
    let src = s.join("src");
    std::fs::create_dir_all(&src).unwrap();
    std::fs::write(src.join("thy.eql"), source).unwrap();
    let out = s.join("out");
    let r = pipeline::run_cli(&CliOpts { src: &src, out: &out, component_out: None, rustc_path: None, threads: None, envs: vec![], cwd: None });
    if r.rejected() || r.out.timed_out {
        return Ok(());
    }
    if !r.accepted() {
        return Err(format!("compiler crashed (exit {:?})", r.out.code));
    }
    let main = format!("#![allow(warnings)]\nmod th {{ include!({:?}); }}\n", out.join("thy.eql.rs").to_str().unwrap());
    std::fs::write(s.join("lib.rs"), main.replace("\\n", "\n")).unwrap();
    let mut cmd = std::process::Command::new(pipeline::rustc());
    cmd.arg(s.join("lib.rs")).args(["--edition=2024", "--crate-type=rlib", "--crate-name=thy", "--cap-lints=allow", "-C", "opt-level=0"]).arg("--extern").arg(format!("eqlog_runtime={}", pipeline::runtime_rlib().display())).arg("-o").arg(s.join("libthy.rlib"));
    let o = util::run(&mut cmd, None, Duration::from_secs(300), 0).map_err(|e| e.to_string())?;
    if !o.ok() {
        return Err(format!("Module build: rustc rejects the generated code: {}", o.stderr_str().lines().find(|l| l.starts_with("error")).unwrap_or("")));
    }
    Ok(())
}

/// Module mode (compiled as a library) and component mode (the CLI runs real rustc per rule).
/// Ok(true) = accepted and compiles, Ok(false) = rejected by the compiler.
pub fn c09_source_both(source: &str) -> Result<bool, String> {
    let s = Scratch::new("c09g");
    let src = s.join("src");
    std::fs::create_dir_all(&src).unwrap();
    std::fs::write(src.join("thy.eql"), source).unwrap();
    let probe = pipeline::run_cli(&CliOpts { src: &src, out: &s.join("probe"), component_out: None, rustc_path: None, threads: None, envs: vec![], cwd: None });
    if probe.out.timed_out || probe.rejected() {
        return Ok(false);
    }
    c09_source_only(source)?;
    let r = pipeline::run_cli(&CliOpts { src: &src, out: &s.join("out"), component_out: Some(&s.join("comp")), rustc_path: None, threads: None, envs: vec![], cwd: None });
    if r.out.timed_out {
        return Ok(true);
    }
    if !r.accepted() {
        let e = r.out.stderr_str();
        if r.crashed() {
            return Err(format!("Component build: compiler crashed (exit {:?})", r.out.code));
        }
        return Err(format!("Component build: the compiler accepts the program in module mode but the component build fails: {}", e.lines().find(|l| l.starts_with("error")).or(e.lines().next()).unwrap_or("")));
    }
    Ok(true)
}

pub fn run_c09(tier: &str, seed: u64) -> campaign::CampaignResult {
    let start = Instant::now();
    let np = env_usize("EQV_NPROG", if tier == "thorough" { 400 } else { 40 });
    let known = KnownFindings::load();
    let mut ev = Evidence::new("C09", tier, seed, "exploration");
    let profiles: Vec<String> = vec!["wide".into(), "wide".into(), "free".into(), "with_enums".into()];
    let programs = draw_programs(seed, &profiles, np);
    let mut programs = programs;
    // programs with a model declaration (member predicates, morphisms), see C17
    let n_model = (np / 4).max(2);
    for (i, tape) in pt::draw_tapes(seed ^ 0xC09, n_model, 200).into_iter().enumerate() {
        let program = crate::c17::gen_model_program(&tape);
        let source = print::print(&program).text;
        let mut profile = crate::gen::Profile::free();
        profile.name = "model".into();
        programs.push(ProgramCase { index: np + i, profile, program, source });
    }
    let results: Vec<(Result<(), String>, Vec<&'static str>, bool)> = programs.par_iter().map(|pc| c09_one(&pc.program, &pc.source)).collect();
    let mut violations = 0;
    // modules derived from the full surface grammar (models with member types / functions / rules,
    // morphism terms, enums, named arguments): no signature is known to the harness, so the module-mode
    // output is compiled as a library and the component build must succeed
    let ng = env_usize("EQV_NGRAM", if tier == "thorough" { 800 } else { 60 });
    let gram_sources: Vec<String> = pt::draw_tapes(seed ^ 0x6772, ng, 500).into_iter().map(|tape| crate::gram::gen_module(&tape, 0)).collect();
    let gram_results: Vec<Result<bool, String>> = gram_sources.par_iter().map(|src| c09_source_both(src)).collect();
    for (src, res) in gram_sources.iter().zip(gram_results.iter()) {
        ev.evaluations += 1;
        ev.count("profile.grammar", 1);
        if src.matches("\nmodel ").count() + if src.starts_with("model ") { 1 } else { 0 } >= 2 {
            ev.count("grammar.modules_with_two_or_more_models (member names made unique: recorded finding sibling-models-share-member-name excluded)", 1);
        }
        match res {
            Ok(true) => {
                ev.count("accepted", 1);
                ev.count("grammar.accepted", 1);
                let mut feats: Vec<&str> = Vec::new();
                for (needle, f) in [("model ", "model_declaration"), ("Mor(", "morphism_type"), ("@(", "morphism_application"), ("enum ", "enum"), ("match ", "enum_match"), ("branch ", "branch"), (": ", "typing_premise_or_named_argument")] {
                    if src.contains(needle) {
                        feats.push(f);
                        ev.count(&format!("grammar.feature.{}", f), 1);
                    }
                }
                if src.contains("model ") {
                    ev.nontrivial.insert(util::hash64(&[src.as_bytes()]));
                    ev.sample(json!({"program": src, "features": feats}), 5);
                }
            }
            Ok(false) => ev.count("grammar.rejected", 1),
            Err(msg) => {
                // minimise: drop top-level declarations / lines while it still fails the same way
                let class = sig_of("C09", msg);
                let mut cur = src.clone();
                let mut budget = if violations < 3 { 120 } else { 0 };
                let mut chunk = (cur.lines().count() / 2).max(1);
                while budget > 0 {
                    let ls: Vec<&str> = cur.lines().collect();
                    let mut improved = false;
                    let mut i = 0;
                    while i < ls.len() && budget > 0 {
                        let cand: String = ls.iter().enumerate().filter(|(j, _)| *j < i || *j >= i + chunk).map(|(_, l)| format!("{}\n", l)).collect();
                        budget -= 1;
                        if let Err(m2) = c09_source_both(&cand) {
                            if sig_of("C09", &m2) == class {
                                cur = cand;
                                improved = true;
                                break;
                            }
                        }
                        i += chunk;
                    }
                    if !improved {
                        if chunk == 1 {
                            break;
                        }
                        chunk = (chunk / 2).max(1);
                    }
                }
                let msg2 = c09_source_both(&cur).err().unwrap_or_else(|| msg.clone());
                let rep = ProgReplay { kind: "c09".into(), property: "C09".into(), program: None, source: cur, message: msg2, detail: json!({"generator": "grammar"}), seed };
                report("C09", &known, &rep, &mut violations);
            }
        }
    }
    for (pc, (res, feats, accepted)) in programs.iter().zip(results.iter()) {
        ev.evaluations += 1;
        ev.count(&format!("profile.{}", pc.profile.name), 1);
        if *accepted {
            ev.count("accepted", 1);
            campaign::program_features(&pc.program, &mut ev);
        } else {
            ev.count("not_accepted_or_infra", 1);
        }
        for f in feats {
            ev.count(&format!("feature.{}", f), 1);
        }
        if *accepted && !feats.is_empty() {
            ev.nontrivial.insert(util::hash64(&[pc.source.as_bytes()]));
            ev.sample(json!({"program": pc.source, "features": feats}), 3);
        }
        if let Err(msg) = res {
            let reduced = reduce_static(&pc.program, 8, &|q| c09_one(q, &print::plain(q)).0.is_err());
            let src = print::plain(&reduced);
            let msg2 = c09_one(&reduced, &src).0.err().unwrap_or_else(|| msg.clone());
            let rep = ProgReplay { kind: "c09".into(), property: "C09".into(), program: Some(reduced), source: src, message: msg2, detail: json!({}), seed };
            report("C09", &known, &rep, &mut violations);
        }
    }
    // identifier stress: one symbol of a generated program is renamed to a lexically valid but unusual
    // identifier (digit after a letter, mixed case, doubled/trailing underscore, prime, keyword-like).
    // Most of these are rejected by the casing rules today - then nothing is claimed; whatever IS accepted
    // (now or after a change of those rules) must still yield Rust that compiles.
    let ns = env_usize("EQV_NSTRESS", if tier == "thorough" { 800 } else { 60 });
    const LOWER: [&str; 14] = ["trans2", "p1", "q2r", "le2x", "a1_b2", "x_", "a__b", "aB", "r_1_2", "step_2b", "fn_x", "type_", "self_", "x'"];
    const UPPER: [&str; 7] = ["A1", "Ab_c", "ABC", "T_x", "B2b", "Aa'", "Self_"];
    let stress_base = draw_programs(seed ^ 0x57e5, &vec!["free".to_string(), "with_enums".to_string()], ns);
    let stress: Vec<(String, String)> = stress_base
        .iter()
        .zip(pt::draw_tapes(seed ^ 0x57e6, ns, 8).into_iter())
        .map(|(pc, tape)| {
            let mut t = crate::gen::Tape::new(&tape);
            let mut q = pc.program.clone();
            let kind = t.pick(5);
            let what;
            match kind {
                0 if q.rules.iter().any(|r| r.name.is_some()) => {
                    let named: Vec<usize> = (0..q.rules.len()).filter(|&i| q.rules[i].name.is_some()).collect();
                    let i = named[t.pick(named.len())];
                    let n = LOWER[t.pick(LOWER.len())];
                    q.rules[i].name = Some(n.to_string());
                    what = format!("rule name {}", n);
                }
                1 | 0 => {
                    let cands: Vec<usize> = (0..q.rels.len()).filter(|&r| !matches!(q.rels[r].kind, RelKind::Ctor(_))).collect();
                    if cands.is_empty() {
                        return (String::new(), String::new());
                    }
                    let r = cands[t.pick(cands.len())];
                    let n = LOWER[t.pick(LOWER.len())];
                    q.rels[r].name = n.to_string();
                    what = format!("{} name {}", if q.rels[r].is_func() { "function" } else { "predicate" }, n);
                }
                2 => {
                    let i = t.pick(q.types.len());
                    let n = UPPER[t.pick(UPPER.len())];
                    q.types[i].name = n.to_string();
                    what = format!("type name {}", n);
                }
                3 => {
                    let cands: Vec<usize> = (0..q.rels.len()).filter(|&r| matches!(q.rels[r].kind, RelKind::Ctor(_))).collect();
                    if cands.is_empty() {
                        return (String::new(), String::new());
                    }
                    let r = cands[t.pick(cands.len())];
                    let n = UPPER[t.pick(UPPER.len())];
                    q.rels[r].name = n.to_string();
                    what = format!("constructor name {}", n);
                }
                _ => {
                    // a variable: textual whole-token replacement in the printed program
                    let src = print::plain(&q);
                    let n = LOWER[t.pick(LOWER.len())];
                    for v in ["x", "y", "z", "u", "v", "w"] {
                        if src.contains(&format!("({}", v)) || src.contains(&format!(" {})", v)) || src.contains(&format!(", {}", v)) {
                            let mut out = String::new();
                            let b = src.as_bytes();
                            let mut i = 0;
                            while i < b.len() {
                                let is_id = |c: u8| c.is_ascii_alphanumeric() || c == b'_' || c == b'\'';
                                if is_id(b[i]) {
                                    let st = i;
                                    while i < b.len() && is_id(b[i]) {
                                        i += 1;
                                    }
                                    let tok = &src[st..i];
                                    out.push_str(if tok == v { n } else { tok });
                                } else {
                                    out.push(b[i] as char);
                                    i += 1;
                                }
                            }
                            return (format!("variable {}", n), out);
                        }
                    }
                    return (String::new(), String::new());
                }
            }
            (what, print::plain(&q))
        })
        .filter(|(w, _)| !w.is_empty())
        .collect();
    let stress_results: Vec<Result<bool, String>> = stress.par_iter().map(|(_, src)| c09_source_both(src)).collect();
    for ((what, src), res) in stress.iter().zip(stress_results.iter()) {
        ev.evaluations += 1;
        ev.count("identifier_stress.programs", 1);
        match res {
            Ok(true) => {
                ev.count("identifier_stress.accepted_and_compiles", 1);
                ev.count(&format!("identifier_stress.accepted: {}", what), 1);
            }
            Ok(false) => ev.count("identifier_stress.rejected", 1),
            Err(msg) => {
                let rep = ProgReplay { kind: "c09".into(), property: "C09".into(), program: None, source: src.clone(), message: format!("{} ({})", msg, what), detail: json!({"generator": "identifier stress", "renamed": what}), seed };
                let mut r2 = rep.clone();
                // the recorded finding about primes covers every primed symbol name
                if what.contains('\'') && !what.starts_with("variable") && msg.contains("rustc rejects") {
                    r2.message = msg.clone();
                    if let Some(k) = known.known("C09", "C09:primed-symbol-name") {
                        println!("KNOWN-FINDING: property=C09 {}", k.what);
                        ev.count("identifier_stress.known_finding_primed_symbol", 1);
                        continue;
                    }
                }
                report("C09", &known, &r2, &mut violations);
            }
        }
    }
    ev.extra.insert("programs".into(), json!(ev.evaluations));
    ev.rule = "programs from the typed generator (profile `wide`: arities up to 9, constants, nullary predicates, enums, plus the other profiles), each compiled by the repository CLI in module mode and in component mode (real rustc per rule) and linked into a driver that runs an empty history; plus modules derived from the full surface grammar (models with member types/predicates/functions/rules, Mor types, dom/cod, morphism application, enums, named arguments; mostly well-typed by construction, no reference semantics) whose module-mode output is compiled as a library and whose component build must succeed; plus identifier stress (one symbol renamed to a lexically valid but unusual identifier; accepted ones must compile); non-trivial = accepted and has one of: relation with >= 5 columns, diagonal index, >= 3 index orders for one relation, enum match, rule with empty premise, model declaration; distinct by source hash".into();
    ev.assumptions = vec!["identifiers come from pools that avoid Rust keywords and names the generator emits".into()];
    ev.violations = violations as u64;
    ev.wall_s = start.elapsed().as_secs_f64();
    ev.write();
    println!("C09 {} seed={} programs={} nontrivial={} violations={} wall={:.1}s", tier, seed, ev.evaluations, ev.nontrivial.len(), violations, ev.wall_s);
    campaign::CampaignResult { violations, inconclusive: ev.counters.get("accepted").copied().unwrap_or(0) == 0 }
}

/// Greedy reduction for static (compile-level) failures.
pub fn reduce_static(p: &Program, budget: usize, fails: &dyn Fn(&Program) -> bool) -> Program {
    let mut best = p.clone();
    let mut used = 0;
    'outer: loop {
        for q in campaign::reductions_pub(&best) {
            if used >= budget {
                break 'outer;
            }
            used += 1;
            if fails(&q) {
                best = q;
                continue 'outer;
            }
        }
        break;
    }
    best
}

// ------------------------------------------------------------------------------------------
// C13

fn fake_rustc() -> std::path::PathBuf {
    let _ = crate::c12::ensure_shim();
    crate::c12::fake_rustc()
}

/// All files of a build as (relative path, bytes), for the output dir and the component dir.
fn snapshot(out: &Path, comp: Option<&Path>) -> BTreeMap<String, Vec<u8>> {
    let mut m = BTreeMap::new();
    for f in util::walk(out) {
        m.insert(format!("out/{}", f.display()), std::fs::read(out.join(&f)).unwrap_or_default());
    }
    if let Some(c) = comp {
        for f in util::walk(c) {
            m.insert(format!("comp/{}", f.display()), std::fs::read(c.join(&f)).unwrap_or_default());
        }
    }
    m
}

fn diff_snapshots(a: &BTreeMap<String, Vec<u8>>, b: &BTreeMap<String, Vec<u8>>) -> Option<String> {
    let ka: BTreeSet<&String> = a.keys().collect();
    let kb: BTreeSet<&String> = b.keys().collect();
    if ka != kb {
        return Some(format!("file sets differ: only in first {:?}, only in second {:?}", ka.difference(&kb).take(3).collect::<Vec<_>>(), kb.difference(&ka).take(3).collect::<Vec<_>>()));
    }
    for (k, va) in a {
        if va != &b[k] {
            let la = String::from_utf8_lossy(va);
            let lb = String::from_utf8_lossy(&b[k]);
            let line = la.lines().zip(lb.lines()).position(|(x, y)| x != y);
            return Some(format!("file {} differs (first differing line {:?})", k, line.map(|l| l + 1)));
        }
    }
    None
}

struct Variant {
    name: &'static str,
    threads: Option<usize>,
    envs: Vec<(String, String)>,
    relative: bool,
    dir_tag: &'static str,
}

pub fn c13_one(source: &str, theory: &str) -> Result<bool, String> {
    let variants = [
        Variant { name: "base", threads: Some(16), envs: vec![], relative: false, dir_tag: "a" },
        Variant { name: "repeat", threads: Some(16), envs: vec![], relative: false, dir_tag: "a2" },
        Variant { name: "threads1", threads: Some(1), envs: vec![], relative: false, dir_tag: "bb" },
        Variant { name: "threads2", threads: Some(2), envs: vec![], relative: false, dir_tag: "some-much-longer-directory-name-cc" },
        Variant { name: "relative_paths", threads: Some(3), envs: vec![], relative: true, dir_tag: "r" },
        Variant {
            name: "environment",
            threads: None,
            envs: vec![("HOME".into(), "/nonexistent".into()), ("TZ".into(), "Pacific/Kiritimati".into()), ("LANG".into(), "tr_TR.UTF-8".into()), ("EQV_PADDING".into(), "x".repeat(5000)), ("RUST_BACKTRACE".into(), "1".into())],
            relative: false,
            dir_tag: "e",
        },
    ];
    let mut module_snap: Vec<BTreeMap<String, Vec<u8>>> = Vec::new();
    let mut comp_snap: Vec<BTreeMap<String, Vec<u8>>> = Vec::new();
    let scratch = Scratch::new("c13");
    for v in &variants {
        for component in [false, true] {
            let root = scratch.join(&format!("{}-{}", v.dir_tag, if component { "c" } else { "m" }));
            let src = root.join("src");
            let out = root.join("out");
            let comp = root.join("comp");
            std::fs::create_dir_all(&src).unwrap();
            std::fs::write(src.join(format!("{}.eql", theory)), source).unwrap();
            let fr = fake_rustc();
            let (srcp, outp, compp) = if v.relative { (Path::new("src").to_path_buf(), Path::new("out").to_path_buf(), Path::new("comp").to_path_buf()) } else { (src.clone(), out.clone(), comp.clone()) };
            let r = pipeline::run_cli(&CliOpts {
                src: &srcp,
                out: &outp,
                component_out: if component { Some(&compp) } else { None },
                rustc_path: Some(&fr),
                threads: v.threads,
                envs: v.envs.clone(),
                cwd: if v.relative { Some(&root) } else { None },
            });
            if r.out.timed_out {
                return Err("timeout".into());
            }
            if !r.accepted() {
                if v.name == "base" && !component {
                    return Ok(false);
                }
                return Err(format!("variant {} ({}) did not succeed although the base run did: exit {:?}: {}", v.name, if component { "component" } else { "module" }, r.out.code, r.out.stderr_str().lines().next().unwrap_or("")));
            }
            let snap = snapshot(&out, if component { Some(&comp) } else { None });
            if component {
                comp_snap.push(snap);
            } else {
                module_snap.push(snap);
            }
        }
    }
    for (i, v) in variants.iter().enumerate().skip(1) {
        if let Some(d) = diff_snapshots(&module_snap[0], &module_snap[i]) {
            return Err(format!("module build differs between runs `base` and `{}`: {}", v.name, d));
        }
        if let Some(d) = diff_snapshots(&comp_snap[0], &comp_snap[i]) {
            return Err(format!("component build differs between runs `base` and `{}`: {}", v.name, d));
        }
    }
    Ok(true)
}

pub fn repo_theories() -> Vec<(String, String)> {
    let mut out = Vec::new();
    let dir = Path::new(util::REPO).join("eqlog-test-eval/src");
    for f in util::walk(&dir) {
        if f.extension().map(|e| e == "eql").unwrap_or(false) {
            if let Ok(t) = std::fs::read_to_string(dir.join(&f)) {
                let stem = f.file_stem().unwrap().to_string_lossy().into_owned();
                out.push((stem, t));
            }
        }
    }
    out.sort();
    out
}

pub fn run_c13(tier: &str, seed: u64) -> campaign::CampaignResult {
    let start = Instant::now();
    let np = env_usize("EQV_NPROG", if tier == "thorough" { 3000 } else { 150 });
    let known = KnownFindings::load();
    let mut ev = Evidence::new("C13", tier, seed, "exploration");
    let profiles: Vec<String> = vec!["free".into(), "wide".into(), "with_enums".into(), "surjective".into()];
    let programs = draw_programs(seed, &profiles, np);
    let mut cases: Vec<(String, String, Option<Program>)> = programs.iter().map(|pc| (THEORY.to_string(), pc.source.clone(), Some(pc.program.clone()))).collect();
    for (stem, text) in repo_theories() {
        cases.push((stem, text, None));
    }
    // modules derived from the full surface grammar (models, member types, morphisms, ...)
    let n_gram = env_usize("EQV_NGRAM", np / 3);
    for (i, tape) in pt::draw_tapes(seed ^ 0x6713, n_gram, 500).into_iter().enumerate() {
        cases.push((format!("gram_{}", ["a", "b", "c", "d", "e"][i % 5]), crate::gram::gen_module(&tape, 0), None));
    }
    let results: Vec<Result<bool, String>> = cases.par_iter().map(|(th, src, _)| c13_one(src, th)).collect();
    let mut violations = 0;
    for ((th, src, prog), res) in cases.iter().zip(results.iter()) {
        ev.evaluations += 1;
        if prog.is_none() {
            ev.count(if th.starts_with("gram_") { "grammar_modules" } else { "repository_theories" }, 1);
        }
        match res {
            Ok(true) => {
                ev.count("accepted", 1);
                let nt = match prog {
                    Some(p) => p.rules.len() >= 3 && p.rules.iter().any(|r| r.name.is_none()) && p.rules.iter().any(|r| r.body.iter().any(|s| matches!(s, Stmt::Branch(_)))),
                    None => true,
                };
                if nt {
                    ev.nontrivial.insert(util::hash64(&[th.as_bytes(), src.as_bytes()]));
                    if prog.is_some() {
                        ev.sample(json!({"theory": th, "source": src}), 2);
                    }
                }
            }
            Ok(false) => ev.count("rejected", 1),
            Err(msg) if msg == "timeout" => ev.count("timeouts", 1),
            Err(msg) => {
                let (source, program) = match prog {
                    Some(p) => {
                        // minimisation (each step = 12 compilations) only for the first findings of a run
                        let r = reduce_static(p, if violations < 3 { 20 } else { 0 }, &|q| matches!(c13_one(&print::plain(q), THEORY), Err(e) if e != "timeout"));
                        (print::plain(&r), Some(r))
                    }
                    None => (src.clone(), None),
                };
                let rep = ProgReplay { kind: "c13".into(), property: "C13".into(), program, source, message: msg.clone(), detail: json!({"theory": th}), seed };
                report("C13", &known, &rep, &mut violations);
            }
        }
    }
    ev.extra.insert("programs".into(), json!(ev.evaluations));
    ev.extra.insert("runs_per_program".into(), json!(12));
    ev.rule = "generated programs (all profiles) and every .eql under eqlog-test-eval/src, each compiled 6 times in module mode and 6 times in component mode (fake rustc): repeat, RAYON_NUM_THREADS 1/2/3/16, different absolute directories, relative paths with another cwd, different environment; all files and digests compared byte for byte; non-trivial = >= 3 rules, one anonymous, one with branch (repository theories always count); distinct by hash(theory name, source)".into();
    ev.assumptions = vec!["component libraries are produced by a deterministic stand-in for rustc; rustc's own determinism is out of scope".into()];
    ev.violations = violations as u64;
    ev.wall_s = start.elapsed().as_secs_f64();
    ev.write();
    println!("C13 {} seed={} programs={} nontrivial={} violations={} wall={:.1}s", tier, seed, ev.evaluations, ev.nontrivial.len(), violations, ev.wall_s);
    campaign::CampaignResult { violations, inconclusive: ev.counters.get("accepted").copied().unwrap_or(0) == 0 }
}

// ------------------------------------------------------------------------------------------
// C19

fn norm_lines(s: &str) -> Vec<String> {
    s.lines().map(|l| l.trim().to_string()).filter(|l| !l.is_empty() && !l.starts_with("// DIGEST:")).collect()
}

/// Splits the module-mode output into the `mod <name> { .. }` rule modules and the rest.
fn split_rule_modules(module: &str) -> Result<(BTreeMap<String, Vec<String>>, Vec<String>), String> {
    let mut mods = BTreeMap::new();
    let mut rest = Vec::new();
    let lines: Vec<&str> = module.lines().collect();
    let mut i = 0;
    while i < lines.len() {
        let l = lines[i];
        if let Some(name) = l.strip_prefix("mod ").and_then(|r| r.strip_suffix(" {")) {
            // the module ends at the first line that is exactly "}" at column 0 after the exported fn
            let mut j = i + 1;
            let mut body = Vec::new();
            let mut seen_export = false;
            loop {
                if j >= lines.len() {
                    return Err(format!("unterminated rule module {}", name));
                }
                if lines[j].contains("#[unsafe(no_mangle)]") {
                    seen_export = true;
                }
                if seen_export && lines[j] == "}" {
                    // the exported function closes with "}" as well: the module's brace is the second one
                    let mut k = j + 1;
                    while k < lines.len() && lines[k].trim().is_empty() {
                        k += 1;
                    }
                    if k < lines.len() && lines[k] == "}" {
                        body.push(lines[j].to_string());
                        j = k;
                    }
                    break;
                }
                body.push(lines[j].to_string());
                j += 1;
            }
            mods.insert(name.to_string(), body.iter().map(|l| l.trim().to_string()).filter(|l| !l.is_empty()).collect());
            i = j + 1;
        } else {
            rest.push(l.to_string());
            i += 1;
        }
    }
    Ok((mods, rest.iter().map(|l| l.trim().to_string()).filter(|l| !l.is_empty() && !l.starts_with("// DIGEST:")).collect()))
}

fn env_structs(text: &[String]) -> BTreeMap<String, Vec<String>> {
    let mut out = BTreeMap::new();
    let mut i = 0;
    while i < text.len() {
        if let Some(r) = text[i].strip_prefix("pub struct ") {
            if let Some(name) = r.split('<').next() {
                if name.ends_with("Env") {
                    let mut body = Vec::new();
                    let mut j = i;
                    while j < text.len() && text[j] != "}" {
                        body.push(text[j].clone());
                        j += 1;
                    }
                    out.insert(name.to_string(), body);
                    i = j;
                }
            }
        }
        i += 1;
    }
    out
}

pub fn c19_text(module_mode: &str, component_mode: &str, comp_dir: &Path) -> Result<usize, String> {
    let (mods, rest) = split_rule_modules(module_mode)?;
    let comp_module = norm_lines(component_mode);
    if rest != comp_module {
        let pos = rest.iter().zip(comp_module.iter()).position(|(a, b)| a != b);
        return Err(format!("the component-mode module differs from the module-mode module without its rule modules (first difference at normalised line {:?}; {} vs {} lines)", pos, rest.len(), comp_module.len()));
    }
    // link names imported by the module
    let mut imports: BTreeMap<String, (String, String)> = BTreeMap::new();
    for w in comp_module.windows(2) {
        if let Some(ln) = w[0].strip_prefix("#[link_name = \"").and_then(|r| r.strip_suffix("\"]")) {
            // safe fn <name>(env: <Env>);
            let sig = w[1].trim_start_matches("safe fn ").to_string();
            let fname = sig.split('(').next().unwrap_or("").to_string();
            let env = sig.split("env: ").nth(1).unwrap_or("").trim_end_matches(");").to_string();
            imports.insert(ln.to_string(), (fname, env));
        }
    }
    let module_envs = env_structs(&comp_module);
    let mut exports: BTreeSet<String> = BTreeSet::new();
    let mut comp_files = 0;
    for f in util::walk(comp_dir) {
        if f.extension().map(|e| e == "rs").unwrap_or(false) {
            comp_files += 1;
            let stem = f.file_stem().unwrap().to_string_lossy().into_owned();
            let text = norm_lines(&std::fs::read_to_string(comp_dir.join(&f)).map_err(|e| e.to_string())?);
            let (fname, env_name) = match imports.get(&stem) {
                Some(x) => x.clone(),
                None => return Err(format!("component {} is not imported by the module", stem)),
            };
            let body = match mods.get(&fname) {
                Some(b) => b,
                None => return Err(format!("module-mode output has no rule module {}", fname)),
            };
            if &text != body {
                let pos = text.iter().zip(body.iter()).position(|(a, b)| a != b);
                return Err(format!("rule code of {} differs between component source and module (normalised line {:?})", fname, pos));
            }
            // exported symbol and env struct
            for w in text.windows(2) {
                if w[0] == "#[unsafe(no_mangle)]" {
                    let name = w[1].trim_start_matches("pub fn ").split('(').next().unwrap_or("").to_string();
                    let env = w[1].split("env: ").nth(1).unwrap_or("").trim_end_matches(") {").to_string();
                    if env != env_name {
                        return Err(format!("{}: exported function takes {} but the module passes {}", stem, env, env_name));
                    }
                    exports.insert(name);
                }
            }
            let ce = env_structs(&text);
            match (ce.get(&env_name), module_envs.get(&env_name)) {
                (Some(a), Some(b)) if a == b => {}
                (a, b) => return Err(format!("environment struct {} is declared differently on the two sides of the library boundary: component {:?} vs module {:?}", env_name, a, b)),
            }
        }
    }
    let imported: BTreeSet<String> = imports.keys().cloned().collect();
    if imported != exports {
        return Err(format!("imported link names {:?} != exported symbols {:?}", imported.difference(&exports).collect::<Vec<_>>(), exports.difference(&imported).collect::<Vec<_>>()));
    }
    Ok(comp_files)
}

pub fn c19_one(pc: &ProgramCase, seed: u64, n_hist: usize) -> Result<(usize, usize, Option<String>), String> {
    let bm = match pipeline::build_driver(&pc.program, &pc.source, Mode::Module) {
        Ok(b) => b,
        Err(BuildError::Rejected(_)) | Err(BuildError::Infra(_)) => return Ok((0, 0, None)),
        Err(e) => return Err(format!("module build failed: {}", format!("{:?}", e).chars().take(200).collect::<String>())),
    };
    let bc = match pipeline::build_driver(&pc.program, &pc.source, Mode::Component) {
        Ok(b) => b,
        Err(BuildError::Infra(_)) => return Ok((0, 0, None)),
        Err(e) => return Err(format!("component build failed although the module build succeeded: {}", format!("{:?}", e).chars().take(200).collect::<String>())),
    };
    let comp_dir = bc.comp_dir();
    let n_comp = c19_text(&bm.module_text, &bc.module_text, &comp_dir)?;
    // dynamic: identical transcripts
    let spec = campaign::spec_for("C20", "quick");
    let ro = campaign::render_opts(&pc.program, &spec);
    let mut runner = pt::runner(seed, 19000 + pc.index as u64);
    let strat = hist::history_strategy(spec.max_ops);
    let hs: Vec<Vec<Op>> = (0..n_hist).map(|_| strat.new_tree(&mut runner).expect("tree").current()).collect();
    let mut script = String::new();
    for h in &hs {
        script.push_str(&hist::script(&hist::render(&pc.program, h, &ro)));
    }
    let to = Duration::from_secs(30 + n_hist as u64);
    let a = pipeline::run_driver(&bm.exe, &script, to, &[]).map_err(|e| e.to_string())?;
    let b = pipeline::run_driver(&bc.exe, &script, to, &[]).map_err(|e| e.to_string())?;
    if a.timed_out || b.timed_out {
        return Ok((n_comp, 0, None));
    }
    if a.stdout != b.stdout || a.code != b.code {
        let (sa, sb) = (a.stdout_str(), b.stdout_str());
        let line = sa.lines().zip(sb.lines()).position(|(x, y)| x != y);
        return Err(format!("module-build driver and component-build driver disagree on the same script (first differing transcript line {:?}; exit {:?} vs {:?})", line, a.code, b.code));
    }
    Ok((n_comp, hs.len(), Some(script.lines().take(40).collect::<Vec<_>>().join("\n"))))
}

/// Text half of C19 for a bare source: module build vs component build (stand-in rustc: only the
/// emitted sources are compared). Ok(None) = rejected; Ok(Some(n)) = n components compared.
pub fn c19_text_only(source: &str) -> Result<Option<usize>, String> {
    let s = Scratch::new("c19g");
    let src = s.join("src");
    std::fs::create_dir_all(&src).unwrap();
    std::fs::write(src.join(format!("{}.eql", THEORY)), source).unwrap();
    let m = pipeline::run_cli(&CliOpts { src: &src, out: &s.join("outm"), component_out: None, rustc_path: None, threads: None, envs: vec![], cwd: None });
    if m.out.timed_out || !m.accepted() {
        return Ok(None);
    }
    let fr = fake_rustc();
    let c = pipeline::run_cli(&CliOpts { src: &src, out: &s.join("outc"), component_out: Some(&s.join("comp")), rustc_path: Some(&fr), threads: None, envs: vec![], cwd: None });
    if c.out.timed_out {
        return Ok(None);
    }
    if !c.accepted() {
        return Err(format!("component build fails although the module build succeeds: {}", c.out.stderr_str().lines().next().unwrap_or("")));
    }
    let mt = std::fs::read_to_string(s.join("outm").join(format!("{}.eql.rs", THEORY))).map_err(|e| e.to_string())?;
    let ct = std::fs::read_to_string(s.join("outc").join(format!("{}.eql.rs", THEORY))).map_err(|e| e.to_string())?;
    let n = c19_text(&mt, &ct, &s.join("comp").join(format!("{}.eql", THEORY)))?;
    Ok(Some(n))
}

pub fn run_c19(tier: &str, seed: u64) -> campaign::CampaignResult {
    let start = Instant::now();
    let np = env_usize("EQV_NPROG", if tier == "thorough" { 400 } else { 48 });
    let nh = env_usize("EQV_NHIST", if tier == "thorough" { 300 } else { 100 });
    let known = KnownFindings::load();
    let mut ev = Evidence::new("C19", tier, seed, "exploration");
    let profiles: Vec<String> = vec!["stratified".into(), "free".into(), "with_enums".into(), "surjective".into()];
    let programs = draw_programs(seed, &profiles, np);
    let results: Vec<Result<(usize, usize, Option<String>), String>> = programs.par_iter().map(|pc| c19_one(pc, seed, nh)).collect();
    let mut violations = 0;
    for (pc, res) in programs.iter().zip(results.iter()) {
        match res {
            Ok((ncomp, nhist, sample)) => {
                if *ncomp > 0 {
                    ev.count("programs_compared", 1);
                    ev.count("components_compared", *ncomp as u64);
                    ev.evaluations += 1 + *nhist as u64;
                    if *ncomp >= 3 && *nhist > 0 {
                        ev.nontrivial.insert(util::hash64(&[pc.source.as_bytes()]));
                    }
                    if let Some(s) = sample {
                        ev.sample(json!({"program": print::plain(&pc.program), "script_head": s}), 2);
                    }
                } else {
                    ev.count("programs_skipped", 1);
                }
            }
            Err(msg) => {
                let rep = ProgReplay { kind: "c19".into(), property: "C19".into(), program: Some(pc.program.clone()), source: pc.source.clone(), message: msg.clone(), detail: json!({"n_hist": nh, "index": pc.index}), seed };
                report("C19", &known, &rep, &mut violations);
            }
        }
    }
    // text half on modules derived from the full surface grammar (models, member types, morphisms)
    let ng = env_usize("EQV_NGRAM", if tier == "thorough" { 3000 } else { 200 });
    let gram_sources: Vec<String> = pt::draw_tapes(seed ^ 0x6719, ng, 500).into_iter().map(|tape| crate::gram::gen_module(&tape, 0)).collect();
    let gram_results: Vec<Result<Option<usize>, String>> = gram_sources.par_iter().map(|src| c19_text_only(src)).collect();
    for (src, res) in gram_sources.iter().zip(gram_results.iter()) {
        match res {
            Ok(Some(n)) => {
                ev.count("grammar_modules_compared_textually", 1);
                ev.count("components_compared", *n as u64);
                ev.evaluations += 1;
                if *n >= 3 && src.contains("model ") {
                    ev.nontrivial.insert(util::hash64(&[src.as_bytes()]));
                }
            }
            Ok(None) => ev.count("grammar_modules_rejected", 1),
            Err(msg) => {
                let rep = ProgReplay { kind: "c19".into(), property: "C19".into(), program: None, source: src.clone(), message: msg.clone(), detail: json!({"generator": "grammar", "text_only": true}), seed };
                report("C19", &known, &rep, &mut violations);
            }
        }
    }
    ev.extra.insert("programs".into(), json!(ev.counters.get("programs_compared").copied().unwrap_or(0)));
    ev.rule = format!("modules derived from the full surface grammar (models, member types, morphisms; text comparison only, stand-in rustc) and generated programs built in module mode and in component mode (real rustc per rule): text comparison of every component source with the rule module in the module-mode output, of the environment structs and signatures on both sides, of imported link names with exported symbols; then {} generated API histories per program run against both drivers with byte-identical transcripts required; evaluations = programs + histories; non-trivial = program with >= 3 component libraries whose histories were compared; distinct by source hash", nh);
    ev.assumptions = vec!["struct layout across the extern \"Rust\" boundary is taken to be identical when the declarations are textually identical and compiled by the same rustc".into()];
    ev.violations = violations as u64;
    ev.wall_s = start.elapsed().as_secs_f64();
    ev.write();
    println!("C19 {} seed={} programs={} nontrivial={} violations={} wall={:.1}s", tier, seed, programs.len(), ev.nontrivial.len(), violations, ev.wall_s);
    campaign::CampaignResult { violations, inconclusive: ev.counters.get("programs_compared").copied().unwrap_or(0) == 0 }
}

// ------------------------------------------------------------------------------------------
// C20

pub fn c20_one(pc: &ProgramCase, seed: u64, n_hist: usize, prebuilt: Option<Result<pipeline::Built, BuildError>>) -> Result<(usize, BTreeSet<u64>, Option<String>), String> {
    let rules = flat::flatten_program(&pc.program).unwrap_or_default();
    let b = match prebuilt.unwrap_or_else(|| pipeline::build_driver(&pc.program, &pc.source, Mode::Module)) {
        Ok(b) => b,
        Err(_) => return Ok((0, BTreeSet::new(), None)),
    };
    let mut spec = campaign::spec_for("C20", "quick");
    spec.auto = 2;
    let ro = campaign::render_opts(&pc.program, &spec);
    let mut runner = pt::runner(seed, 20000 + pc.index as u64);
    let strat = hist::history_strategy(spec.max_ops);
    let hs: Vec<Vec<Op>> = (0..n_hist).map(|_| strat.new_tree(&mut runner).expect("tree").current()).collect();
    let mut cmds = Vec::new();
    let mut spans = Vec::new();
    for h in &hs {
        let c = hist::render(&pc.program, h, &ro);
        spans.push((cmds.len(), c.len()));
        cmds.extend(c);
    }
    let script = hist::script(&cmds);
    let to = Duration::from_secs(30 + n_hist as u64);
    let envs: [Vec<(String, String)>; 3] = [
        vec![],
        vec![("EQV_PADDING".into(), "y".repeat(9000)), ("MALLOC_ARENA_MAX".into(), "1".into())],
        vec![("RUST_MIN_STACK".into(), "16777216".into()), ("MALLOC_PERTURB_".into(), "165".into()), ("TZ".into(), "Asia/Kathmandu".into())],
    ];
    let mut outs = Vec::new();
    for e in &envs {
        let o = pipeline::run_driver(&b.exe, &script, to, e).map_err(|e| e.to_string())?;
        if o.timed_out {
            return Ok((0, BTreeSet::new(), None));
        }
        outs.push(o);
    }
    for i in 1..outs.len() {
        if outs[i].stdout != outs[0].stdout || outs[i].code != outs[0].code {
            let (sa, sb) = (outs[0].stdout_str(), outs[i].stdout_str());
            let line = sa.lines().zip(sb.lines()).position(|(x, y)| x != y);
            return Err(format!("two executions of the same script in fresh processes give different transcripts (run 0 vs run {}; first differing line {:?})", i, line));
        }
    }
    // non-triviality through the judge's statistics
    let resps = hist::parse_transcript(&outs[0].stdout_str(), cmds.len());
    let judge = Judge { p: &pc.program, rules: &rules, or: Oracles::default(), bounds: Default::default(), id_bound: ro.id_bound, max_evals: ro.max_evals };
    let mut nt = BTreeSet::new();
    for (hi, (s, l)) in spans.iter().enumerate() {
        let (_, st) = judge.judge(&cmds[*s..*s + *l], &resps[*s..*s + *l], *s);
        if (st.merges > 0 || st.equates_distinct > 0) && (st.created > 0 || st.tuples_added > 0) {
            nt.insert(util::hash64(&[pc.source.as_bytes(), hist::script(&cmds[*s..*s + *l]).as_bytes()]));
        }
        let _ = hi;
    }
    Ok((hs.len(), nt, Some(script.lines().take(30).collect::<Vec<_>>().join("\n"))))
}

pub fn run_c20(tier: &str, seed: u64) -> campaign::CampaignResult {
    let start = Instant::now();
    let np = env_usize("EQV_NPROG", if tier == "thorough" { 600 } else { 64 });
    let nh = env_usize("EQV_NHIST", if tier == "thorough" { 200 } else { 150 });
    let known = KnownFindings::load();
    let mut ev = Evidence::new("C20", tier, seed, "exploration");
    let profiles: Vec<String> = vec!["stratified".into(), "free".into(), "with_enums".into(), "surjective".into()];
    let programs = draw_programs(seed, &profiles, np);
    let items: Vec<(&Program, &str)> = programs.iter().map(|pc| (&pc.program, pc.source.as_str())).collect();
    let builts = pipeline::build_all(&items, Mode::Module);
    let results: Vec<Result<(usize, BTreeSet<u64>, Option<String>), String>> = programs.par_iter().zip(builts.into_par_iter()).map(|(pc, b)| c20_one(pc, seed, nh, Some(b))).collect();
    let mut violations = 0;
    for (pc, res) in programs.iter().zip(results.iter()) {
        match res {
            Ok((n, nt, sample)) => {
                ev.evaluations += *n as u64;
                if *n > 0 {
                    ev.count("programs_run", 1);
                }
                ev.nontrivial.extend(nt.iter().copied());
                if let (Some(s), true) = (sample, !nt.is_empty()) {
                    ev.sample(json!({"program": print::plain(&pc.program), "script_head": s}), 2);
                }
            }
            Err(msg) => {
                let rep = ProgReplay { kind: "c20".into(), property: "C20".into(), program: Some(pc.program.clone()), source: pc.source.clone(), message: msg.clone(), detail: json!({"n_hist": nh, "index": pc.index}), seed };
                report("C20", &known, &rep, &mut violations);
            }
        }
    }
    ev.extra.insert("programs".into(), json!(ev.counters.get("programs_run").copied().unwrap_or(0)));
    ev.extra.insert("executions_per_history".into(), json!(3));
    ev.rule = "generated programs x generated API histories; every script is executed by three fresh driver processes (ASLR on; different environment size, allocator settings, RUST_MIN_STACK) and the complete transcripts (returned ids, query answers, iterator output and private index dumps after every call) must be byte-identical; evaluations = histories; non-trivial = history with >= 1 merge of distinct classes and >= 1 derived tuple or element; distinct by hash(program, script)".into();
    ev.assumptions = vec!["nondeterminism that does not show within three executions is not detected".into()];
    ev.violations = violations as u64;
    ev.wall_s = start.elapsed().as_secs_f64();
    ev.write();
    println!("C20 {} seed={} programs={} histories={} nontrivial={} violations={} wall={:.1}s", tier, seed, programs.len(), ev.evaluations, ev.nontrivial.len(), violations, ev.wall_s);
    campaign::CampaignResult { violations, inconclusive: ev.evaluations == 0 }
}

pub fn replay_prog(rep: &ProgReplay) -> Result<Option<String>, String> {
    match rep.kind.as_str() {
        "c09" => match rep.program.as_ref() {
            Some(p) => Ok(c09_one(p, &rep.source).0.err()),
            None => Ok(c09_source_only(&rep.source).err()),
        },
        "c13" => {
            let th = rep.detail.get("theory").and_then(|v| v.as_str()).unwrap_or(THEORY).to_string();
            match c13_one(&rep.source, &th) {
                Ok(_) => Ok(None),
                Err(e) if e == "timeout" => Err(e),
                Err(e) => Ok(Some(e)),
            }
        }
        "c19" if rep.program.is_none() => match c19_text_only(&rep.source) {
            Ok(_) => Ok(None),
            Err(e) => Ok(Some(e)),
        },
        "c19" | "c20" => {
            let p = rep.program.clone().ok_or("no program")?;
            let nh = rep.detail.get("n_hist").and_then(|v| v.as_u64()).unwrap_or(50) as usize;
            let index = rep.detail.get("index").and_then(|v| v.as_u64()).unwrap_or(0) as usize;
            let pc = ProgramCase { index, profile: crate::gen::Profile::free(), program: p, source: rep.source.clone() };
            let r = if rep.kind == "c19" { c19_one(&pc, rep.seed, nh).map(|_| ()) } else { c20_one(&pc, rep.seed, nh, None).map(|_| ()) };
            Ok(r.err())
        }
        k => Err(format!("unknown kind {}", k)),
    }
}
