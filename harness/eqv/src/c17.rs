//! C17: member relations are inherited along morphisms like ordinary facts. Programs with one
//! model declaration whose member predicates range over global types, global predicates and
//! rules over `m.p(..)` atoms; inputs: models, an acyclic multigraph of morphisms, member and
//! global facts; histories vary when morphisms, their dom/cod and the facts arrive relative to
//! each other and to closes. Oracle: the reference chase with inheritance spelled out as
//! ordinary rules, compared up to isomorphism after every close (C02's oracle), plus closedness.

use crate::ast::*;
use crate::campaign;
use crate::evidence::{self, Evidence, KnownFindings};
use crate::flat::{self, FlatRule};
use crate::gen::Tape;
use crate::hist::{self, Cmd, CmdKind};
use crate::pipeline::{self, Mode};
use crate::print;
use crate::pt;
use crate::sem::{Judge, Oracles};
use crate::util;
use rayon::prelude::*;
use serde::{Deserialize, Serialize};
use serde_json::json;
use std::time::{Duration, Instant};

pub struct Sig {
    pub model: TypeId,
    pub mor: TypeId,
    pub dom: RelId,
    pub cod: RelId,
    pub members: Vec<RelId>,
    pub globals: Vec<RelId>,
    pub plain: Vec<TypeId>,
}

pub fn sig_of(p: &Program) -> Sig {
    let model = (0..p.types.len()).find(|&t| matches!(p.types[t].kind, TypeKind::Model(_))).expect("model type");
    let mor = (0..p.types.len()).find(|&t| matches!(p.types[t].kind, TypeKind::Mor(_))).expect("mor type");
    Sig {
        model,
        mor,
        dom: (0..p.rels.len()).find(|&r| matches!(p.rels[r].kind, RelKind::Dom(_))).unwrap(),
        cod: (0..p.rels.len()).find(|&r| matches!(p.rels[r].kind, RelKind::Cod(_))).unwrap(),
        members: (0..p.rels.len()).filter(|&r| matches!(p.rels[r].kind, RelKind::Member(_))).collect(),
        globals: (0..p.rels.len()).filter(|&r| p.rels[r].kind == RelKind::Pred).collect(),
        plain: (0..p.types.len()).filter(|&t| p.types[t].kind == TypeKind::Plain).collect(),
    }
}

const MODEL_NAMES: &[&str] = &["Subs", "Grp", "Bag"];
const MEMBER_NAMES: &[&str] = &["element", "holds", "pair", "tag"];
const GLOBAL_NAMES: &[&str] = &["seen", "both", "link", "flag"];
const TYPE_NAMES: &[&str] = &["Carrier", "Key"];

/// Programs of the C17 fragment.
pub fn gen_model_program(tape: &[u16]) -> Program {
    let mut t = Tape::new(tape);
    let n_plain = 1 + t.pick(2);
    let mut types: Vec<TypeDecl> = (0..n_plain).map(|i| TypeDecl { name: TYPE_NAMES[i].to_string(), kind: TypeKind::Plain }).collect();
    let mname = MODEL_NAMES[t.pick(MODEL_NAMES.len())];
    let model = types.len();
    types.push(TypeDecl { name: mname.to_string(), kind: TypeKind::Model(vec![]) });
    let mor = types.len();
    types.push(TypeDecl { name: format!("{}Mor", mname), kind: TypeKind::Mor(model) });
    let mut rels: Vec<RelDecl> = Vec::new();
    let n_mem = 1 + t.pick(2);
    let mut members = Vec::new();
    for i in 0..n_mem {
        let ar = 1 + t.pick(2);
        let mut cols = vec![model];
        for _ in 0..ar {
            cols.push(t.pick(n_plain));
        }
        members.push(rels.len());
        rels.push(RelDecl { name: MEMBER_NAMES[i].to_string(), kind: RelKind::Member(model), cols });
    }
    types[model].kind = TypeKind::Model(members.clone());
    let n_glob = 1 + t.pick(3);
    let mut globals = Vec::new();
    for i in 0..n_glob {
        let ar = 1 + t.pick(2);
        let cols = (0..ar).map(|_| t.pick(n_plain)).collect();
        globals.push(rels.len());
        rels.push(RelDecl { name: GLOBAL_NAMES[i].to_string(), kind: RelKind::Pred, cols });
    }
    let dom = rels.len();
    rels.push(RelDecl { name: format!("{}_mor_dom", snake(mname)), kind: RelKind::Dom(model), cols: vec![mor, model] });
    let cod = rels.len();
    rels.push(RelDecl { name: format!("{}_mor_cod", snake(mname)), kind: RelKind::Cod(model), cols: vec![mor, model] });
    let mut p = Program { types, rels, rules: vec![], order: vec![], layout: 0 };
    // rules over member atoms
    let n_rules = 1 + t.pick(4);
    let var_for = |ty: TypeId, k: usize| -> Term { Term::Var(format!("{}{}", ["x", "y", "z", "w"][k % 4], if ty == 0 { "" } else { "_k" })) };
    for ri in 0..n_rules {
        let mut body = Vec::new();
        let m0 = Term::Var("m".into());
        let m1 = Term::Var("n".into());
        let mem = members[t.pick(members.len())];
        let mem_args = |t: &mut Tape, m: &Term, r: RelId, p: &Program| -> Vec<Term> {
            let mut a = vec![m.clone()];
            for &ty in &p.rels[r].cols[1..] {
                a.push(var_for(ty, t.pick(2)));
            }
            a
        };
        let glob_args = |t: &mut Tape, r: RelId, p: &Program| -> Vec<Term> { p.rels[r].cols.iter().map(|&ty| var_for(ty, t.pick(2))).collect() };
        match t.pick(5) {
            0 => {
                // member -> global
                let g = globals[t.pick(globals.len())];
                body.push(Stmt::If(IfAtom::Pred(mem, mem_args(&mut t, &m0, mem, &p))));
                body.push(Stmt::Then(ThenAtom::Pred(g, glob_args(&mut t, g, &p))));
            }
            1 => {
                // two member facts of one model -> member fact
                let mem2 = members[t.pick(members.len())];
                let mem3 = members[t.pick(members.len())];
                body.push(Stmt::If(IfAtom::Pred(mem, mem_args(&mut t, &m0, mem, &p))));
                body.push(Stmt::If(IfAtom::Pred(mem2, mem_args(&mut t, &m0, mem2, &p))));
                body.push(Stmt::Then(ThenAtom::Pred(mem3, mem_args(&mut t, &m0, mem3, &p))));
            }
            2 => {
                // global fact -> member fact of every model
                let g = globals[t.pick(globals.len())];
                body.push(Stmt::If(IfAtom::Pred(g, glob_args(&mut t, g, &p))));
                body.push(Stmt::If(IfAtom::Typed(m0.clone(), model)));
                body.push(Stmt::Then(ThenAtom::Pred(mem, mem_args(&mut t, &m0, mem, &p))));
            }
            3 => {
                // facts of two models -> global
                let mem2 = members[t.pick(members.len())];
                let g = globals[t.pick(globals.len())];
                body.push(Stmt::If(IfAtom::Pred(mem, mem_args(&mut t, &m0, mem, &p))));
                body.push(Stmt::If(IfAtom::Pred(mem2, mem_args(&mut t, &m1, mem2, &p))));
                body.push(Stmt::Then(ThenAtom::Pred(g, glob_args(&mut t, g, &p))));
            }
            _ => {
                // along a morphism, explicitly
                let g = globals[t.pick(globals.len())];
                let h = Term::Var("h".into());
                body.push(Stmt::If(IfAtom::Eq(Term::App(dom, vec![h.clone()]), m0.clone())));
                body.push(Stmt::If(IfAtom::Eq(Term::App(cod, vec![h.clone()]), m1.clone())));
                body.push(Stmt::If(IfAtom::Pred(mem, mem_args(&mut t, &m1, mem, &p))));
                body.push(Stmt::Then(ThenAtom::Pred(g, glob_args(&mut t, g, &p))));
            }
        }
        // every variable must occur twice and then-atoms may only use bound variables: add typing
        // premises for variables of the conclusion that the premise does not bind, and for
        // variables that occur once
        let mut counts: std::collections::BTreeMap<String, (usize, bool, Option<TypeId>)> = Default::default();
        {
            let mut note = |tm: &Term, in_if: bool, ty: Option<TypeId>| {
                if let Term::Var(v) = tm {
                    let e = counts.entry(v.clone()).or_insert((0, false, None));
                    e.0 += 1;
                    e.1 |= in_if;
                    if e.2.is_none() {
                        e.2 = ty;
                    }
                }
            };
            for s in &body {
                match s {
                    Stmt::If(IfAtom::Pred(r, a)) => a.iter().zip(p.rels[*r].cols.iter()).for_each(|(x, &ty)| note(x, true, Some(ty))),
                    Stmt::Then(ThenAtom::Pred(r, a)) => a.iter().zip(p.rels[*r].cols.iter()).for_each(|(x, &ty)| note(x, false, Some(ty))),
                    Stmt::If(IfAtom::Typed(x, ty)) => note(x, true, Some(*ty)),
                    Stmt::If(IfAtom::Eq(l, r)) => {
                        if let Term::App(_, a) = l {
                            note(&a[0], true, Some(mor));
                        }
                        note(r, true, Some(model));
                    }
                    _ => {}
                }
            }
        }
        let mut pre = Vec::new();
        for (v, (n, in_if, ty)) in &counts {
            // model and morphism variables always get an explicit typing premise: `m.p(..)`,
            // `dom(h)` do not determine the type of `m` / `h` by themselves
            let explicit = *ty == Some(model) || *ty == Some(mor);
            if !*in_if || *n == 1 || explicit {
                pre.push(Stmt::If(IfAtom::Typed(Term::Var(v.clone()), ty.expect("typed"))));
            }
        }
        pre.extend(body);
        p.rules.push(Rule { name: Some(format!("r_{}", (b'a' + ri as u8) as char)), body: pre });
    }
    let mut order: Vec<DeclRef> = Vec::new();
    for ty in 0..p.types.len() {
        if !matches!(p.types[ty].kind, TypeKind::Mor(_)) {
            order.push(DeclRef::Type(ty));
        }
    }
    for &g in &globals {
        order.push(DeclRef::Rel(g));
    }
    for r in 0..p.rules.len() {
        order.push(DeclRef::Rule(r));
    }
    p.order = order;
    p.layout = t.pick(1 << 15) as u32;
    p
}

#[derive(Clone, Debug, Serialize, Deserialize)]
pub struct Case {
    pub n_models: usize,
    pub n_elems: Vec<usize>,
    /// (dom model, cod model) with dom < cod: acyclic by construction
    pub mors: Vec<(usize, usize)>,
    /// member facts: (member pred index, model, element selectors)
    pub member_facts: Vec<(usize, usize, Vec<u16>)>,
    pub global_facts: Vec<(usize, Vec<u16>)>,
    /// order in which the items (morphisms, dom rows, cod rows, facts, closes) are issued
    pub schedule: Vec<u16>,
    pub n_closes: usize,
    /// allow morphisms / dom / cod rows after a close that already saw member facts
    pub late_morphisms: bool,
    /// > 0: all morphism rows come first, with this many closes placed BETWEEN them (before any fact
    /// exists): the dom/cod tables are then split into an old and a new half when the facts arrive
    #[serde(default)]
    pub early_closes: usize,
}

pub fn gen_case(p: &Program, tape: &[u16], late_morphisms: bool) -> Case {
    let s = sig_of(p);
    let mut t = Tape::new(tape);
    let n_models = 2 + t.pick(3);
    let n_elems: Vec<usize> = s.plain.iter().map(|_| 1 + t.pick(3)).collect();
    let n_mors = 1 + t.pick(4);
    let mut mors = Vec::new();
    for _ in 0..n_mors {
        let a = t.pick(n_models - 1);
        let b = a + 1 + t.pick(n_models - a - 1);
        mors.push((a, b));
    }
    let mut member_facts = Vec::new();
    for _ in 0..(1 + t.pick(5)) {
        let k = t.pick(s.members.len());
        member_facts.push((k, t.pick(n_models), (0..3).map(|_| t.pick(1 << 16) as u16).collect()));
    }
    let mut global_facts = Vec::new();
    for _ in 0..t.pick(3) {
        let k = t.pick(s.globals.len());
        global_facts.push((k, (0..3).map(|_| t.pick(1 << 16) as u16).collect()));
    }
    // decided before the schedule is drawn: the schedule takes 64 tape entries and short tapes end there
    let n_closes = t.pick(3);
    let early_closes = if !late_morphisms && t.chance(1, 3) { 1 + t.pick(2) } else { 0 };
    let schedule = (0..64).map(|_| t.pick(1 << 16) as u16).collect();
    Case { n_models, n_elems, mors, member_facts, global_facts, schedule, n_closes, late_morphisms, early_closes }
}

/// Renders the case into driver commands. Items: for each morphism `new`, `dom row`, `cod row`;
/// member facts; global facts; intermediate closes. Unless `late_morphisms`, all morphism items
/// precede the first close.
pub fn render(p: &Program, c: &Case) -> (Vec<Cmd>, bool, bool) {
    let s = sig_of(p);
    let mut cmds = vec![Cmd { text: "reset".into(), kind: CmdKind::Reset }, Cmd { text: "auto 1".into(), kind: CmdKind::Auto }];
    for (i, _) in s.plain.iter().enumerate() {
        for k in 0..c.n_elems[i] {
            cmds.push(Cmd { text: format!("new {} e{}_{}", s.plain[i], i, k), kind: CmdKind::New(s.plain[i]) });
        }
    }
    for m in 0..c.n_models {
        cmds.push(Cmd { text: format!("new {} m{}", s.model, m), kind: CmdKind::New(s.model) });
    }
    #[derive(Clone)]
    enum Item {
        NewMor(usize),
        Dom(usize),
        Cod(usize),
        Member(usize),
        Global(usize),
        Close,
    }
    let mut mor_items = Vec::new();
    for (i, _) in c.mors.iter().enumerate() {
        mor_items.push(Item::Dom(i));
        mor_items.push(Item::Cod(i));
    }
    let mut other = Vec::new();
    for i in 0..c.member_facts.len() {
        other.push(Item::Member(i));
    }
    for i in 0..c.global_facts.len() {
        other.push(Item::Global(i));
    }
    let closes = c.n_closes;
    let mut sched = c.schedule.iter().copied().cycle();
    let mut pick = move |n: usize| -> usize { ((sched.next().unwrap() as usize) * n) >> 16 };
    // interleave
    let mut items: Vec<Item> = Vec::new();
    if c.late_morphisms {
        let mut all = mor_items;
        all.extend(other);
        for _ in 0..closes {
            all.push(Item::Close);
        }
        for i in (1..all.len()).rev() {
            let j = pick(i + 1);
            all.swap(i, j);
        }
        items = all;
    } else {
        // morphism rows and facts are shuffled together, then closes are placed after the last
        // morphism item
        let mut all = mor_items;
        all.extend(other);
        for i in (1..all.len()).rev() {
            let j = pick(i + 1);
            all.swap(i, j);
        }
        if c.early_closes > 0 {
            // morphism rows first (in their shuffled order), closes between them, facts afterwards
            let (mut m, o): (Vec<Item>, Vec<Item>) = all.into_iter().partition(|x| matches!(x, Item::Dom(_) | Item::Cod(_)));
            for _ in 0..c.early_closes {
                if m.len() >= 2 {
                    let pos = 1 + pick(m.len() - 1);
                    m.insert(pos, Item::Close);
                }
            }
            m.extend(o);
            all = m;
        }
        let last_mor = all.iter().rposition(|x| matches!(x, Item::Dom(_) | Item::Cod(_))).map(|x| x + 1).unwrap_or(0);
        for _ in 0..closes {
            let pos = last_mor + pick(all.len() - last_mor + 1);
            all.insert(pos, Item::Close);
        }
        items.extend(all);
    }
    // morphism elements are created right before their first row
    let mut created = vec![false; c.mors.len()];
    let mut saw_close_with_facts = false;
    let mut facts_so_far = false;
    let mut late = false;
    let close_cmd = "cu 0 evals 200000".to_string();
    let elem = |ty_pos: usize, sel: u16, c: &Case| -> String { format!("$e{}_{}", ty_pos, ((sel as usize) * c.n_elems[ty_pos]) >> 16) };
    let mut final_items = items;
    final_items.push(Item::Close);
    let mut ensure = |i: usize, cmds: &mut Vec<Cmd>, created: &mut Vec<bool>| {
        if !created[i] {
            created[i] = true;
            cmds.push(Cmd { text: format!("new {} h{}", s.mor, i), kind: CmdKind::New(s.mor) });
        }
    };
    for it in final_items {
        match it {
            Item::NewMor(i) => ensure(i, &mut cmds, &mut created),
            Item::Dom(i) => {
                ensure(i, &mut cmds, &mut created);
                if saw_close_with_facts {
                    late = true;
                }
                cmds.push(Cmd { text: format!("ins {} $h{} $m{}", s.dom, i, c.mors[i].0), kind: CmdKind::Insert(s.dom) });
            }
            Item::Cod(i) => {
                ensure(i, &mut cmds, &mut created);
                if saw_close_with_facts {
                    late = true;
                }
                cmds.push(Cmd { text: format!("ins {} $h{} $m{}", s.cod, i, c.mors[i].1), kind: CmdKind::Insert(s.cod) });
            }
            Item::Member(i) => {
                let (k, m, sels) = &c.member_facts[i];
                let r = s.members[*k];
                let mut a = vec![format!("$m{}", m)];
                for (j, &ty) in p.rels[r].cols[1..].iter().enumerate() {
                    let pos = s.plain.iter().position(|&x| x == ty).unwrap();
                    a.push(elem(pos, sels[j], c));
                }
                cmds.push(Cmd { text: format!("ins {} {}", r, a.join(" ")), kind: CmdKind::Insert(r) });
                facts_so_far = true;
            }
            Item::Global(i) => {
                let (k, sels) = &c.global_facts[i];
                let r = s.globals[*k];
                let a: Vec<String> = p.rels[r].cols.iter().enumerate().map(|(j, &ty)| elem(s.plain.iter().position(|&x| x == ty).unwrap(), sels[j], c)).collect();
                cmds.push(Cmd { text: format!("ins {} {}", r, a.join(" ")), kind: CmdKind::Insert(r) });
                facts_so_far = true;
            }
            Item::Close => {
                cmds.push(Cmd { text: close_cmd.clone(), kind: CmdKind::Close });
                if facts_so_far {
                    saw_close_with_facts = true;
                }
            }
        }
    }
    let has_mid_close = c.n_closes > 0;
    (cmds, late, has_mid_close)
}

#[derive(Clone, Debug, Serialize, Deserialize)]
pub struct C17Replay {
    pub kind: String,
    pub property: String,
    pub program: Program,
    pub source: String,
    pub case: Case,
    pub message: String,
    pub script: String,
    pub seed: u64,
}

pub struct Outcome {
    pub finding: Option<String>,
    pub infra: Option<String>,
    pub inherited: bool,
    pub rule_on_inherited: bool,
    pub late: bool,
    pub script: String,
}

pub fn rules_for(p: &Program) -> Result<Vec<FlatRule>, String> {
    let mut r = flat::flatten_program(p)?;
    r.extend(flat::inheritance_rules(p));
    Ok(r)
}

pub fn run_case(p: &Program, rules: &[FlatRule], exe: &std::path::Path, c: &Case) -> Outcome {
    let (cmds, late, _) = render(p, c);
    let script = hist::script(&cmds);
    let mut o = Outcome { finding: None, infra: None, inherited: false, rule_on_inherited: false, late, script: script.clone() };
    let out = match pipeline::run_driver(exe, &script, Duration::from_secs(30), &[]) {
        Ok(x) => x,
        Err(e) => {
            o.infra = Some(e.to_string());
            return o;
        }
    };
    if out.timed_out {
        o.infra = Some("timeout".into());
        return o;
    }
    let resps = hist::parse_transcript(&out.stdout_str(), cmds.len());
    let judge = Judge { p, rules, or: Oracles { c01: true, c02: true, ..Default::default() }, bounds: Default::default(), id_bound: None, max_evals: 200_000 };
    let (findings, st) = judge.judge(&cmds, &resps, 0);
    if let Some(f) = findings.first() {
        o.finding = Some(f.msg.clone());
    }
    // non-triviality: something was inherited (the closed model has more member tuples than were
    // asserted) and a derived global tuple exists
    let s = sig_of(p);
    if let Some(last) = resps.iter().rev().find_map(|r| r.last_dump(p).ok().flatten()) {
        let asserted: usize = c.member_facts.len();
        let total: usize = s.members.iter().map(|&r| last.iter_rel[r].len()).sum();
        o.inherited = total > asserted.min(total) || total > asserted;
        let derived_globals: usize = s.globals.iter().map(|&r| last.iter_rel[r].len()).sum();
        o.rule_on_inherited = o.inherited && derived_globals > c.global_facts.len();
    }
    let _ = st;
    o
}

pub fn run_c17(tier: &str, seed: u64) -> campaign::CampaignResult {
    let start = Instant::now();
    let thorough = tier == "thorough";
    let np = std::env::var("EQV_NPROG").ok().and_then(|v| v.parse().ok()).unwrap_or(if thorough { 500 } else { 48 });
    let nc = std::env::var("EQV_NHIST").ok().and_then(|v| v.parse().ok()).unwrap_or(if thorough { 200 } else { 100 });
    let known = KnownFindings::load();
    // the trigger of the known finding is excluded by construction unless it is not listed any more
    let late_allowed = known.known("C17", "C17:late-morphism-inherited-tuples-are-old").is_none();
    let mut ev = Evidence::new("C17", tier, seed, "exploration");
    let tapes = pt::draw_tapes(seed ^ 0xC17, np, 200);
    let programs: Vec<Program> = tapes.iter().map(|t| gen_model_program(t)).collect();
    let sources: Vec<String> = programs.iter().map(|p| print::print(p).text).collect();
    let items: Vec<(&Program, &str)> = programs.iter().zip(sources.iter()).map(|(p, s)| (p, s.as_str())).collect();
    let builts = pipeline::build_all(&items, Mode::Module);
    struct PP {
        built: Result<(), String>,
        rows: Vec<(bool, bool, bool, u64)>,
        finding: Option<(Case, String, String)>,
        sample: Option<serde_json::Value>,
        infra: usize,
    }
    let results: Vec<PP> = programs
        .par_iter()
        .zip(builts.into_par_iter())
        .enumerate()
        .map(|(pi, (p, b))| {
            let mut pp = PP { built: Ok(()), rows: vec![], finding: None, sample: None, infra: 0 };
            let b = match b {
                Ok(b) => b,
                Err(e) => {
                    pp.built = Err(format!("{:?}", e).chars().take(300).collect());
                    return pp;
                }
            };
            let rules = match rules_for(p) {
                Ok(r) => r,
                Err(e) => {
                    pp.built = Err(format!("reference elaboration: {}", e));
                    return pp;
                }
            };
            let ctapes = pt::draw_tapes(seed.wrapping_add(0xC17).wrapping_add(pi as u64 * 104729), nc, 240);
            for ct in &ctapes {
                let c = gen_case(p, ct, late_allowed);
                let o = run_case(p, &rules, &b.exe, &c);
                if o.infra.is_some() {
                    pp.infra += 1;
                    if pp.infra >= 4 {
                        break;
                    }
                    continue;
                }
                let fp = util::hash64(&[sources[pi].as_bytes(), o.script.as_bytes()]);
                pp.rows.push((o.inherited, o.rule_on_inherited, o.late, fp));
                if pp.sample.is_none() && o.rule_on_inherited && o.finding.is_none() {
                    pp.sample = Some(json!({"program": print::plain(p), "script": o.script}));
                }
                if let Some(msg) = o.finding {
                    // shrink the case: fewer facts, fewer morphisms, fewer closes
                    let mut cur = c.clone();
                    loop {
                        let mut improved = false;
                        let mut cands: Vec<Case> = Vec::new();
                        for i in 0..cur.member_facts.len() {
                            let mut x = cur.clone();
                            x.member_facts.remove(i);
                            cands.push(x);
                        }
                        for i in 0..cur.global_facts.len() {
                            let mut x = cur.clone();
                            x.global_facts.remove(i);
                            cands.push(x);
                        }
                        for i in 0..cur.mors.len() {
                            if cur.mors.len() > 1 {
                                let mut x = cur.clone();
                                x.mors.remove(i);
                                cands.push(x);
                            }
                        }
                        if cur.n_closes > 0 {
                            let mut x = cur.clone();
                            x.n_closes -= 1;
                            cands.push(x);
                        }
                        for x in cands {
                            if run_case(p, &rules, &b.exe, &x).finding.is_some() {
                                cur = x;
                                improved = true;
                                break;
                            }
                        }
                        if !improved {
                            break;
                        }
                    }
                    let o2 = run_case(p, &rules, &b.exe, &cur);
                    pp.finding = Some((cur, o2.finding.unwrap_or(msg), o2.script));
                    break;
                }
            }
            pp
        })
        .collect();
    let mut violations = 0;
    let mut built = 0u64;
    for (pi, pp) in results.iter().enumerate() {
        if let Err(e) = &pp.built {
            ev.count("programs_not_built", 1);
            ev.count(&format!("not_built: {}", e.chars().take(70).collect::<String>()), 1);
            continue;
        }
        built += 1;
        ev.count("infra_problems", pp.infra as u64);
        for (inh, rule, late, fp) in &pp.rows {
            ev.evaluations += 1;
            if *inh {
                ev.count("cases_with_inherited_tuples", 1);
            }
            if *rule {
                ev.count("cases_rule_consumes_inherited_tuple", 1);
                ev.nontrivial.insert(*fp);
            }
            if *late {
                ev.count("cases_with_morphism_rows_after_a_close_with_facts", 1);
            }
        }
        if let Some(s) = &pp.sample {
            ev.sample(s.clone(), 3);
        }
        if let Some((c, msg, script)) = &pp.finding {
            let rep = C17Replay { kind: "c17".into(), property: "C17".into(), program: programs[pi].clone(), source: sources[pi].clone(), case: c.clone(), message: msg.clone(), script: script.clone(), seed };
            let (_, late, _) = render(&programs[pi], c);
            let sig = if late { "C17:late-morphism-inherited-tuples-are-old".to_string() } else { format!("C17:{}", msg.chars().map(|ch| if ch.is_ascii_digit() { '#' } else { ch }).take(90).collect::<String>()) };
            if let Some(k) = known.known("C17", &sig) {
                println!("KNOWN-FINDING: property=C17 {}", k.what);
                continue;
            }
            let path = evidence::write_replay("C17", "model", &serde_json::to_value(&rep).unwrap());
            eprintln!("violation of C17: {}\n  signature: {}", msg, sig);
            evidence::print_violation("C17", &path);
            violations += 1;
        }
    }
    ev.count("programs_built", built);
    if !late_allowed {
        ev.count("excluded_by_construction.morphism_rows_after_a_close_that_saw_facts", 1);
    }
    ev.extra.insert("programs".into(), json!(built));
    ev.rule = "programs: one model declaration with 1-2 member predicates over global types, 1-3 global predicates, 1-4 rules over member atoms (member->global, member+member->member, global->member of every model, two models->global, explicit dom/cod premises); cases: 2-4 models, 1-4 morphisms dom<cod (acyclic), member and global facts, 0-2 intermediate closes, shuffled order of morphism rows and facts; oracle: reference chase with inheritance as ordinary rules, isomorphism after every close; non-trivial = the closed model has inherited member tuples and a rule derived a global tuple; distinct by hash(program, script)".into();
    ev.assumptions = vec!["member relations range over global types only (no member types / morphism application); morphism graphs are acyclic by construction (dom id < cod id), models and morphisms are never equated".into()];
    ev.violations = violations as u64;
    ev.wall_s = start.elapsed().as_secs_f64();
    ev.write();
    println!("C17 {} seed={} programs={} cases={} nontrivial={} violations={} wall={:.1}s", tier, seed, built, ev.evaluations, ev.nontrivial.len(), violations, ev.wall_s);
    campaign::CampaignResult { violations, inconclusive: built == 0 }
}

pub fn replay_c17(rep: &C17Replay) -> Result<Option<String>, String> {
    let rules = rules_for(&rep.program)?;
    let built = pipeline::build_driver(&rep.program, &rep.source, Mode::Module).map_err(|e| format!("{:?}", e))?;
    let o = run_case(&rep.program, &rules, &built.exe, &rep.case);
    if let Some(i) = o.infra {
        return Err(i);
    }
    Ok(o.finding)
}
