//! Plain relational structures with equality: the reference model representation, also used
//! for parsed dumps of the generated model.

use crate::ast::*;
use std::collections::{BTreeMap, BTreeSet};

#[derive(Clone, Debug, PartialEq, Eq)]
pub struct Model {
    /// per type: parent pointers of a union-find over ids 0..len
    pub parent: Vec<Vec<u32>>,
    /// per relation: tuples over canonical (root) ids
    pub rels: Vec<BTreeSet<Vec<u32>>>,
}

impl Model {
    pub fn new(p: &Program) -> Model {
        Model { parent: vec![Vec::new(); p.types.len()], rels: vec![BTreeSet::new(); p.rels.len()] }
    }
    pub fn len(&self, ty: TypeId) -> usize {
        self.parent[ty].len()
    }
    pub fn total_len(&self) -> usize {
        self.parent.iter().map(|p| p.len()).sum()
    }
    pub fn find(&self, ty: TypeId, mut x: u32) -> u32 {
        while self.parent[ty][x as usize] != x {
            x = self.parent[ty][x as usize];
        }
        x
    }
    pub fn new_el(&mut self, ty: TypeId) -> u32 {
        let id = self.parent[ty].len() as u32;
        self.parent[ty].push(id);
        id
    }
    /// Union; the smaller id stays root (arbitrary but deterministic). Returns true if merged.
    pub fn union(&mut self, ty: TypeId, a: u32, b: u32) -> bool {
        let (a, b) = (self.find(ty, a), self.find(ty, b));
        if a == b {
            return false;
        }
        let (r, c) = if a < b { (a, b) } else { (b, a) };
        self.parent[ty][c as usize] = r;
        true
    }
    pub fn roots(&self, ty: TypeId) -> Vec<u32> {
        (0..self.len(ty) as u32).filter(|&x| self.find(ty, x) == x).collect()
    }
    pub fn canon_tuple(&self, p: &Program, rel: RelId, t: &[u32]) -> Vec<u32> {
        t.iter().zip(p.rels[rel].cols.iter()).map(|(&x, &ty)| self.find(ty, x)).collect()
    }
    pub fn insert(&mut self, p: &Program, rel: RelId, t: &[u32]) -> bool {
        let c = self.canon_tuple(p, rel, t);
        self.rels[rel].insert(c)
    }
    pub fn holds(&self, p: &Program, rel: RelId, t: &[u32]) -> bool {
        self.rels[rel].contains(&self.canon_tuple(p, rel, t))
    }
    /// All values of function `rel` at (canonicalised) `args`.
    pub fn eval_all(&self, p: &Program, rel: RelId, args: &[u32]) -> Vec<u32> {
        let n = p.rels[rel].cols.len() - 1;
        let c: Vec<u32> = args.iter().zip(p.rels[rel].cols.iter()).map(|(&x, &ty)| self.find(ty, x)).collect();
        self.rels[rel].iter().filter(|t| t[..n] == c[..]).map(|t| t[n]).collect()
    }
    pub fn eval(&self, p: &Program, rel: RelId, args: &[u32]) -> Option<u32> {
        self.eval_all(p, rel, args).into_iter().next()
    }
    /// Re-canonicalises all tuples and enforces functionality until nothing changes.
    pub fn normalize(&mut self, p: &Program) {
        loop {
            for r in 0..self.rels.len() {
                let old = std::mem::take(&mut self.rels[r]);
                let new: BTreeSet<Vec<u32>> = old.iter().map(|t| self.canon_tuple(p, r, t)).collect();
                self.rels[r] = new;
            }
            let mut merged = false;
            for r in 0..self.rels.len() {
                if !p.rels[r].is_func() {
                    continue;
                }
                let n = p.rels[r].cols.len() - 1;
                let res_ty = p.rels[r].cols[n];
                let mut by_args: BTreeMap<Vec<u32>, u32> = BTreeMap::new();
                let tuples: Vec<Vec<u32>> = self.rels[r].iter().cloned().collect();
                for t in tuples {
                    match by_args.get(&t[..n]) {
                        Some(&v) => {
                            if self.union(res_ty, v, t[n]) {
                                merged = true;
                            }
                        }
                        None => {
                            by_args.insert(t[..n].to_vec(), t[n]);
                        }
                    }
                }
            }
            if !merged {
                break;
            }
        }
    }
    pub fn tuple_count(&self) -> usize {
        self.rels.iter().map(|r| r.len()).sum()
    }
    pub fn class_count(&self, ty: TypeId) -> usize {
        self.roots(ty).len()
    }
}

/// The public part of a driver dump.
#[derive(Clone, Debug, Default, PartialEq, Eq)]
pub struct Dump {
    /// per type: root_(id) for every id 0..len
    pub roots: Vec<Vec<u32>>,
    /// per type: what iter_<type> yielded, in order
    pub iter_ty: Vec<Vec<u32>>,
    /// per relation: what iter_<rel> yielded, in order
    pub iter_rel: Vec<Vec<Vec<u32>>>,
    /// private part: index field -> (arity, tuples in iteration order, is_empty() result)
    pub indices: BTreeMap<String, (usize, Vec<Vec<u32>>, bool)>,
    /// element index field -> rows (key, tuple)
    pub element_indices: BTreeMap<String, (usize, Vec<(u32, Vec<u32>)>)>,
    pub uprooted: Vec<Vec<u32>>,
    pub empty_join_dirty: Option<bool>,
}

pub fn parse_tuple(s: &str) -> Vec<u32> {
    if s == "()" || s.is_empty() {
        return vec![];
    }
    s.split(',').map(|x| x.parse().expect("tuple element")).collect()
}

impl Dump {
    /// Parses the lines between `dump` and `end`.
    pub fn parse(lines: &[&str], ntypes: usize, nrels: usize) -> Result<Dump, String> {
        let mut d = Dump {
            roots: vec![vec![]; ntypes],
            iter_ty: vec![vec![]; ntypes],
            iter_rel: vec![vec![]; nrels],
            uprooted: vec![vec![]; ntypes],
            ..Default::default()
        };
        for l in lines {
            let mut parts = l.split(" :");
            let head: Vec<&str> = parts.next().unwrap_or("").split_whitespace().collect();
            if head.is_empty() {
                continue;
            }
            let nums = |s: Option<&str>| -> Vec<u32> {
                s.unwrap_or("").split_whitespace().map(|x| x.parse().expect("num")).collect()
            };
            match head[0] {
                "T" => {
                    let ty: usize = head[1].parse().map_err(|_| "bad T")?;
                    d.roots[ty] = nums(parts.next());
                    d.iter_ty[ty] = nums(parts.next());
                    let len: usize = head[2].parse().map_err(|_| "bad T len")?;
                    if d.roots[ty].len() != len {
                        return Err(format!("T line length mismatch: {}", l));
                    }
                }
                "R" => {
                    let r: usize = head[1].parse().map_err(|_| "bad R")?;
                    d.iter_rel[r] = parts.next().unwrap_or("").split_whitespace().map(parse_tuple).collect();
                }
                "I" => {
                    let ar: usize = head[2].parse().map_err(|_| "bad I")?;
                    let tuples = parts.next().unwrap_or("").split_whitespace().map(parse_tuple).collect();
                    let empty = parts.next().unwrap_or("").trim() == "1";
                    d.indices.insert(head[1].to_string(), (ar, tuples, empty));
                }
                "X" => {
                    let ar: usize = head[2].parse().map_err(|_| "bad X")?;
                    let rows = parts
                        .next()
                        .unwrap_or("")
                        .split_whitespace()
                        .map(|kv| {
                            let (k, v) = kv.split_once('=').expect("k=v");
                            (k.parse().expect("key"), parse_tuple(v))
                        })
                        .collect();
                    d.element_indices.insert(head[1].to_string(), (ar, rows));
                }
                "U" => {
                    let ty: usize = head[1].parse().map_err(|_| "bad U")?;
                    d.uprooted[ty] = nums(parts.next());
                }
                "F" => d.empty_join_dirty = Some(head[1] == "1"),
                _ => return Err(format!("unknown dump line: {}", l)),
            }
        }
        Ok(d)
    }

    /// The structure described by the public queries: classes from root_, tuples from the
    /// iterators (canonicalised through root_, duplicates collapsed).
    pub fn to_model(&self, p: &Program) -> Model {
        let mut m = Model::new(p);
        for ty in 0..p.types.len() {
            m.parent[ty] = self.roots[ty].clone();
        }
        for r in 0..p.rels.len() {
            for t in &self.iter_rel[r] {
                if t.iter().zip(p.rels[r].cols.iter()).all(|(&x, &ty)| (x as usize) < m.len(ty)) {
                    let c = m.canon_tuple(p, r, t);
                    m.rels[r].insert(c);
                }
            }
        }
        m
    }
}
