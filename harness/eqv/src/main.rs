mod ast;
mod gen;
mod pipeline;
mod print;
mod util;
mod pt;
mod model;
mod flat;
mod chase;
mod iso;
mod hist;
mod sem;
mod evidence;
mod campaign;
mod c03;
mod c07;
mod build_checks;
mod c16;
mod c16dyn;
mod c11;
mod c12;
mod c10;
mod c17;
mod gram;

use rayon::prelude::*;

fn usage() -> ! {
    eprintln!("usage: eqv check <ID> --tier quick|thorough --seed N | eqv replay <file> | eqv probe ...");
    std::process::exit(2);
}

fn arg_value(args: &[String], key: &str) -> Option<String> {
    args.iter().position(|a| a == key).and_then(|i| args.get(i + 1).cloned())
}

fn main() {
    let args: Vec<String> = std::env::args().collect();
    if args.len() < 2 {
        usage();
    }
    match args[1].as_str() {
        "probe" => probe(&args[2..]),
        "check" => {
            let id = args.get(2).cloned().unwrap_or_else(|| usage());
            let tier = arg_value(&args, "--tier").unwrap_or("quick".into());
            let seed: u64 = arg_value(&args, "--seed").and_then(|s| s.parse().ok()).unwrap_or(0);
            std::process::exit(check(&id, &tier, seed));
        }
        "replay" => {
            let path = args.get(2).cloned().unwrap_or_else(|| usage());
            std::process::exit(replay(&path));
        }
        _ => usage(),
    }
}

fn check(id: &str, tier: &str, seed: u64) -> i32 {
    let prop: &'static str = match id {
        "C01" => "C01",
        "C02" => "C02",
        "C04" => "C04",
        "C05" => "C05",
        "C06" => "C06",
        "C15" => "C15",
        "C03" => "C03",
        "C07" => "C07",
        "C09" => "C09",
        "C13" => "C13",
        "C11" => "C11",
        "C10" => "C10",
        "C17" => "C17",
        "C12" => "C12",
        "C16" => "C16",
        "C19" => "C19",
        "C20" => "C20",
        _ => {
            eprintln!("unknown property {}", id);
            return 2;
        }
    };
    // regression replays first
    let mut violations = 0;
    let dir = evidence::verif_dir().join("replays/regress");
    if let Ok(rd) = std::fs::read_dir(&dir) {
        let mut files: Vec<_> = rd.flatten().map(|e| e.path()).filter(|p| p.file_name().map(|n| n.to_string_lossy().starts_with(&format!("{}-", prop))).unwrap_or(false)).collect();
        files.sort();
        for f in files {
            match replay_file(&f) {
                Ok(None) => {}
                Ok(Some(msg)) => {
                    eprintln!("regression replay {} fails: {}", f.display(), msg);
                    evidence::print_violation(prop, &f);
                    violations += 1;
                }
                Err(e) => eprintln!("regression replay {} inconclusive: {}", f.display(), e),
            }
        }
    }
    // findings that are recorded (not repaired): demonstrate each one from its replay file
    let known = evidence::KnownFindings::load();
    for k in known.known_for(prop) {
        match &k.replay {
            Some(rp) => {
                let path = evidence::verif_dir().join(rp);
                match replay_file(&path) {
                    Ok(Some(_)) => println!("KNOWN-FINDING: property={} {}", prop, k.what),
                    Ok(None) => eprintln!("note: known finding `{}` no longer reproduces from {}", k.signature, path.display()),
                    Err(e) => eprintln!("note: replay of known finding `{}` inconclusive: {}", k.signature, e),
                }
            }
            None => println!("KNOWN-FINDING: property={} {}", prop, k.what),
        }
    }
    let r = match prop {
        "C03" => c03::run_c03(tier, seed),
        "C07" => c07::run_c07(tier, seed),
        "C09" => build_checks::run_c09(tier, seed),
        "C13" => build_checks::run_c13(tier, seed),
        "C16" => c16::run_c16(tier, seed),
        "C11" => c11::run_c11(tier, seed),
        "C10" => c10::run_c10(tier, seed),
        "C17" => c17::run_c17(tier, seed),
        "C12" => c12::run_c12(tier, seed),
        "C19" => build_checks::run_c19(tier, seed),
        "C20" => build_checks::run_c20(tier, seed),
        _ => campaign::run_sem_campaign(prop, tier, seed),
    };
    if violations + r.violations > 0 {
        1
    } else if r.inconclusive {
        2
    } else {
        0
    }
}

fn replay_file(path: &std::path::Path) -> Result<Option<String>, String> {
    let text = std::fs::read_to_string(path).map_err(|e| e.to_string())?;
    let v: serde_json::Value = serde_json::from_str(&text).map_err(|e| e.to_string())?;
    match v.get("kind").and_then(|k| k.as_str()) {
        Some("sem") => {
            let rep: campaign::SemReplay = serde_json::from_value(v).map_err(|e| e.to_string())?;
            campaign::replay_sem(&rep)
        }
        Some("c09") | Some("c13") | Some("c19") | Some("c20") => {
            let rep: build_checks::ProgReplay = serde_json::from_value(v).map_err(|e| e.to_string())?;
            build_checks::replay_prog(&rep)
        }
        Some("c17") => {
            let rep: c17::C17Replay = serde_json::from_value(v).map_err(|e| e.to_string())?;
            c17::replay_c17(&rep)
        }
        Some("c10") => {
            let rep: build_checks::ProgReplay = serde_json::from_value(v).map_err(|e| e.to_string())?;
            c10::replay_c10(&rep)
        }
        Some("c12") => {
            let rep: build_checks::ProgReplay = serde_json::from_value(v).map_err(|e| e.to_string())?;
            c12::replay_c12(&rep)
        }
        Some("c11") => {
            let rep: build_checks::ProgReplay = serde_json::from_value(v).map_err(|e| e.to_string())?;
            c11::replay_c11(&rep)
        }
        Some("c16") => {
            let rep: build_checks::ProgReplay = serde_json::from_value(v).map_err(|e| e.to_string())?;
            c16::replay_c16(&rep)
        }
        Some("c07") => {
            let rep: c07::C07Replay = serde_json::from_value(v).map_err(|e| e.to_string())?;
            c07::replay_c07(&rep)
        }
        Some("c03") => {
            let rep: c03::C03Replay = serde_json::from_value(v).map_err(|e| e.to_string())?;
            c03::replay_c03(&rep)
        }
        other => Err(format!("unknown replay kind {:?}", other)),
    }
}

fn replay(path: &str) -> i32 {
    let p = std::path::Path::new(path);
    match replay_file(p) {
        Ok(None) => {
            println!("replay {}: property holds", path);
            0
        }
        Ok(Some(msg)) => {
            let prop = std::fs::read_to_string(p).ok().and_then(|t| serde_json::from_str::<serde_json::Value>(&t).ok()).and_then(|v| v.get("property").and_then(|x| x.as_str()).map(|s| s.to_string())).unwrap_or_default();
            eprintln!("{}", msg);
            println!("VIOLATION property={} replay={}", prop, std::fs::canonicalize(p).unwrap_or(p.to_path_buf()).display());
            1
        }
        Err(e) => {
            eprintln!("replay inconclusive: {}", e);
            2
        }
    }
}

/// Development aid: acceptance / compile statistics of the program generator.
fn probe(args: &[String]) {
    let prof = gen::Profile::by_name(&arg_value(args, "--profile").unwrap_or("surjective".into())).unwrap_or_else(gen::Profile::surjective);
    let seed: u64 = arg_value(args, "--seed").map(|s| s.parse().unwrap()).unwrap_or(0);
    let n: usize = arg_value(args, "--count").map(|s| s.parse().unwrap()).unwrap_or(32);
    let build = args.iter().any(|a| a == "--build");
    let show = args.iter().any(|a| a == "--show");
    let tapes = pt::draw_tapes(seed, n, 600);
    let model_profile = arg_value(args, "--profile").as_deref() == Some("model");
    if arg_value(args, "--profile").as_deref() == Some("gram") {
        let noise: usize = arg_value(args, "--noise").map(|s| s.parse().unwrap()).unwrap_or(0);
        let res: Vec<(usize, String, String)> = tapes
            .par_iter()
            .enumerate()
            .map(|(i, tape)| {
                let text = gram::gen_module(tape, noise);
                let verdict = if build {
                    match build_checks::c09_source_only(&text) {
                        Ok(()) => "OK-or-rejected".to_string(),
                        Err(e) => format!("FAIL {}", e),
                    }
                } else {
                    let s = util::Scratch::new("probe");
                    let src = s.join("src");
                    std::fs::create_dir_all(&src).unwrap();
                    std::fs::write(src.join("thy.eql"), &text).unwrap();
                    let out = s.join("out");
                    let r = pipeline::run_cli(&pipeline::CliOpts { src: &src, out: &out, component_out: None, rustc_path: None, threads: None, envs: vec![], cwd: None });
                    if r.accepted() { "OK".to_string() } else { format!("REJECTED[{:?}] {}", r.out.code, r.out.stderr_str().lines().next().unwrap_or("")) }
                };
                (i, text, verdict)
            })
            .collect();
        let mut hist: std::collections::BTreeMap<String, usize> = Default::default();
        for (i, text, v) in &res {
            let key: String = v.chars().map(|c| if c.is_ascii_digit() { '#' } else { c }).take(70).collect();
            *hist.entry(key).or_default() += 1;
            if show || v.starts_with("FAIL") || v.contains("[Some(101)]") {
                println!("=== module {} : {}\n{}", i, v, text);
            }
        }
        for (k, c) in hist {
            println!("{:5}  {}", c, k);
        }
        return;
    }
    let results: Vec<(usize, String, String)> = tapes
        .par_iter()
        .enumerate()
        .map(|(i, tape)| {
            let p = if model_profile { c17::gen_model_program(tape) } else { gen::gen_program(tape, &prof) };
            let text = print::print(&p).text;
            if build {
                let t0 = std::time::Instant::now();
                match pipeline::build_driver(&p, &text, pipeline::Mode::Module) {
                    Ok(b) => {
                        eprintln!("build {:.1}s module {} lines, source {} lines", t0.elapsed().as_secs_f64(), b.module_text.lines().count(), text.lines().count());
                        let o = pipeline::run_driver(&b.exe, "reset\nclose\ndumpx\n", std::time::Duration::from_secs(20), &[]).unwrap();
                        (i, text, format!("OK driver exit={:?} out={}B", o.code, o.stdout.len()))
                    }
                    Err(pipeline::BuildError::Rejected(r)) => (i, text, format!("REJECTED {}", r.out.stderr_str().lines().next().unwrap_or("").to_string())),
                    Err(pipeline::BuildError::CompilerCrash(r)) => (i, text, format!("CRASH {}", r.out.stderr_str().lines().take(3).collect::<Vec<_>>().join(" | "))),
                    Err(pipeline::BuildError::RustcFailed { stage, stderr }) => (i, text, format!("RUSTC[{}] {}", stage, stderr.lines().take(6).collect::<Vec<_>>().join(" | "))),
                    Err(pipeline::BuildError::Infra(e)) => (i, text, format!("INFRA {}", e)),
                }
            } else {
                let s = util::Scratch::new("probe");
                let src = s.join("src");
                std::fs::create_dir_all(&src).unwrap();
                std::fs::write(src.join("thy.eql"), &text).unwrap();
                let out = s.join("out");
                let r = pipeline::run_cli(&pipeline::CliOpts { src: &src, out: &out, component_out: None, rustc_path: None, threads: None, envs: vec![], cwd: None });
                let verdict = if r.accepted() {
                    "OK".to_string()
                } else {
                    format!("REJECTED[{:?}] {}", r.out.code, r.out.stderr_str().lines().take(8).collect::<Vec<_>>().join(" | "))
                };
                (i, text, verdict)
            }
        })
        .collect();
    let mut hist: std::collections::BTreeMap<String, usize> = Default::default();
    for (i, text, v) in &results {
        let key: String = v.split(" | ").next().unwrap().chars().take(60).collect();
        *hist.entry(key).or_default() += 1;
        if show || !v.starts_with("OK") {
            println!("=== program {} : {}\n{}", i, v, text);
        }
    }
    for (k, c) in hist {
        println!("{:5}  {}", c, k);
    }
}
