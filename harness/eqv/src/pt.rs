//! proptest plumbing: seeded runners, tape strategies, manual shrinking over value trees.

use proptest::strategy::{Strategy, ValueTree};
use proptest::test_runner::{Config, RngAlgorithm, TestRng, TestRunner};

/// A runner whose RNG is a pure function of (seed, stream).
pub fn runner(seed: u64, stream: u64) -> TestRunner {
    let mut bytes = [0u8; 32];
    bytes[..8].copy_from_slice(&seed.to_le_bytes());
    bytes[8..16].copy_from_slice(&stream.to_le_bytes());
    bytes[16..24].copy_from_slice(&0x6571765f73656564u64.to_le_bytes());
    let cfg = Config { failure_persistence: None, ..Config::default() };
    TestRunner::new_with_rng(cfg, TestRng::from_seed(RngAlgorithm::ChaCha, &bytes))
}

pub fn tape_strategy(len: usize) -> impl Strategy<Value = Vec<u16>> {
    proptest::collection::vec(proptest::num::u16::ANY, len / 2..=len)
}

/// `n` program tapes, a pure function of the seed.
pub fn draw_tapes(seed: u64, n: usize, len: usize) -> Vec<Vec<u16>> {
    let mut r = runner(seed, 0x7461706573);
    let s = tape_strategy(len);
    (0..n).map(|_| s.new_tree(&mut r).expect("tape").current()).collect()
}

/// Standard proptest shrinking loop over an explicit value tree. `fails` must return true when
/// the candidate still exhibits the failure. Returns the minimal failing value found.
pub fn shrink<T: ValueTree>(mut tree: T, mut fails: impl FnMut(&T::Value) -> bool, max_steps: usize) -> T::Value {
    let mut best = tree.current();
    let mut steps = 0;
    'outer: while steps < max_steps && tree.simplify() {
        loop {
            steps += 1;
            let cur = tree.current();
            if fails(&cur) {
                best = cur;
                continue 'outer;
            }
            if steps >= max_steps || !tree.complicate() {
                break 'outer;
            }
        }
    }
    best
}
