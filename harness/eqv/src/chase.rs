//! Reference chase: naive (non-incremental) evaluation of the flat rules. Every join is a
//! backtracking loop over whole relations; no ages, no indices, no deltas. Follows the
//! documented two-level strategy: saturate everything that creates no element, then apply the
//! requested definitions, repeat.

use crate::ast::*;
use crate::flat::*;
use crate::model::Model;

#[derive(Clone, Debug)]
pub struct Bounds {
    pub max_elements: usize,
    pub max_rounds: usize,
    pub max_tuples: usize,
    pub max_matches: usize,
}

impl Default for Bounds {
    fn default() -> Self {
        Bounds { max_elements: 60, max_rounds: 300, max_tuples: 4000, max_matches: 2_000_000 }
    }
}

#[derive(Clone, Debug, Default)]
pub struct ChaseStats {
    pub rounds: usize,
    pub created: usize,
    pub merges: usize,
    pub tuples_added: usize,
    pub matches: usize,
    /// conclusions whose terms could not be evaluated (cannot happen for well-formed programs)
    pub stuck: usize,
    pub bounded: bool,
}

/// Enumerates all matches of `premise` in `m` (which must be normalised).
pub fn matches(p: &Program, m: &Model, fr: &FlatRule, budget: &mut usize, f: &mut dyn FnMut(&[u32])) {
    fn go(p: &Program, m: &Model, atoms: &[FAtom], i: usize, env: &mut Vec<Option<u32>>, budget: &mut usize, f: &mut dyn FnMut(&[u32])) {
        if *budget == 0 {
            return;
        }
        if i == atoms.len() {
            *budget -= 1;
            let vals: Vec<u32> = env.iter().map(|v| v.expect("unbound flat variable")).collect();
            f(&vals);
            return;
        }
        match &atoms[i] {
            FAtom::Rel(r, vs) => {
                for t in m.rels[*r].iter() {
                    let mut newly = Vec::new();
                    let mut ok = true;
                    for (k, &v) in vs.iter().enumerate() {
                        match env[v] {
                            Some(x) => {
                                if x != t[k] {
                                    ok = false;
                                    break;
                                }
                            }
                            None => {
                                env[v] = Some(t[k]);
                                newly.push(v);
                            }
                        }
                    }
                    if ok {
                        go(p, m, atoms, i + 1, env, budget, f);
                    }
                    for v in newly {
                        env[v] = None;
                    }
                }
            }
            FAtom::Type(ty, v) => match env[*v] {
                Some(_) => go(p, m, atoms, i + 1, env, budget, f),
                None => {
                    for x in m.roots(*ty) {
                        env[*v] = Some(x);
                        go(p, m, atoms, i + 1, env, budget, f);
                    }
                    env[*v] = None;
                }
            },
        }
    }
    let mut env = vec![None; fr.nvars];
    go(p, m, &fr.premise, 0, &mut env, budget, f);
}

pub fn eval_cterm(p: &Program, m: &Model, env: &[u32], c: &CTerm) -> Option<u32> {
    match c {
        CTerm::Var(v) => Some(env[*v]),
        CTerm::App(f, args) => {
            let mut vals = Vec::new();
            for a in args {
                vals.push(eval_cterm(p, m, env, a)?);
            }
            m.eval(p, *f, &vals)
        }
    }
}

fn cterm_ty(p: &Program, fr: &FlatRule, c: &CTerm) -> Option<TypeId> {
    match c {
        CTerm::App(f, _) => p.rels[*f].result_type(),
        CTerm::Var(v) => {
            // type of a flat variable: from any premise atom mentioning it
            for a in &fr.premise {
                match a {
                    FAtom::Rel(r, vs) => {
                        if let Some(k) = vs.iter().position(|x| x == v) {
                            return Some(p.rels[*r].cols[k]);
                        }
                    }
                    FAtom::Type(t, x) if x == v => return Some(*t),
                    _ => {}
                }
            }
            None
        }
    }
}

enum Action {
    Insert(RelId, Vec<u32>),
    Union(TypeId, u32, u32),
    Define(RelId, Vec<u32>),
}

/// Does the conclusion of `fr` hold for the match `env` in `m`?
pub fn concl_holds(p: &Program, m: &Model, fr: &FlatRule, env: &[u32]) -> bool {
    match &fr.concl {
        FConcl::Rel(r, cs) => {
            let mut vals = Vec::new();
            for c in cs {
                match eval_cterm(p, m, env, c) {
                    Some(v) => vals.push(v),
                    None => return false,
                }
            }
            m.holds(p, *r, &vals)
        }
        FConcl::Eq(a, b) => {
            let ty = cterm_ty(p, fr, a).or_else(|| cterm_ty(p, fr, b));
            match (eval_cterm(p, m, env, a), eval_cterm(p, m, env, b), ty) {
                (Some(x), Some(y), Some(ty)) => m.find(ty, x) == m.find(ty, y),
                _ => false,
            }
        }
        FConcl::Define(f, cs) => {
            let mut vals = Vec::new();
            for c in cs {
                match eval_cterm(p, m, env, c) {
                    Some(v) => vals.push(v),
                    None => return false,
                }
            }
            m.eval(p, *f, &vals).is_some()
        }
    }
}

fn actions_for(p: &Program, m: &Model, fr: &FlatRule, env: &[u32], out: &mut Vec<Action>, stats: &mut ChaseStats) {
    match &fr.concl {
        FConcl::Rel(r, cs) => {
            let mut vals = Vec::new();
            for c in cs {
                match eval_cterm(p, m, env, c) {
                    Some(v) => vals.push(v),
                    None => {
                        stats.stuck += 1;
                        return;
                    }
                }
            }
            if !m.holds(p, *r, &vals) {
                out.push(Action::Insert(*r, vals));
            }
        }
        FConcl::Eq(a, b) => {
            let ty = match cterm_ty(p, fr, a).or_else(|| cterm_ty(p, fr, b)) {
                Some(t) => t,
                None => {
                    stats.stuck += 1;
                    return;
                }
            };
            let va = eval_cterm(p, m, env, a);
            let vb = eval_cterm(p, m, env, b);
            match (va, vb) {
                (Some(x), Some(y)) => {
                    if m.find(ty, x) != m.find(ty, y) {
                        out.push(Action::Union(ty, x, y));
                    }
                }
                (None, Some(y)) | (Some(y), None) => {
                    // one side is an application that is not defined yet but whose arguments
                    // are: the equation inserts the graph tuple
                    let undefined = if va.is_none() { a } else { b };
                    if let CTerm::App(f, args) = undefined {
                        let mut vals = Vec::new();
                        for c in args {
                            match eval_cterm(p, m, env, c) {
                                Some(v) => vals.push(v),
                                None => {
                                    stats.stuck += 1;
                                    return;
                                }
                            }
                        }
                        vals.push(y);
                        out.push(Action::Insert(*f, vals));
                    } else {
                        stats.stuck += 1;
                    }
                }
                (None, None) => stats.stuck += 1,
            }
        }
        FConcl::Define(f, cs) => {
            let mut vals = Vec::new();
            for c in cs {
                match eval_cterm(p, m, env, c) {
                    Some(v) => vals.push(v),
                    None => {
                        stats.stuck += 1;
                        return;
                    }
                }
            }
            if m.eval(p, *f, &vals).is_none() {
                out.push(Action::Define(*f, vals));
            }
        }
    }
}

/// Chases `m` to the free closed model (or until a bound is hit).
pub fn chase(p: &Program, rules: &[FlatRule], m: &mut Model, b: &Bounds) -> ChaseStats {
    let mut stats = ChaseStats::default();
    let classes_before: usize = (0..p.types.len()).map(|t| m.class_count(t)).sum();
    m.normalize(p);
    let mut created_total = 0usize;
    loop {
        stats.rounds += 1;
        if stats.rounds > b.max_rounds {
            stats.bounded = true;
            break;
        }
        let mut actions = Vec::new();
        let mut budget = b.max_matches;
        for fr in rules {
            let snapshot: &Model = m;
            let mut local = Vec::new();
            let mut st = ChaseStats::default();
            matches(p, snapshot, fr, &mut budget, &mut |env| {
                st.matches += 1;
                actions_for(p, snapshot, fr, env, &mut local, &mut st);
            });
            stats.matches += st.matches;
            stats.stuck += st.stuck;
            actions.extend(local);
        }
        if budget == 0 {
            stats.bounded = true;
            break;
        }
        let mut changed = false;
        let mut defs: Vec<(RelId, Vec<u32>)> = Vec::new();
        for a in actions {
            match a {
                Action::Insert(r, t) => {
                    if m.insert(p, r, &t) {
                        changed = true;
                        stats.tuples_added += 1;
                    }
                }
                Action::Union(ty, x, y) => {
                    if m.union(ty, x, y) {
                        changed = true;
                    }
                }
                Action::Define(f, args) => defs.push((f, args)),
            }
        }
        m.normalize(p);
        if m.tuple_count() > b.max_tuples {
            stats.bounded = true;
            break;
        }
        if changed {
            continue;
        }
        // saturated w.r.t. everything that creates no element: apply requested definitions
        let mut created = false;
        for (f, args) in defs {
            if m.eval(p, f, &args).is_none() {
                let res_ty = p.rels[f].result_type().unwrap();
                let e = m.new_el(res_ty);
                let mut t = args.clone();
                t.push(e);
                m.insert(p, f, &t);
                created = true;
                created_total += 1;
                if m.total_len() > b.max_elements {
                    stats.bounded = true;
                    break;
                }
            }
        }
        if stats.bounded || !created {
            break;
        }
        m.normalize(p);
    }
    stats.created = created_total;
    let classes_after: usize = (0..p.types.len()).map(|t| m.class_count(t)).sum();
    stats.merges = (classes_before + created_total).saturating_sub(classes_after);
    stats
}

/// C01 oracle: is `m` closed under all rules? Returns a description of the first violated
/// conclusion.
pub fn first_unsatisfied(p: &Program, rules: &[FlatRule], m: &Model, max_matches: usize) -> Option<String> {
    // functionality
    for r in 0..p.rels.len() {
        if p.rels[r].is_func() {
            let n = p.rels[r].cols.len() - 1;
            let mut seen: std::collections::BTreeMap<Vec<u32>, u32> = Default::default();
            for t in &m.rels[r] {
                if let Some(v) = seen.insert(t[..n].to_vec(), t[n]) {
                    if v != t[n] {
                        return Some(format!("function {} is not single-valued at {:?}: {} and {}", p.rels[r].name, &t[..n], v, t[n]));
                    }
                }
            }
        }
    }
    let mut budget = max_matches;
    for fr in rules {
        let mut bad: Option<String> = None;
        matches(p, m, fr, &mut budget, &mut |env| {
            if bad.is_none() && !concl_holds(p, m, fr, env) {
                bad = Some(format!("rule #{} path {} stage {} [{}] match {:?}: conclusion does not hold", fr.rule, fr.path, fr.stage, fr.text, env));
            }
        });
        if bad.is_some() {
            return bad;
        }
    }
    None
}
