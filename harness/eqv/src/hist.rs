//! API histories: program-independent operation sequences (selectors are resolved against the
//! program / the live model), their rendering into driver scripts and transcript parsing.

use crate::ast::*;
use crate::model::Dump;
use proptest::prelude::*;
use serde::{Deserialize, Serialize};

#[derive(Clone, Debug, PartialEq, Eq, Hash, Serialize, Deserialize)]
pub enum Op {
    New { ty: u16 },
    Insert { rel: u16, args: Vec<u16> },
    Define { func: u16, args: Vec<u16> },
    Equate { ty: u16, a: u16, b: u16 },
    Close,
    /// close_until that stops after `k` evaluations of its condition (k >= 1)
    CloseSteps { k: u16 },
}

pub fn op_strategy() -> impl Strategy<Value = Op> {
    let sel = any::<u16>();
    prop_oneof![
        4 => sel.prop_map(|ty| Op::New { ty }),
        7 => (sel, proptest::collection::vec(any::<u16>(), 9)).prop_map(|(rel, args)| Op::Insert { rel, args }),
        3 => (sel, proptest::collection::vec(any::<u16>(), 9)).prop_map(|(func, args)| Op::Define { func, args }),
        3 => (sel, sel, sel).prop_map(|(ty, a, b)| Op::Equate { ty, a, b }),
        1 => Just(Op::Close),
        1 => (1u16..6).prop_map(|k| Op::CloseSteps { k }),
    ]
}

pub fn history_strategy(max_len: usize) -> impl Strategy<Value = Vec<Op>> {
    // a prelude of element creations (so that selectors have something to select), then a mix
    let prelude = proptest::collection::vec(any::<u16>().prop_map(|ty| Op::New { ty }), 1..=5);
    (prelude, proptest::collection::vec(op_strategy(), 1..=max_len)).prop_map(|(mut a, b)| {
        a.extend(b);
        a
    })
}

fn pick(sel: u16, n: usize) -> usize {
    ((sel as usize) * n) >> 16
}

/// How closes are issued: plain `close()` (only for programs that cannot create elements) or
/// bounded by an id count.
#[derive(Clone, Copy, Debug)]
pub struct RenderOpts {
    pub auto: u8,
    /// Some(n): every close is `close_until(ids >= n || evals >= max_evals)`
    pub id_bound: Option<usize>,
    pub max_evals: usize,
    /// append a final close
    pub final_close: bool,
    pub with_steps: bool,
    /// after every close: cross queries on all id combinations (cap), 0 = off
    pub xq_cap: usize,
    /// after every close: enum case queries on every id of every enum type
    pub cases: bool,
    /// 0 = plain; 2 = the condition closure dumps the public and private state at every
    /// evaluation (C04 observes the model wherever close_until evaluates its condition)
    pub observe: u8,
}

/// One rendered command with its origin.
#[derive(Clone, Debug)]
pub struct Cmd {
    pub text: String,
    pub kind: CmdKind,
}

#[derive(Clone, Debug, PartialEq, Eq)]
pub enum CmdKind {
    Reset,
    Auto,
    New(TypeId),
    Insert(RelId),
    Define(RelId),
    Equate(TypeId),
    Close,
    /// close_until stopping after k condition evaluations
    CloseSteps(usize),
    Dump,
    Cases(TypeId),
    Xq,
    Other,
}

pub fn close_cmd(o: &RenderOpts) -> String {
    match o.id_bound {
        Some(n) => format!("cu {} or ids {} evals {}", o.observe, n, o.max_evals),
        None => format!("cu {} evals {}", o.observe, o.max_evals),
    }
}

pub fn render(p: &Program, h: &[Op], o: &RenderOpts) -> Vec<Cmd> {
    let mut out = vec![
        Cmd { text: "reset".into(), kind: CmdKind::Reset },
        Cmd { text: format!("auto {}", o.auto), kind: CmdKind::Auto },
    ];
    let nt = p.types.len();
    let funcs: Vec<RelId> = p.funcs().into_iter().filter(|&f| p.definable(f)).collect();
    for op in h {
        match op {
            Op::New { ty } => {
                let t = pick(*ty, nt);
                if p.is_enum(t) {
                    // enum elements can only be made through constructors
                    let cs = p.ctors(t);
                    if cs.is_empty() {
                        continue;
                    }
                    let c = cs[pick(ty.wrapping_mul(31), cs.len())];
                    let n = p.rels[c].cols.len() - 1;
                    let args: Vec<String> = (0..n).map(|i| format!("#{}", ty.wrapping_mul(97).wrapping_add(i as u16 * 7919))).collect();
                    out.push(Cmd { text: format!("def {} {}", c, args.join(" ")), kind: CmdKind::Define(c) });
                } else {
                    out.push(Cmd { text: format!("new {}", t), kind: CmdKind::New(t) });
                }
            }
            Op::Insert { rel, args } => {
                if p.rels.is_empty() {
                    continue;
                }
                let r = pick(*rel, p.rels.len());
                let n = p.rels[r].cols.len();
                let a: Vec<String> = (0..n).map(|i| format!("#{}", args[i])).collect();
                out.push(Cmd { text: format!("ins {} {}", r, a.join(" ")), kind: CmdKind::Insert(r) });
            }
            Op::Define { func, args } => {
                if funcs.is_empty() {
                    continue;
                }
                let f = funcs[pick(*func, funcs.len())];
                let n = p.rels[f].cols.len() - 1;
                let a: Vec<String> = (0..n).map(|i| format!("#{}", args[i])).collect();
                out.push(Cmd { text: format!("def {} {}", f, a.join(" ")), kind: CmdKind::Define(f) });
            }
            Op::Equate { ty, a, b } => {
                let t = pick(*ty, nt);
                out.push(Cmd { text: format!("eq {} #{} #{}", t, a, b), kind: CmdKind::Equate(t) });
            }
            Op::Close => {
                out.push(Cmd { text: close_cmd(o), kind: CmdKind::Close });
                after_close(p, o, &mut out);
            }
            Op::CloseSteps { k } => {
                if o.with_steps {
                    out.push(Cmd { text: format!("cu {} evals {}", o.observe, k), kind: CmdKind::CloseSteps(*k as usize) });
                    after_close(p, o, &mut out);
                }
            }
        }
    }
    if o.final_close {
        out.push(Cmd { text: close_cmd(o), kind: CmdKind::Close });
        after_close(p, o, &mut out);
    }
    out
}

fn after_close(p: &Program, o: &RenderOpts, out: &mut Vec<Cmd>) {
    if o.xq_cap > 0 {
        out.push(Cmd { text: format!("xq {}", o.xq_cap), kind: CmdKind::Xq });
    }
    if o.cases {
        for t in 0..p.types.len() {
            if p.is_enum(t) {
                out.push(Cmd { text: format!("cases {}", t), kind: CmdKind::Cases(t) });
            }
        }
    }
}

pub fn script(cmds: &[Cmd]) -> String {
    let mut s = String::new();
    for c in cmds {
        s.push_str(&c.text);
        s.push('\n');
    }
    s
}

/// Response of the driver to one command.
#[derive(Clone, Debug, Default)]
pub struct Resp {
    pub lines: Vec<String>,
}

impl Resp {
    pub fn first(&self) -> &str {
        self.lines.first().map(|s| s.as_str()).unwrap_or("")
    }
    pub fn is_skip(&self) -> bool {
        self.first() == "skip"
    }
    pub fn is_poisoned(&self) -> bool {
        self.first() == "poisoned"
    }
    pub fn panic_msg(&self) -> Option<&str> {
        self.lines.iter().find_map(|l| l.strip_prefix("panic "))
    }
    /// `id <n> [args]`
    pub fn id(&self) -> Option<(u32, Vec<u32>)> {
        let l = self.lines.iter().find(|l| l.starts_with("id "))?;
        let mut it = l.split_whitespace().skip(1);
        let id = it.next()?.parse().ok()?;
        let args = it.next().map(crate::model::parse_tuple).unwrap_or_default();
        Some((id, args))
    }
    /// `ok <args>`
    pub fn ok_args(&self) -> Option<Vec<u32>> {
        let l = self.lines.iter().find(|l| l.starts_with("ok"))?;
        Some(l.split_whitespace().nth(1).map(crate::model::parse_tuple).unwrap_or_default())
    }
    /// `cu <ret> <evals> <cond-after>`
    pub fn cu(&self) -> Option<(bool, usize, bool)> {
        let l = self.lines.iter().find(|l| l.starts_with("cu "))?;
        let t: Vec<&str> = l.split_whitespace().collect();
        Some((t[1] == "1", t[2].parse().ok()?, t[3] == "1"))
    }
    /// All `dump ... end` blocks in this response, in order; observation blocks
    /// (`obs k v ... end`) are returned separately.
    pub fn dumps(&self, p: &Program) -> Result<Vec<Dump>, String> {
        self.blocks("dump", p).map(|v| v.into_iter().map(|(_, d)| d).collect())
    }
    pub fn observations(&self, p: &Program) -> Result<Vec<(String, Dump)>, String> {
        self.blocks("obs", p)
    }
    fn blocks(&self, head: &str, p: &Program) -> Result<Vec<(String, Dump)>, String> {
        let mut out = Vec::new();
        let mut i = 0;
        while i < self.lines.len() {
            let l = &self.lines[i];
            let is_head = l == head || l.starts_with(&format!("{} ", head));
            let is_other = l == "dump" || l.starts_with("obs ");
            if is_head || is_other {
                let start = i + 1;
                let mut j = start;
                while j < self.lines.len() && self.lines[j] != "end" {
                    j += 1;
                }
                if is_head {
                    let body: Vec<&str> = self.lines[start..j].iter().map(|s| s.as_str()).collect();
                    out.push((l.clone(), Dump::parse(&body, p.types.len(), p.rels.len())?));
                }
                i = j + 1;
            } else {
                i += 1;
            }
        }
        Ok(out)
    }
    pub fn last_dump(&self, p: &Program) -> Result<Option<Dump>, String> {
        Ok(self.dumps(p)?.pop())
    }
}

/// Splits a transcript into per-command responses (indexed by script line).
pub fn parse_transcript(t: &str, ncmds: usize) -> Vec<Resp> {
    let mut out = vec![Resp::default(); ncmds];
    let mut cur: Option<usize> = None;
    for l in t.lines() {
        if let Some(n) = l.strip_prefix("> ") {
            cur = n.trim().parse::<usize>().ok().filter(|&i| i < ncmds);
        } else if let Some(i) = cur {
            out[i].lines.push(l.to_string());
        }
    }
    out
}
