//! C16: the semi-naive sub-rule families emitted into the generated code enumerate every match
//! that involves a new tuple exactly once and no all-old match. Decided on the EMITTED Rust text:
//! the flat-rule comment above every rule function gives atoms, ages and conclusions; the function
//! body tells which new/old index fields each premise position really reads.

use crate::ast::*;
use crate::build_checks::{reduce_static, ProgReplay};
use crate::c16dyn;
use crate::campaign::{self, draw_programs};
use crate::hist;
use proptest::strategy::{Strategy, ValueTree};
use crate::evidence::{self, Evidence, KnownFindings};
use crate::pipeline::{self, CliOpts, THEORY};
use crate::print;
use crate::util::{self, Scratch};
use rayon::prelude::*;
use serde_json::json;
use std::collections::{BTreeMap, BTreeSet};
use std::time::Instant;

#[derive(Debug, Clone, PartialEq, Eq)]
pub struct SubRule {
    pub name: String,
    /// (atom text without age, declared age)
    pub atoms: Vec<(String, String)>,
    pub concl: Vec<String>,
    /// per premise position: env fields read
    pub reads: BTreeMap<usize, BTreeSet<String>>,
}

pub fn parse_subrules(module: &str) -> Vec<SubRule> {
    let lines: Vec<&str> = module.lines().collect();
    let mut out = Vec::new();
    let mut i = 0;
    while i < lines.len() {
        if let Some(name) = lines[i].strip_prefix("// rule ").and_then(|r| r.strip_suffix(':')) {
            let mut atoms = Vec::new();
            let mut concl = Vec::new();
            let mut in_then = false;
            let mut j = i + 1;
            while j < lines.len() && lines[j].starts_with("//") {
                let l = lines[j];
                if l == "// if:" {
                    in_then = false;
                } else if l == "// then:" {
                    in_then = true;
                } else if let Some(a) = l.strip_prefix("// - ") {
                    if in_then {
                        concl.push(a.to_string());
                    } else {
                        let (text, age) = match a.rfind(" [") {
                            Some(k) => (a[..k].to_string(), a[k + 2..].trim_end_matches(']').to_string()),
                            None => (a.to_string(), String::new()),
                        };
                        atoms.push((text, age));
                    }
                }
                j += 1;
            }
            // function body: up to the next rule comment or the exported entry point
            let mut body = String::new();
            let mut k = j;
            while k < lines.len() && !lines[k].starts_with("// rule ") && !lines[k].contains("#[unsafe(no_mangle)]") {
                body.push_str(lines[k]);
                body.push('\n');
                k += 1;
            }
            let mut reads: BTreeMap<usize, BTreeSet<String>> = BTreeMap::new();
            let bl: Vec<&str> = body.lines().collect();
            for w in 0..bl.len() {
                if let Some(r) = bl[w].strip_prefix("let set") {
                    if r.ends_with("_r0 =") {
                        let pos: String = r.chars().take_while(|c| c.is_ascii_digit()).collect();
                        if let (Ok(pos), Some(next)) = (pos.parse::<usize>(), bl.get(w + 1)) {
                            if let Some(f) = next.trim().strip_prefix("env.") {
                                reads.entry(pos).or_default().insert(f.trim_end_matches(';').to_string());
                            }
                        }
                    }
                }
            }
            out.push(SubRule { name: name.to_string(), atoms, concl, reads });
            i = k;
        } else {
            i += 1;
        }
    }
    out
}

fn family_of(name: &str) -> String {
    // the implicit single-valuedness rule of a function is a family of its own: functionality_<k>
    if let Some(r) = name.strip_prefix("functionality_") {
        if r.chars().all(|c| c.is_ascii_digit()) {
            return name.to_string();
        }
    }
    match name.rfind('_') {
        Some(k) if name[k + 1..].chars().all(|c| c.is_ascii_digit()) => name[..k].to_string(),
        _ => name.to_string(),
    }
}

fn age_set(age: &str) -> Option<(bool, bool)> {
    // (admits new, admits old)
    match age {
        "new" => Some((true, false)),
        "old" => Some((false, true)),
        "all" => Some((true, true)),
        _ => None,
    }
}

#[derive(Default, Debug, Clone)]
pub struct C16Stats {
    pub families: usize,
    pub families_n2: usize,
    pub subrules: usize,
    pub skipped_duplicate_atoms: usize,
    pub labellings: usize,
    pub shapes: BTreeSet<String>,
}

pub fn check_module(module: &str, st: &mut C16Stats) -> Result<(), String> {
    let subs = parse_subrules(module);
    let mut fams: BTreeMap<String, Vec<&SubRule>> = BTreeMap::new();
    for s in &subs {
        fams.entry(family_of(&s.name)).or_default().push(s);
    }
    for (fam, members) in &fams {
        st.families += 1;
        st.subrules += members.len();
        // (a) code agrees with the declared ages
        for s in members {
            for (j, (text, age)) in s.atoms.iter().enumerate() {
                let (an, ao) = age_set(age).ok_or_else(|| format!("{}: atom `{}` has no age annotation", s.name, text))?;
                let fields = s.reads.get(&j).cloned().unwrap_or_default();
                if fields.is_empty() {
                    return Err(format!("{}: premise position {} (`{}`) reads no index field", s.name, j, text));
                }
                let reads_new = fields.iter().any(|f| f.contains("_new_") || f.contains("_new"));
                let reads_old = fields.iter().any(|f| f.contains("_old_") || f.contains("_old"));
                let only_new = fields.iter().all(|f| f.contains("_new"));
                let only_old = fields.iter().all(|f| f.contains("_old"));
                let ok = match (an, ao) {
                    (true, false) => only_new,
                    (false, true) => only_old,
                    _ => reads_new && reads_old,
                };
                if !ok {
                    return Err(format!("{}: atom `{}` is declared [{}] but the code reads {:?}", s.name, text, age, fields));
                }
                if an && ao {
                    // both copies of the SAME index
                    let norm: BTreeSet<String> = fields.iter().map(|f| f.replacen("_new", "_AGE", 1).replacen("_old", "_AGE", 1)).collect();
                    if norm.len() * 2 != fields.len() {
                        return Err(format!("{}: atom `{}` [all] reads an unbalanced set of index copies {:?}", s.name, text, fields));
                    }
                }
            }
        }
        let n = members[0].atoms.len();
        if n == 0 {
            continue;
        }
        // (b) same atoms, variables, conclusions across the family
        let canon = |s: &SubRule| -> Vec<String> {
            let mut v: Vec<String> = s.atoms.iter().map(|(t, _)| t.clone()).collect();
            v.sort();
            v
        };
        let base = canon(members[0]);
        for s in members.iter() {
            if canon(s) != base {
                return Err(format!("family {}: sub-rule {} has different premise atoms {:?} vs {:?}", fam, s.name, canon(s), base));
            }
            if s.concl != members[0].concl {
                return Err(format!("family {}: sub-rule {} has different conclusions", fam, s.name));
            }
        }
        let mut dedup = base.clone();
        dedup.dedup();
        if dedup.len() != base.len() {
            st.skipped_duplicate_atoms += 1;
            continue;
        }
        if n >= 2 {
            st.families_n2 += 1;
            let mut rels: Vec<String> = base.iter().map(|a| a.split('(').next().unwrap_or("").to_string()).collect();
            rels.sort();
            st.shapes.insert(format!("{}:{}", n, rels.join(",")));
        }
        if n > 12 {
            continue;
        }
        // (c) every labelling with a new tuple is admitted by exactly one sub-rule, all-old by none
        let is_functionality = fam.starts_with("functionality");
        // age sets in canonical atom order
        let ages: Vec<Vec<(bool, bool)>> = members
            .iter()
            .map(|s| base.iter().map(|t| age_set(&s.atoms.iter().find(|(x, _)| x == t).unwrap().1).unwrap()).collect())
            .collect();
        for lab in 0u32..(1u32 << n) {
            st.labellings += 1;
            let admits = |a: &Vec<(bool, bool)>, lab: u32| (0..n).all(|j| if lab >> j & 1 == 1 { a[j].0 } else { a[j].1 });
            let mut cnt = ages.iter().filter(|a| admits(a, lab)).count();
            if is_functionality && n == 2 && cnt == 0 {
                // the implicit single-valuedness rule is symmetric in its two atoms
                let swapped = ((lab & 1) << 1) | (lab >> 1);
                cnt = ages.iter().filter(|a| admits(a, swapped)).count();
            }
            let expect = if lab == 0 { 0 } else { 1 };
            if cnt != expect {
                let desc: Vec<String> = (0..n).map(|j| format!("{}:{}", base[j], if lab >> j & 1 == 1 { "new" } else { "old" })).collect();
                return Err(format!("family {}: the labelling [{}] is enumerated by {} sub-rules (expected {})", fam, desc.join(", "), cnt, expect));
            }
        }
    }
    Ok(())
}

pub fn c16_one(source: &str, st: &mut C16Stats) -> Result<bool, String> {
    let s = Scratch::new("c16");
    let src = s.join("src");
    std::fs::create_dir_all(&src).unwrap();
    std::fs::write(src.join(format!("{}.eql", THEORY)), source).unwrap();
    let out = s.join("out");
    let r = pipeline::run_cli(&CliOpts { src: &src, out: &out, component_out: None, rustc_path: None, threads: None, envs: vec![], cwd: None });
    if !r.accepted() {
        return Ok(false);
    }
    let module = std::fs::read_to_string(out.join(format!("{}.eql.rs", THEORY))).map_err(|e| e.to_string())?;
    check_module(&module, st)?;
    Ok(true)
}

pub fn run_c16(tier: &str, seed: u64) -> campaign::CampaignResult {
    let start = Instant::now();
    let np = std::env::var("EQV_NPROG").ok().and_then(|v| v.parse().ok()).unwrap_or(if tier == "thorough" { 30000 } else { 1500 });
    let known = KnownFindings::load();
    let mut ev = Evidence::new("C16", tier, seed, "exploration");
    let profiles: Vec<String> = vec!["free".into(), "wide".into(), "with_enums".into(), "stratified".into(), "surjective".into()];
    let programs = draw_programs(seed, &profiles, np);
    let results: Vec<(Result<bool, String>, C16Stats)> = programs
        .par_iter()
        .map(|pc| {
            let mut st = C16Stats::default();
            let r = c16_one(&pc.source, &mut st);
            (r, st)
        })
        .collect();
    let mut violations = 0;
    let mut shapes: BTreeSet<String> = BTreeSet::new();
    // static part on modules derived from the full surface grammar (member relations, morphism rules)
    let ng = std::env::var("EQV_NGRAM").ok().and_then(|v| v.parse().ok()).unwrap_or(np / 5);
    let gram_sources: Vec<String> = crate::pt::draw_tapes(seed ^ 0x6716, ng, 500).into_iter().map(|tape| crate::gram::gen_module(&tape, 0)).collect();
    let gram_results: Vec<(Result<bool, String>, C16Stats)> = gram_sources
        .par_iter()
        .map(|src| {
            let mut st = C16Stats::default();
            let r = c16_one(src, &mut st);
            (r, st)
        })
        .collect();
    for (src, (res, st)) in gram_sources.iter().zip(gram_results.iter()) {
        ev.evaluations += 1;
        ev.count("grammar_modules", 1);
        ev.count("families", st.families as u64);
        ev.count("families_with_two_or_more_atoms", st.families_n2 as u64);
        ev.count("subrules", st.subrules as u64);
        ev.count("labellings_checked", st.labellings as u64);
        shapes.extend(st.shapes.iter().cloned());
        match res {
            Ok(true) => ev.count("grammar_modules_accepted", 1),
            Ok(false) => ev.count("grammar_modules_rejected", 1),
            Err(msg) => {
                let rep = ProgReplay { kind: "c16".into(), property: "C16".into(), program: None, source: src.clone(), message: msg.clone(), detail: json!({"generator": "grammar"}), seed };
                let sig = format!("C16:{}", rep.message.chars().map(|c| if c.is_ascii_digit() { '#' } else { c }).take(90).collect::<String>());
                if let Some(k) = known.known("C16", &sig) {
                    println!("KNOWN-FINDING: property=C16 {}", k.what);
                    continue;
                }
                let path = evidence::write_replay("C16", "gram", &serde_json::to_value(&rep).unwrap());
                eprintln!("violation of C16 (grammar module): {}", rep.message);
                evidence::print_violation("C16", &path);
                violations += 1;
            }
        }
    }
    for (pc, (res, st)) in programs.iter().zip(results.iter()) {
        ev.evaluations += 1;
        ev.count("families", st.families as u64);
        ev.count("families_with_two_or_more_atoms", st.families_n2 as u64);
        ev.count("subrules", st.subrules as u64);
        ev.count("labellings_checked", st.labellings as u64);
        ev.count("families_skipped_duplicate_atoms", st.skipped_duplicate_atoms as u64);
        shapes.extend(st.shapes.iter().cloned());
        match res {
            Ok(true) => {
                ev.count("accepted", 1);
                if st.families_n2 > 0 {
                    ev.sample(json!({"program": pc.source}), 2);
                }
            }
            Ok(false) => ev.count("rejected", 1),
            Err(msg) => {
                if violations >= 3 {
                    ev.count("further_violations_not_minimised", 1);
                    violations += 1;
                    let _ = msg;
                    continue;
                }
                let reduced = reduce_static(&pc.program, 30, &|q| c16_one(&print::plain(q), &mut C16Stats::default()).is_err());
                let src = print::plain(&reduced);
                let msg2 = c16_one(&src, &mut C16Stats::default()).err().unwrap_or_else(|| msg.clone());
                let rep = ProgReplay { kind: "c16".into(), property: "C16".into(), program: Some(reduced), source: src, message: msg2, detail: json!({}), seed };
                let sig = format!("C16:{}", rep.message.chars().map(|c| if c.is_ascii_digit() { '#' } else { c }).take(90).collect::<String>());
                if let Some(k) = known.known("C16", &sig) {
                    println!("KNOWN-FINDING: property=C16 {}", k.what);
                    continue;
                }
                let path = evidence::write_replay("C16", "prog", &serde_json::to_value(&rep).unwrap());
                eprintln!("violation of C16: {}", rep.message);
                evidence::print_violation("C16", &path);
                violations += 1;
            }
        }
    }
    // ---- dynamic part: execute the emitted rule functions on states with a known new/old split
    let (nd, nh) = if tier == "thorough" { (400, 150) } else { (48, 60) };
    let nd = std::env::var("EQV_NDYN").ok().and_then(|v| v.parse().ok()).unwrap_or(nd);
    let dyn_profiles: Vec<String> = vec!["surjective".into(), "stratified".into(), "medium".into(), "free".into(), "with_enums".into()];
    let dprogs = draw_programs(seed ^ 0x16d, &dyn_profiles, nd);
    let items: Vec<(&Program, &str)> = dprogs.iter().map(|pc| (&pc.program, pc.source.as_str())).collect();
    let builts = pipeline::build_all(&items, pipeline::Mode::Module);
    let dyn_results: Vec<(Option<(Vec<hist::Op>, String)>, c16dyn::DynStats, bool, Option<String>)> = dprogs
        .par_iter()
        .zip(builts.into_par_iter())
        .map(|(pc, built)| {
            let mut st = c16dyn::DynStats::default();
            let built = match built {
                Ok(b) => b,
                Err(_) => return (None, st, false, None),
            };
            let mut runner = crate::pt::runner(seed, 5000 + pc.index as u64);
            let strat = hist::history_strategy(26);
            let hs: Vec<Vec<hist::Op>> = (0..nh).map(|_| strat.new_tree(&mut runner).expect("history").current()).collect();
            match c16dyn::run_dyn(&pc.program, &built.module_text, &built.exe, &hs, &mut st) {
                Ok(None) => (None, st, true, None),
                Ok(Some((hi, msg))) => {
                    // shrink the history: greedy deletion of operations
                    let mut h = hs[hi].clone();
                    let fails = |h: &Vec<hist::Op>| matches!(c16dyn::run_dyn(&pc.program, &built.module_text, &built.exe, &[h.clone()], &mut c16dyn::DynStats::default()), Ok(Some(_)));
                    let mut i = 0;
                    while i < h.len() {
                        let mut c = h.clone();
                        c.remove(i);
                        if fails(&c) {
                            h = c;
                        } else {
                            i += 1;
                        }
                    }
                    (Some((h, msg)), st, true, None)
                }
                Err(e) => (None, st, true, Some(e)),
            }
        })
        .collect();
    let mut dyn_total = c16dyn::DynStats::default();
    for (pc, (fail, st, built, infra)) in dprogs.iter().zip(dyn_results.iter()) {
        if !*built {
            ev.count("dyn.programs_not_built", 1);
            continue;
        }
        ev.count("dyn.programs", 1);
        if let Some(e) = infra {
            ev.count(&format!("dyn.inconclusive: {}", e.chars().take(60).collect::<String>()), 1);
        }
        dyn_total.merge(st);
        if st.decisive_states > 0 {
            ev.sample(json!({"dynamic": true, "program": pc.source}), 4);
        }
        if let Some((h, msg)) = fail {
            if violations >= 3 {
                ev.count("further_violations_not_minimised", 1);
                violations += 1;
                continue;
            }
            let reduced = campaign::reduce_program_with(&pc.program, 30, &|q, _rules, b| {
                matches!(c16dyn::run_dyn(q, &b.module_text, &b.exe, &[h.clone()], &mut c16dyn::DynStats::default()), Ok(Some(_)))
            });
            let src = print::plain(&reduced);
            let (msg2, script) = match pipeline::build_driver(&reduced, &src, pipeline::Mode::Module) {
                Ok(b) => (
                    match c16dyn::run_dyn(&reduced, &b.module_text, &b.exe, &[h.clone()], &mut c16dyn::DynStats::default()) {
                        Ok(Some((_, m))) => m,
                        _ => msg.clone(),
                    },
                    hist::script(&c16dyn::render_dyn(&reduced, h)),
                ),
                Err(_) => (msg.clone(), String::new()),
            };
            let rep = ProgReplay { kind: "c16".into(), property: "C16".into(), program: Some(reduced), source: src, message: msg2, detail: json!({"history": h, "script": script}), seed };
            let sig = format!("C16:{}", rep.message.chars().map(|c| if c.is_ascii_digit() { '#' } else { c }).take(90).collect::<String>());
            if let Some(k) = known.known("C16", &sig) {
                println!("KNOWN-FINDING: property=C16 {}", k.what);
                continue;
            }
            let path = evidence::write_replay("C16", "dyn", &serde_json::to_value(&rep).unwrap());
            eprintln!("violation of C16 (dynamic): {}", rep.message);
            evidence::print_violation("C16", &path);
            violations += 1;
        }
    }
    ev.count("dyn.states_judged", dyn_total.states as u64);
    ev.count("dyn.states_with_all_old_and_new_matches_of_a_multi_atom_family", dyn_total.decisive_states as u64);
    ev.count("dyn.rule_invocations_compared", dyn_total.rule_invocations as u64);
    ev.count("dyn.rule_invocations_skipped", dyn_total.rule_invocations_skipped as u64);
    for (k, v) in &dyn_total.skipped_reasons {
        ev.count(&format!("dyn.skipped: {}", k), *v as u64);
    }
    ev.count("dyn.families_evaluated", dyn_total.families as u64);
    ev.count("dyn.matches_with_new_tuple", dyn_total.matches_with_new as u64);
    ev.count("dyn.all_old_matches_present", dyn_total.matches_all_old as u64);
    ev.count("dyn.pushes_compared", dyn_total.pushes as u64);
    ev.evaluations += dyn_total.states as u64;
    for s in &dyn_total.shapes {
        ev.nontrivial.insert(util::hash64(&[b"dyn", s.as_bytes()]));
    }
    for s in &shapes {
        ev.nontrivial.insert(util::hash64(&[s.as_bytes()]));
    }
    ev.extra.insert("programs".into(), json!(ev.evaluations));
    ev.rule = "static: generated programs (all profiles) compiled by the repository CLI; every family of sub-rule functions in the emitted module is parsed (flat-rule comment + index fields read per premise position) and all 2^n new/old labellings of its n premise atoms are enumerated; non-trivial = family with n >= 2 atoms, distinct by (n, multiset of relation names). dynamic: generated programs x proptest API histories; before every close, after every partial close_until and at the end the emitted rule functions of ONE loop iteration are executed into fresh ModelDeltas and the multiset of pushes of every rule is compared with a naive enumeration of its families' matches over the dumped new/old tables (each match with a new tuple once, all-old never); non-trivial = state in which a family with >= 2 atoms has both an all-old match and a match with a new tuple, distinct by (n, relation multiset)".into();
    ev.assumptions = vec!["the flat-rule comment lists the premise in the order the function joins it (position j <-> variables set<j>_*); checked to agree with the index fields actually read".into()];
    ev.violations = violations as u64;
    ev.wall_s = start.elapsed().as_secs_f64();
    ev.write();
    println!("C16 {} seed={} programs={} families={} nontrivial_shapes={} violations={} wall={:.1}s", tier, seed, ev.evaluations, ev.counters.get("families").copied().unwrap_or(0), ev.nontrivial.len(), violations, ev.wall_s);
    campaign::CampaignResult { violations, inconclusive: ev.counters.get("accepted").copied().unwrap_or(0) == 0 }
}

pub fn replay_c16(rep: &ProgReplay) -> Result<Option<String>, String> {
    if let Some(h) = rep.detail.get("history") {
        let h: Vec<hist::Op> = serde_json::from_value(h.clone()).map_err(|e| e.to_string())?;
        let p = rep.program.as_ref().ok_or("dynamic C16 replay without program")?;
        let b = pipeline::build_driver(p, &rep.source, pipeline::Mode::Module).map_err(|e| format!("{:?}", e))?;
        return match c16dyn::run_dyn(p, &b.module_text, &b.exe, &[h], &mut c16dyn::DynStats::default())? {
            Some((_, m)) => Ok(Some(m)),
            None => Ok(None),
        };
    }
    Ok(c16_one(&rep.source, &mut C16Stats::default()).err())
}
