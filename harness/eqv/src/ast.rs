//! Surface AST of the eqlog fragment the harness generates (declarations, rules with
//! if/then/branch/match, nested terms). Everything is index based so that programs can be
//! serialised into replay files and reduced structurally.

use serde::{Deserialize, Serialize};

pub type TypeId = usize;
pub type RelId = usize;

#[derive(Clone, Debug, PartialEq, Eq, Hash, Serialize, Deserialize)]
pub enum TypeKind {
    Plain,
    /// Constructors are relations of kind `Ctor`, listed in declaration order.
    Enum(Vec<RelId>),
    /// `model Name { .. }` with its member predicates (relations of kind `Member`).
    Model(Vec<RelId>),
    /// The implicit morphism type `Mor(Name)` of a model type (API name `<Name>Mor`).
    Mor(TypeId),
}

#[derive(Clone, Debug, PartialEq, Eq, Hash, Serialize, Deserialize)]
pub struct TypeDecl {
    pub name: String,
    pub kind: TypeKind,
}

#[derive(Clone, Copy, Debug, PartialEq, Eq, Hash, Serialize, Deserialize)]
pub enum RelKind {
    Pred,
    Func,
    /// Constructor of the enum type `TypeId` (a function into that type).
    Ctor(TypeId),
    /// Member predicate of the model type `TypeId`; column 0 is the model element.
    Member(TypeId),
    /// The implicit functions `dom` / `cod` : Mor(M) -> M of the model type `TypeId`.
    Dom(TypeId),
    Cod(TypeId),
}

/// A relation symbol. For functions and constructors `cols` is the *graph* arity:
/// argument types followed by the result type.
#[derive(Clone, Debug, PartialEq, Eq, Hash, Serialize, Deserialize)]
pub struct RelDecl {
    pub name: String,
    pub kind: RelKind,
    pub cols: Vec<TypeId>,
}

impl RelDecl {
    pub fn is_func(&self) -> bool {
        !matches!(self.kind, RelKind::Pred | RelKind::Member(_))
    }
    pub fn arg_types(&self) -> &[TypeId] {
        if self.is_func() {
            &self.cols[..self.cols.len() - 1]
        } else {
            &self.cols
        }
    }
    pub fn result_type(&self) -> Option<TypeId> {
        if self.is_func() {
            self.cols.last().copied()
        } else {
            None
        }
    }
}

#[derive(Clone, Debug, PartialEq, Eq, Hash, Serialize, Deserialize)]
pub enum Term {
    Var(String),
    Wild,
    App(RelId, Vec<Term>),
}

#[derive(Clone, Debug, PartialEq, Eq, Hash, Serialize, Deserialize)]
pub enum IfAtom {
    Pred(RelId, Vec<Term>),
    Eq(Term, Term),
    Defined(Term),
    Typed(Term, TypeId),
}

#[derive(Clone, Debug, PartialEq, Eq, Hash, Serialize, Deserialize)]
pub enum ThenAtom {
    Pred(RelId, Vec<Term>),
    Eq(Term, Term),
    /// `[var :=] term!`
    Defined(Option<String>, Term),
}

#[derive(Clone, Debug, PartialEq, Eq, Hash, Serialize, Deserialize)]
pub struct MatchCase {
    pub ctor: RelId,
    /// Pattern arguments: variables or wildcards (other terms only occur in mutants).
    pub args: Vec<Term>,
    pub body: Vec<Stmt>,
    /// mutants only: printed verbatim instead of `ctor(args)`
    #[serde(default)]
    pub raw_pattern: Option<String>,
}

#[derive(Clone, Debug, PartialEq, Eq, Hash, Serialize, Deserialize)]
pub enum Stmt {
    If(IfAtom),
    Then(ThenAtom),
    Branch(Vec<Vec<Stmt>>),
    Match(Term, Vec<MatchCase>),
}

#[derive(Clone, Debug, PartialEq, Eq, Hash, Serialize, Deserialize)]
pub struct Rule {
    pub name: Option<String>,
    pub body: Vec<Stmt>,
}

#[derive(Clone, Copy, Debug, PartialEq, Eq, Hash, Serialize, Deserialize)]
pub enum DeclRef {
    Type(TypeId),
    Rel(RelId),
    Rule(usize),
}

#[derive(Clone, Debug, PartialEq, Eq, Hash, Serialize, Deserialize)]
pub struct Program {
    pub types: Vec<TypeDecl>,
    pub rels: Vec<RelDecl>,
    pub rules: Vec<Rule>,
    /// Order of the top-level declarations in the printed file. Constructors are printed
    /// inside their enum and never occur here.
    pub order: Vec<DeclRef>,
    /// Seed for layout choices of the printer (comments, blank lines, indentation).
    pub layout: u32,
}

impl Program {
    pub fn is_enum(&self, t: TypeId) -> bool {
        matches!(self.types[t].kind, TypeKind::Enum(_))
    }
    pub fn ctors(&self, t: TypeId) -> &[RelId] {
        match &self.types[t].kind {
            TypeKind::Enum(c) => c,
            _ => &[],
        }
    }
    pub fn preds(&self) -> Vec<RelId> {
        (0..self.rels.len()).filter(|&r| !self.rels[r].is_func()).collect()
    }
    pub fn funcs(&self) -> Vec<RelId> {
        (0..self.rels.len()).filter(|&r| self.rels[r].is_func()).collect()
    }
    /// Is there a `define_<f>` in the generated API? (Not for non-constructor functions into an
    /// enum type: enum elements can only be made through constructors.)
    pub fn definable(&self, r: RelId) -> bool {
        let d = &self.rels[r];
        match d.kind {
            RelKind::Pred | RelKind::Member(_) => false,
            RelKind::Ctor(_) => true,
            RelKind::Func => !self.is_enum(d.result_type().unwrap()),
            // define_<m>_mor_dom exists but would create model elements; histories do not use it
            RelKind::Dom(_) | RelKind::Cod(_) => false,
        }
    }
    /// Does any rule use `!` in a `then` statement?
    pub fn has_nonsurjective(&self) -> bool {
        fn go(stmts: &[Stmt]) -> bool {
            stmts.iter().any(|s| match s {
                Stmt::Then(ThenAtom::Defined(..)) => true,
                Stmt::Branch(bs) => bs.iter().any(|b| go(b)),
                Stmt::Match(_, cs) => cs.iter().any(|c| go(&c.body)),
                _ => false,
            })
        }
        self.rules.iter().any(|r| go(&r.body))
    }
}

/// snake_case conversion as used for API names (`Ka` -> `ka`, `FooBar` -> `foo_bar`). The
/// harness only generates identifiers for which this simple conversion agrees with the
/// compiler's.
pub fn snake(s: &str) -> String {
    let mut out = String::new();
    for (i, c) in s.chars().enumerate() {
        if c.is_ascii_uppercase() {
            if i > 0 {
                out.push('_');
            }
            out.push(c.to_ascii_lowercase());
        } else {
            out.push(c);
        }
    }
    out
}
