//! C16, dynamic part: the emitted rule functions are EXECUTED on model states with a known
//! new/old split, each into a fresh `ModelDelta` (one vector entry per enumerated match), and the
//! multiset of pushes of every rule is compared with a naive enumeration of the matches of its
//! sub-rule families: every match with at least one new tuple exactly once, no all-old match.
//!
//! What a rule's families ARE (atoms, variables, conclusions) is taken from the flat-rule comments
//! (the static part checks that all members of a family agree and that the declared ages are the
//! index copies read); whether the source rule was lowered correctly is C01/C02's business. This
//! part decides the "exactly once / never all-old" clause on the code that really runs: join
//! order, restriction chains, diagonal indices, `all` = new ++ old of the same order.

use crate::ast::*;
use crate::c16::{parse_subrules, SubRule};
use crate::hist::{self, Cmd, CmdKind, Op, RenderOpts, Resp};
use crate::model::{parse_tuple, Dump};
use crate::sem::parse_index_field;
use std::collections::{BTreeMap, BTreeSet};

#[derive(Debug, Clone)]
pub struct RuleMod {
    pub name: String,
    pub subrules: Vec<SubRule>,
}

/// Splits the module into its `mod <rule> { .. }` blocks (they precede the `unsafe extern` block).
pub fn parse_rule_mods(module: &str) -> Vec<RuleMod> {
    let head = match module.find("\nunsafe extern \"Rust\"") {
        Some(i) => &module[..i],
        None => module,
    };
    let mut out = Vec::new();
    let mut starts: Vec<(usize, String)> = Vec::new();
    let mut off = 0;
    for line in head.split_inclusive('\n') {
        if let Some(r) = line.strip_prefix("mod ") {
            if let Some(name) = r.trim_end().strip_suffix(" {") {
                starts.push((off, name.to_string()));
            }
        }
        off += line.len();
    }
    for (i, (s, name)) in starts.iter().enumerate() {
        let e = starts.get(i + 1).map(|x| x.0).unwrap_or(head.len());
        out.push(RuleMod { name: name.clone(), subrules: parse_subrules(&head[*s..e]) });
    }
    out
}

#[derive(Debug, Clone, PartialEq, Eq)]
enum AtomRel {
    Rel(RelId, Option<Vec<usize>>),
    TypeSet(TypeId),
}

#[derive(Debug, Clone)]
struct PAtom {
    rel: AtomRel,
    args: Vec<String>,
}

#[derive(Debug, Clone)]
struct PConcl {
    field: String,
    args: Vec<String>,
}

fn split_call(text: &str) -> Option<(&str, Vec<String>)> {
    let open = text.rfind('(')?;
    let close = text.rfind(')')?;
    let args: Vec<String> = text[open + 1..close].split(',').map(|s| s.trim().to_string()).filter(|s| !s.is_empty()).collect();
    Some((&text[..open], args))
}

fn parse_atom(p: &Program, text: &str) -> Option<PAtom> {
    let (head, args) = split_call(text)?;
    if head.contains("==") {
        return None;
    }
    let (name, diag) = match head.find("[diag=") {
        Some(i) => {
            let d: Vec<usize> = head[i + 6..].trim_end_matches(']').split(',').map(|s| s.trim().parse().ok()).collect::<Option<_>>()?;
            (&head[..i], Some(d))
        }
        None => (head, None),
    };
    if let Some(r) = (0..p.rels.len()).find(|&r| p.rels[r].name == name) {
        return Some(PAtom { rel: AtomRel::Rel(r, diag), args });
    }
    if let Some(tn) = name.strip_suffix("Set") {
        if let Some(t) = (0..p.types.len()).find(|&t| p.types[t].name == tn) {
            return Some(PAtom { rel: AtomRel::TypeSet(t), args });
        }
    }
    None
}

fn parse_concl(p: &Program, text: &str) -> Option<PConcl> {
    let (head, args) = split_call(text)?;
    if let Some((l, r)) = head.split_once("==") {
        if l == r {
            let t = (0..p.types.len()).find(|&t| p.types[t].name == l)?;
            return Some(PConcl { field: format!("new_{}_equalities", snake(&p.types[t].name)), args });
        }
        return None;
    }
    if let Some(r) = (0..p.rels.len()).find(|&r| p.rels[r].name == head) {
        return Some(PConcl { field: format!("new_{}", snake(&p.rels[r].name)), args });
    }
    if let Some(f) = head.strip_suffix("Def") {
        if let Some(r) = (0..p.rels.len()).find(|&r| p.rels[r].name == f && p.rels[r].is_func()) {
            return Some(PConcl { field: format!("new_{}_def", snake(&p.rels[r].name)), args });
        }
    }
    None
}

/// Tables of the model state: per relation / type set the tuples with their age.
pub struct Tables {
    rel: Vec<Vec<(Vec<u32>, bool)>>,
    ty: Vec<Vec<(Vec<u32>, bool)>>,
}

pub fn tables_of(p: &Program, d: &Dump) -> Result<Tables, String> {
    let mut rel: Vec<Option<(Option<BTreeSet<Vec<u32>>>, Option<BTreeSet<Vec<u32>>>)>> = vec![None; p.rels.len()];
    let mut ty = rel[..0].to_vec();
    ty.resize(p.types.len(), None);
    for (field, (arity, tuples, _)) in &d.indices {
        let f = match parse_index_field(p, field, *arity) {
            Some(f) => f,
            None => continue,
        };
        let full = f.eqs.iter().enumerate().all(|(c, &r)| c == r) && f.suffix != "_own";
        if !full {
            continue;
        }
        let mut set = BTreeSet::new();
        for s in tuples {
            set.insert(f.expand(s).ok_or_else(|| format!("{} holds a tuple of unexpected shape", field))?);
        }
        let slot = match f.target {
            Ok(r) => &mut rel[r],
            Err(t) => &mut ty[t],
        };
        let e = slot.get_or_insert((None, None));
        let age = if f.new { &mut e.0 } else { &mut e.1 };
        if age.is_none() {
            *age = Some(set);
        }
    }
    let conv = |v: Vec<Option<(Option<BTreeSet<Vec<u32>>>, Option<BTreeSet<Vec<u32>>>)>>, what: &str| -> Result<Vec<Vec<(Vec<u32>, bool)>>, String> {
        let mut out = Vec::new();
        for (i, e) in v.into_iter().enumerate() {
            let (n, o) = e.unwrap_or((None, None));
            let (n, o) = (n.unwrap_or_default(), o.unwrap_or_default());
            if let Some(t) = n.intersection(&o).next() {
                return Err(format!("{} {}: tuple {:?} is both new and old", what, i, t));
            }
            let mut tab: Vec<(Vec<u32>, bool)> = n.into_iter().map(|t| (t, true)).collect();
            tab.extend(o.into_iter().map(|t| (t, false)));
            out.push(tab);
        }
        Ok(out)
    };
    Ok(Tables { rel: conv(rel, "relation")?, ty: conv(ty, "type")? })
}

#[derive(Default, Debug, Clone)]
pub struct DynStats {
    pub states: usize,
    pub rule_invocations: usize,
    pub rule_invocations_skipped: usize,
    pub skipped_reasons: BTreeMap<String, usize>,
    pub families: usize,
    pub matches_with_new: usize,
    pub matches_all_old: usize,
    pub pushes: usize,
    /// states in which some family with >= 2 atoms had both an all-old match and a match with a new tuple
    pub decisive_states: usize,
    pub shapes: BTreeSet<String>,
}

impl DynStats {
    pub fn merge(&mut self, o: &DynStats) {
        self.states += o.states;
        self.rule_invocations += o.rule_invocations;
        self.rule_invocations_skipped += o.rule_invocations_skipped;
        for (k, v) in &o.skipped_reasons {
            *self.skipped_reasons.entry(k.clone()).or_default() += v;
        }
        self.families += o.families;
        self.matches_with_new += o.matches_with_new;
        self.matches_all_old += o.matches_all_old;
        self.pushes += o.pushes;
        self.decisive_states += o.decisive_states;
        self.shapes.extend(o.shapes.iter().cloned());
    }
}

type Pushes = BTreeMap<(String, Vec<u32>), usize>;

struct FamEval {
    /// pushes of matches with >= 1 new tuple (each once)
    with_new: Pushes,
    n_new: usize,
    n_old: usize,
    /// every match with a new tuple: (per conclusion the pushed tuple, per atom whether its tuple is new)
    matches: Vec<(Vec<(String, Vec<u32>)>, Vec<bool>)>,
}

const WORK_CAP: usize = 400_000;

fn eval_family(atoms: &[PAtom], concl: &[PConcl], tabs: &Tables, work: &mut usize) -> Option<FamEval> {
    // candidate rows per atom: (binding of the atom's args, is_new)
    let mut rows: Vec<Vec<(Vec<u32>, bool)>> = Vec::new();
    for a in atoms {
        match &a.rel {
            AtomRel::TypeSet(t) => rows.push(tabs.ty[*t].clone()),
            AtomRel::Rel(r, None) => rows.push(tabs.rel[*r].clone()),
            AtomRel::Rel(r, Some(eqs)) => {
                let reps: Vec<usize> = (0..eqs.len()).filter(|&i| eqs[i] == i).collect();
                let v = tabs.rel[*r]
                    .iter()
                    .filter(|(t, _)| t.len() == eqs.len() && eqs.iter().enumerate().all(|(c, &rep)| t[c] == t[rep]))
                    .map(|(t, n)| (reps.iter().map(|&c| t[c]).collect::<Vec<u32>>(), *n))
                    .collect();
                rows.push(v);
            }
        }
    }
    for (a, r) in atoms.iter().zip(rows.iter()) {
        if r.iter().any(|(t, _)| t.len() != a.args.len()) {
            return None;
        }
    }
    let mut out = FamEval { with_new: BTreeMap::new(), n_new: 0, n_old: 0, matches: Vec::new() };
    let mut ages: Vec<bool> = Vec::new();
    let mut env: BTreeMap<&str, u32> = BTreeMap::new();
    fn go<'a>(
        i: usize,
        any_new: bool,
        atoms: &'a [PAtom],
        rows: &[Vec<(Vec<u32>, bool)>],
        concl: &[PConcl],
        env: &mut BTreeMap<&'a str, u32>,
        ages: &mut Vec<bool>,
        out: &mut FamEval,
        work: &mut usize,
    ) -> bool {
        if i == atoms.len() {
            if any_new {
                out.n_new += 1;
                let mut rec = Vec::new();
                for c in concl {
                    let t: Vec<u32> = c.args.iter().map(|a| *env.get(a.as_str()).unwrap_or(&u32::MAX)).collect();
                    *out.with_new.entry((c.field.clone(), t.clone())).or_default() += 1;
                    rec.push((c.field.clone(), t));
                }
                if out.matches.len() < 20_000 {
                    out.matches.push((rec, ages.clone()));
                }
            } else {
                out.n_old += 1;
            }
            return true;
        }
        for (t, is_new) in &rows[i] {
            *work += 1;
            if *work > WORK_CAP {
                return false;
            }
            let mut bound: Vec<&str> = Vec::new();
            let mut ok = true;
            for (a, &v) in atoms[i].args.iter().zip(t.iter()) {
                match env.get(a.as_str()) {
                    Some(&x) => {
                        if x != v {
                            ok = false;
                            break;
                        }
                    }
                    None => {
                        env.insert(a.as_str(), v);
                        bound.push(a.as_str());
                    }
                }
            }
            if ok {
                ages.push(*is_new);
                let r = go(i + 1, any_new || *is_new, atoms, rows, concl, env, ages, out, work);
                ages.pop();
                if !r {
                    return false;
                }
            }
            for b in bound {
                env.remove(b);
            }
        }
        true
    }
    if !go(0, false, atoms, &rows, concl, &mut env, &mut ages, &mut out, work) {
        return None;
    }
    Some(out)
}

/// Parses the response to a `rules` command: the state dump and, per rule invocation, its pushes.
pub fn parse_rules_resp(p: &Program, resp: &Resp) -> Result<Option<(Dump, Vec<(String, Pushes)>)>, String> {
    if resp.lines.iter().any(|l| l == "norules") || !resp.lines.iter().any(|l| l == "endrules") {
        return Ok(None);
    }
    let d = match resp.last_dump(p)? {
        Some(d) => d,
        None => return Ok(None),
    };
    let mut out: Vec<(String, Pushes)> = Vec::new();
    let mut seen_end = false;
    // pushes are printed after `rule <name>`, i.e. they belong to the NEXT `rule` line; the adapter
    // prints `rule <name>` first and then the D lines of that invocation
    for l in &resp.lines {
        if l == "end" {
            seen_end = true;
            continue;
        }
        if !seen_end {
            continue;
        }
        if let Some(n) = l.strip_prefix("rule ") {
            out.push((n.to_string(), BTreeMap::new()));
        } else if let Some(r) = l.strip_prefix("D ") {
            let (field, body) = r.split_once(" :").ok_or("bad D line")?;
            let cur = out.last_mut().ok_or("D line before rule line")?;
            for t in body.split_whitespace() {
                *cur.1.entry((field.to_string(), parse_tuple(t))).or_default() += 1;
            }
        }
    }
    Ok(Some((d, out)))
}

fn family_of(name: &str) -> String {
    match name.rfind('_') {
        Some(k) if name[k + 1..].chars().all(|c| c.is_ascii_digit()) && !name[k + 1..].is_empty() => name[..k].to_string(),
        _ => name.to_string(),
    }
}

/// Judges one `rules` response. Err = violation message.
pub fn judge_state(p: &Program, mods: &[RuleMod], delta_fields: &[(String, usize)], d: &Dump, actual: &[(String, Pushes)], st: &mut DynStats) -> Result<(), String> {
    let tabs = tables_of(p, d)?;
    st.states += 1;
    let mut decisive = false;
    for (rule, pushes) in actual {
        let m = match mods.iter().find(|m| &m.name == rule) {
            Some(m) => m,
            None => {
                st.rule_invocations_skipped += 1;
                *st.skipped_reasons.entry("no rule module of that name".into()).or_default() += 1;
                continue;
            }
        };
        let is_functionality = rule.starts_with("functionality_");
        // families of this rule
        let mut fams: BTreeMap<String, Vec<&SubRule>> = BTreeMap::new();
        for s in &m.subrules {
            let key = if is_functionality { s.name.clone() } else { family_of(&s.name) };
            fams.entry(key).or_default().push(s);
        }
        let mut expected: Pushes = BTreeMap::new();
        let mut e1: Pushes = BTreeMap::new();
        let mut e2: Pushes = BTreeMap::new();
        let mut e3: Pushes = BTreeMap::new();
        let mut skip: Option<String> = None;
        let mut work = 0usize;
        let mut fam_new = 0;
        let mut fam_old = 0;
        for (_fam, members) in &fams {
            let s0 = members[0];
            if s0.atoms.is_empty() {
                skip = Some("family with empty premise".into());
                break;
            }
            let atoms: Option<Vec<PAtom>> = s0.atoms.iter().map(|(t, _)| parse_atom(p, t)).collect();
            let concl: Option<Vec<PConcl>> = s0.concl.iter().map(|t| parse_concl(p, t)).collect();
            let (atoms, concl) = match (atoms, concl) {
                (Some(a), Some(c)) => (a, c),
                _ => {
                    skip = Some("atom or conclusion not interpretable (premise equality / member relation)".into());
                    break;
                }
            };
            if concl.iter().any(|c| !delta_fields.iter().any(|(f, n)| f == &c.field && *n == c.args.len())) {
                skip = Some("conclusion does not map to a ModelDelta field".into());
                break;
            }
            let fe = match eval_family(&atoms, &concl, &tabs, &mut work) {
                Some(f) => f,
                None => {
                    skip = Some("work cap".into());
                    break;
                }
            };
            st.families += 1;
            fam_new += fe.n_new;
            fam_old += fe.n_old;
            if atoms.len() >= 2 && fe.n_new > 0 && fe.n_old > 0 {
                decisive = true;
                let mut rels: Vec<String> = s0.atoms.iter().map(|(t, _)| t.split('(').next().unwrap_or("").to_string()).collect();
                rels.sort();
                st.shapes.insert(format!("{}:{}", atoms.len(), rels.join(",")));
            }
            if is_functionality && atoms.len() == 2 && concl.len() == 1 {
                // The implicit single-valuedness rule is symmetric in its two atoms; the property
                // accepts a covering "up to that symmetry". Three exact coverings are admitted:
                // E1 = ordered pairs whose first tuple is new, E2 = whose second tuple is new,
                // E3 = every unordered pair with a new tuple once. Results are compared unordered.
                for (rec, ages) in &fe.matches {
                    let (f, t) = &rec[0];
                    let mut u = t.clone();
                    u.sort();
                    let key = (f.clone(), u);
                    if ages[0] {
                        *e1.entry(key.clone()).or_default() += 1;
                    }
                    if ages[1] {
                        *e2.entry(key.clone()).or_default() += 1;
                    }
                    if t[0] == t[1] || t[0] < t[1] {
                        *e3.entry(key).or_default() += 1;
                    }
                }
            } else {
                for (k, c) in fe.with_new {
                    *expected.entry(k).or_default() += c;
                }
            }
        }
        if let Some(r) = skip {
            st.rule_invocations_skipped += 1;
            *st.skipped_reasons.entry(r).or_default() += 1;
            continue;
        }
        st.rule_invocations += 1;
        st.matches_with_new += fam_new;
        st.matches_all_old += fam_old;
        st.pushes += pushes.values().sum::<usize>();
        if is_functionality {
            let mut act: Pushes = BTreeMap::new();
            for ((f, t), c) in pushes {
                let mut u = t.clone();
                u.sort();
                *act.entry((f.clone(), u)).or_default() += c;
            }
            if act != e1 && act != e2 && act != e3 {
                let keys: BTreeSet<&(String, Vec<u32>)> = act.keys().chain(e1.keys()).collect();
                for k in keys {
                    let a = act.get(k).copied().unwrap_or(0);
                    let e = e1.get(k).copied().unwrap_or(0);
                    if a != e {
                        return Err(format!(
                            "rule {}: result pair {:?} was pushed to {} {} time(s) in one iteration; the pairs of graph tuples with a new first tuple give it {} time(s) (pairs with a new tuple: {}, all-old pairs: {}); no symmetric covering explains the pushes either",
                            rule, k.1, k.0, a, e, fam_new, fam_old
                        ));
                    }
                }
            }
            continue;
        }
        if *pushes != expected {
            // first difference
            let keys: BTreeSet<&(String, Vec<u32>)> = pushes.keys().chain(expected.keys()).collect();
            for k in keys {
                let a = pushes.get(k).copied().unwrap_or(0);
                let e = expected.get(k).copied().unwrap_or(0);
                if a != e {
                    return Err(format!(
                        "rule {}: {}{:?} was pushed {} time(s) in one iteration, but {} match(es) of the rule's families involve a new tuple and conclude it (matches with a new tuple: {}, all-old matches: {}){}",
                        rule,
                        k.0,
                        k.1,
                        a,
                        e,
                        fam_new,
                        fam_old,
                        if a > e { ": an all-old match is re-enumerated or a match is enumerated by several sub-rules" } else { ": a match involving a new tuple is not enumerated" }
                    ));
                }
            }
        }
    }
    if decisive {
        st.decisive_states += 1;
    }
    Ok(())
}

/// Renders a history for the dynamic check: `rules` is issued before every close, after every
/// partial close_until and at the end.
pub fn render_dyn(p: &Program, h: &[Op]) -> Vec<Cmd> {
    let ro = RenderOpts {
        auto: 0,
        id_bound: if p.has_nonsurjective() { Some(40) } else { None },
        max_evals: if p.has_nonsurjective() { 60 } else { 2000 },
        final_close: false,
        with_steps: true,
        xq_cap: 0,
        cases: false,
        observe: 0,
    };
    let base = hist::render(p, h, &ro);
    let rules = || Cmd { text: "rules".into(), kind: CmdKind::Other };
    let mut out = Vec::new();
    let mut dirty = false;
    for c in base {
        match c.kind {
            CmdKind::Close => {
                if dirty {
                    out.push(rules());
                }
                out.push(c);
                dirty = false;
            }
            CmdKind::CloseSteps(_) => {
                out.push(c);
                out.push(rules());
                dirty = false;
            }
            CmdKind::Insert(_) | CmdKind::Define(_) | CmdKind::Equate(_) | CmdKind::New(_) => {
                out.push(c);
                dirty = true;
            }
            _ => out.push(c),
        }
    }
    if dirty {
        out.push(rules());
    }
    out
}

/// Runs one history against a driver and judges every `rules` response.
pub fn run_dyn(p: &Program, module: &str, exe: &std::path::Path, hs: &[Vec<Op>], st: &mut DynStats) -> Result<Option<(usize, String)>, String> {
    let mods = parse_rule_mods(module);
    let delta_fields = crate::pipeline::parse_delta_fields(module);
    let mut all: Vec<Cmd> = Vec::new();
    let mut spans = Vec::new();
    for h in hs {
        let cmds = render_dyn(p, h);
        spans.push((all.len(), cmds.len()));
        all.extend(cmds);
    }
    let script = hist::script(&all);
    let out = crate::pipeline::run_driver(exe, &script, std::time::Duration::from_secs(30 + hs.len() as u64), &[]).map_err(|e| e.to_string())?;
    if out.timed_out {
        return Err("driver timed out".into());
    }
    let resps = hist::parse_transcript(&out.stdout_str(), all.len());
    for (hi, (start, len)) in spans.iter().enumerate() {
        for i in *start..*start + *len {
            if all[i].text != "rules" {
                if let Some(m) = resps[i].panic_msg() {
                    // a panic of an API call is C01's business; stop judging this history
                    let _ = m;
                    break;
                }
                continue;
            }
            if resps[i].is_poisoned() || resps[i].is_skip() {
                break;
            }
            if let Some(m) = resps[i].panic_msg() {
                return Ok(Some((hi, format!("running the rule functions of one iteration panicked: {}", m))));
            }
            match parse_rules_resp(p, &resps[i]) {
                Ok(Some((d, actual))) => {
                    if let Err(msg) = judge_state(p, &mods, &delta_fields, &d, &actual, st) {
                        return Ok(Some((hi, msg)));
                    }
                }
                Ok(None) => {}
                Err(e) => return Err(format!("unparsable rules response: {}", e)),
            }
        }
    }
    Ok(None)
}
