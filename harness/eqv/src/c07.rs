//! C07: close_until honours its contract and can be resumed. Two-phase cases: phase A runs the
//! history with an observing close_until to obtain the trace of states at every evaluation of the
//! condition; a monotone condition over public queries (holds / defined / equal on caller-known
//! ids) that first becomes true strictly inside the run is derived from the trace; phase B runs
//! the same history with that condition, then more facts, then close().

use crate::ast::*;
use crate::campaign::{self, draw_programs};
use crate::chase::{self, Bounds};
use crate::evidence::{self, Evidence, KnownFindings};
use crate::flat::{self, FlatRule};
use crate::hist::{self, Op, RenderOpts};
use crate::iso;
use crate::model::{Dump, Model};
use crate::pipeline::{self, Mode};
use crate::print;
use crate::pt;
use crate::util;
use proptest::strategy::{Strategy, ValueTree};
use rayon::prelude::*;
use serde::{Deserialize, Serialize};
use serde_json::json;
use std::time::{Duration, Instant};

#[derive(Clone, Debug, PartialEq, Eq, Serialize, Deserialize)]
pub enum Cond {
    Holds(RelId, Vec<u32>),
    Defined(RelId, Vec<u32>),
    Equal(TypeId, u32, u32),
    And(Box<Cond>, Box<Cond>),
    Or(Box<Cond>, Box<Cond>),
}

impl Cond {
    pub fn text(&self) -> String {
        let args = |a: &[u32]| a.iter().map(|x| x.to_string()).collect::<Vec<_>>().join(" ");
        match self {
            Cond::Holds(r, a) => format!("holds {} {}", r, args(a)).trim_end().to_string(),
            Cond::Defined(r, a) => format!("defined {} {}", r, args(a)).trim_end().to_string(),
            Cond::Equal(t, a, b) => format!("equal {} {} {}", t, a, b),
            Cond::And(a, b) => format!("and {} {}", a.text(), b.text()),
            Cond::Or(a, b) => format!("or {} {}", a.text(), b.text()),
        }
    }
    /// Evaluation on a dumped state, by the harness (independent of the driver's evaluation).
    pub fn eval(&self, p: &Program, m: &Model) -> bool {
        match self {
            Cond::Holds(r, a) => {
                if a.iter().zip(p.rels[*r].cols.iter()).any(|(&x, &t)| x as usize >= m.len(t)) {
                    return false;
                }
                m.holds(p, *r, a)
            }
            Cond::Defined(r, a) => {
                if a.iter().zip(p.rels[*r].cols.iter()).any(|(&x, &t)| x as usize >= m.len(t)) {
                    return false;
                }
                m.eval(p, *r, a).is_some()
            }
            Cond::Equal(t, a, b) => (*a as usize) < m.len(*t) && (*b as usize) < m.len(*t) && m.find(*t, *a) == m.find(*t, *b),
            Cond::And(a, b) => a.eval(p, m) && b.eval(p, m),
            Cond::Or(a, b) => a.eval(p, m) || b.eval(p, m),
        }
    }
}

/// Atomic monotone conditions over ids < prelens that are true in `m`.
fn true_atoms(p: &Program, m: &Model, prelens: &[usize]) -> Vec<Cond> {
    let mut out = Vec::new();
    for r in 0..p.rels.len() {
        let cols = &p.rels[r].cols;
        for t in &m.rels[r] {
            // every class member < prelen could be used; take the smallest caller-known member
            let mut args = Vec::new();
            let mut ok = true;
            for (x, &ty) in t.iter().zip(cols.iter()) {
                match (0..prelens[ty].min(m.len(ty)) as u32).find(|&i| m.find(ty, i) == *x) {
                    Some(i) => args.push(i),
                    None => {
                        ok = false;
                        break;
                    }
                }
            }
            if ok {
                out.push(Cond::Holds(r, args.clone()));
            }
            if p.rels[r].is_func() {
                // defined(f, args) only needs the arguments to be caller-known
                let n = cols.len() - 1;
                let mut a2 = Vec::new();
                let mut ok2 = true;
                for (x, &ty) in t[..n].iter().zip(cols.iter()) {
                    match (0..prelens[ty].min(m.len(ty)) as u32).find(|&i| m.find(ty, i) == *x) {
                        Some(i) => a2.push(i),
                        None => {
                            ok2 = false;
                            break;
                        }
                    }
                }
                if ok2 {
                    out.push(Cond::Defined(r, a2));
                }
            }
        }
    }
    for ty in 0..p.types.len() {
        let n = prelens[ty].min(m.len(ty)) as u32;
        for a in 0..n {
            for b in a + 1..n {
                if m.find(ty, a) == m.find(ty, b) {
                    out.push(Cond::Equal(ty, a, b));
                }
            }
        }
    }
    out
}

#[derive(Clone, Debug, Serialize, Deserialize)]
pub struct C07Replay {
    pub kind: String,
    pub property: String,
    pub program: Program,
    pub source: String,
    pub history: Vec<Op>,
    pub extra: Vec<Op>,
    pub choice: u16,
    pub message: String,
    pub seed: u64,
}

#[derive(Default, Clone)]
pub struct Outcome {
    pub finding: Option<String>,
    pub infra: Option<String>,
    pub discarded: Option<&'static str>,
    pub early_inside: bool,
    pub chained: bool,
    pub states: usize,
    pub cond: Option<String>,
    pub script_b: String,
}

fn ro(p: &Program) -> RenderOpts {
    RenderOpts { auto: 0, id_bound: if p.has_nonsurjective() { Some(48) } else { None }, max_evals: if p.has_nonsurjective() { 300 } else { 100_000 }, final_close: false, with_steps: false, xq_cap: 0, cases: false, observe: 0 }
}

fn strip_closes(h: &[Op]) -> Vec<Op> {
    h.iter().filter(|o| !matches!(o, Op::Close | Op::CloseSteps { .. })).cloned().collect()
}

pub fn run_case(p: &Program, rules: &[FlatRule], exe: &std::path::Path, h: &[Op], extra: &[Op], choice: u16) -> Outcome {
    let mut o = Outcome::default();
    let r = ro(p);
    let h = strip_closes(h);
    let extra = strip_closes(extra);
    let mut cmds = hist::render(p, &h, &r);
    let bound = hist::close_cmd(&RenderOpts { observe: 1, ..r });
    cmds.push(hist::Cmd { text: "dump".into(), kind: hist::CmdKind::Dump });
    let dump_line = cmds.len() - 1;
    cmds.push(hist::Cmd { text: bound.clone(), kind: hist::CmdKind::Close });
    let cu_line = cmds.len() - 1;
    let script_a = hist::script(&cmds);
    let out = match pipeline::run_driver(exe, &script_a, Duration::from_secs(30), &[]) {
        Ok(x) => x,
        Err(e) => {
            o.infra = Some(e.to_string());
            return o;
        }
    };
    if out.timed_out {
        o.infra = Some("timeout".into());
        return o;
    }
    let resps = hist::parse_transcript(&out.stdout_str(), cmds.len());
    for (i, rsp) in resps.iter().enumerate() {
        if let Some(m) = rsp.panic_msg() {
            o.finding = Some(format!("`{}` panicked: {}", cmds[i].text, m));
            return o;
        }
    }
    let pre = match resps[dump_line].last_dump(p) {
        Ok(Some(d)) => d,
        _ => {
            o.infra = Some("no pre dump".into());
            return o;
        }
    };
    let (ret_a, _evals_a, _) = match resps[cu_line].cu() {
        Some(x) => x,
        None => {
            o.infra = Some("no cu".into());
            return o;
        }
    };
    let obs: Vec<(String, Dump)> = match resps[cu_line].observations(p) {
        Ok(x) => x,
        Err(e) => {
            o.infra = Some(e);
            return o;
        }
    };
    o.states = obs.len();
    if ret_a {
        o.discarded = Some("unbounded");
        return o;
    }
    let prelens: Vec<usize> = (0..p.types.len()).map(|t| pre.roots[t].len()).collect();
    let mut free = pre.to_model(p);
    free.normalize(p);
    let cs = chase::chase(p, rules, &mut free, &Bounds::default());
    if cs.bounded {
        o.discarded = Some("reference_chase_bounded");
        return o;
    }
    let states: Vec<Model> = obs.iter().map(|(_, d)| d.to_model(p)).collect();
    // (2) every state seen by the condition lies inside the free model
    for (k, s) in states.iter().enumerate() {
        if let Err(e) = iso::homomorphic(p, s, &free, &prelens) {
            o.finding = Some(format!("state at evaluation {} of the condition is not contained in the free model: {}", k, e));
            return o;
        }
    }
    if states.len() < 2 {
        o.discarded = Some("trace_too_short");
        return o;
    }
    // a monotone condition that first becomes true at state k (0 < k, preferably < last)
    let n = states.len();
    let mut cands: Vec<(usize, Cond)> = Vec::new();
    for k in 1..n {
        let before: Vec<Cond> = true_atoms(p, &states[k - 1], &prelens);
        for c in true_atoms(p, &states[k], &prelens) {
            if !before.contains(&c) && (0..k).all(|j| !c.eval(p, &states[j])) {
                cands.push((k, c));
            }
        }
    }
    if cands.is_empty() {
        o.discarded = Some("no_monotone_condition_distinguishes_a_state");
        return o;
    }
    // prefer conditions that turn true strictly before the final state
    let inside: Vec<(usize, Cond)> = cands.iter().filter(|(k, _)| *k < n - 1).cloned().collect();
    let pool = if inside.is_empty() { &cands } else { &inside };
    let (k, mut cond) = pool[(choice as usize * pool.len()) >> 16].clone();
    // sometimes combine with another atom (still monotone)
    if choice % 3 == 1 && pool.len() > 1 {
        let (k2, c2) = pool[((choice as usize).wrapping_mul(31) % pool.len())].clone();
        if k2 >= k {
            cond = Cond::Or(Box::new(cond), Box::new(Cond::And(Box::new(c2.clone()), Box::new(c2))));
        }
    }
    o.cond = Some(cond.text());
    o.early_inside = k < n - 1;
    // phase B
    let mut cmds = hist::render(p, &h, &r);
    cmds.push(hist::Cmd { text: format!("cu 1 {}", cond.text()), kind: hist::CmdKind::Close });
    let cu_b = cmds.len() - 1;
    cmds.push(hist::Cmd { text: "dump".into(), kind: hist::CmdKind::Dump });
    let d1 = cmds.len() - 1;
    // chains: a second close_until right after the first one, either with the SAME condition (it
    // already holds: the call must return true at once and must not lose pending work) or with a
    // condition that turns true later in the trace (resumption through several early returns)
    let mut second: Option<(usize, Cond, usize)> = None;
    match choice % 4 {
        1 | 3 => {
            cmds.push(hist::Cmd { text: format!("cu 1 {}", cond.text()), kind: hist::CmdKind::Close });
            second = Some((cmds.len() - 1, cond.clone(), 0));
        }
        2 => {
            let later: Vec<&(usize, Cond)> = cands.iter().filter(|(k2, c2)| *k2 > k && !c2.eval(p, &states[k])).collect();
            if !later.is_empty() {
                let (_, c2) = later[(choice as usize / 4) % later.len()];
                cmds.push(hist::Cmd { text: format!("cu 1 {}", c2.text()), kind: hist::CmdKind::Close });
                second = Some((cmds.len() - 1, c2.clone(), 0));
            }
        }
        _ => {}
    }
    if let Some(sec) = second.as_mut() {
        cmds.push(hist::Cmd { text: "dump".into(), kind: hist::CmdKind::Dump });
        sec.2 = cmds.len() - 1;
    }
    o.chained = second.is_some();
    let extra_cmds = hist::render(p, &extra, &r);
    cmds.extend(extra_cmds.into_iter().skip(2));
    cmds.push(hist::Cmd { text: "dump".into(), kind: hist::CmdKind::Dump });
    let d2 = cmds.len() - 1;
    cmds.push(hist::Cmd { text: hist::close_cmd(&r), kind: hist::CmdKind::Close });
    let cl = cmds.len() - 1;
    cmds.push(hist::Cmd { text: "dump".into(), kind: hist::CmdKind::Dump });
    let d3 = cmds.len() - 1;
    o.script_b = hist::script(&cmds);
    let out = match pipeline::run_driver(exe, &o.script_b, Duration::from_secs(30), &[]) {
        Ok(x) => x,
        Err(e) => {
            o.infra = Some(e.to_string());
            return o;
        }
    };
    if out.timed_out {
        o.infra = Some("timeout".into());
        return o;
    }
    let resps = hist::parse_transcript(&out.stdout_str(), cmds.len());
    for (i, rsp) in resps.iter().enumerate() {
        if let Some(m) = rsp.panic_msg() {
            o.finding = Some(format!("`{}` panicked: {}", cmds[i].text, m));
            return o;
        }
    }
    let (ret_b, _evals_b, _) = match resps[cu_b].cu() {
        Some(x) => x,
        None => {
            o.infra = Some("no cu (B)".into());
            return o;
        }
    };
    let get = |line: usize| -> Option<Dump> { resps[line].last_dump(p).ok().flatten() };
    let (s1, s2, s3) = match (get(d1), get(d2), get(d3)) {
        (Some(a), Some(b), Some(c)) => (a, b, c),
        _ => {
            o.infra = Some("missing dump (B)".into());
            return o;
        }
    };
    let m1 = s1.to_model(p);
    // (1) contract of the return value
    if ret_b {
        if !cond.eval(p, &m1) {
            o.finding = Some(format!("close_until returned true but the condition `{}` does not hold in the returned state", cond.text()));
            return o;
        }
    } else {
        if cond.eval(p, &m1) {
            o.finding = Some(format!("close_until returned false although the condition `{}` holds in the returned state", cond.text()));
            return o;
        }
        if let Some(e) = chase::first_unsatisfied(p, rules, &m1, 2_000_000) {
            o.finding = Some(format!("close_until returned false in a state that is not closed: {}", e));
            return o;
        }
        // the condition holds in the free model (it was true in a state contained in it) and
        // is monotone, so `false` from a closed state contradicts C02 rather than C07; not judged here
    }
    // the condition is evaluated on states inside the free model, too
    if let Ok(obs_b) = resps[cu_b].observations(p) {
        for (k2, (_, d)) in obs_b.iter().enumerate() {
            if let Err(e) = iso::homomorphic(p, &d.to_model(p), &free, &prelens) {
                o.finding = Some(format!("state at evaluation {} (phase B) is not contained in the free model: {}", k2, e));
                return o;
            }
        }
    }
    if let Err(e) = iso::homomorphic(p, &m1, &free, &prelens) {
        o.finding = Some(format!("the state in which close_until stopped is not contained in the free model: {}", e));
        return o;
    }
    // the second call of a chain
    if let Some((line, c2, dline)) = &second {
        let (ret2, evals2, _) = match resps[*line].cu() {
            Some(x) => x,
            None => {
                o.infra = Some("no cu (B2)".into());
                return o;
            }
        };
        let m1b = match get(*dline) {
            Some(d) => d.to_model(p),
            None => {
                o.infra = Some("missing dump (B2)".into());
                return o;
            }
        };
        if ret2 && !c2.eval(p, &m1b) {
            o.finding = Some(format!("second close_until returned true but the condition `{}` does not hold in the returned state", c2.text()));
            return o;
        }
        if !ret2 {
            if c2.eval(p, &m1b) {
                o.finding = Some(format!("second close_until returned false although the condition `{}` holds in the returned state", c2.text()));
                return o;
            }
            if let Some(e) = chase::first_unsatisfied(p, rules, &m1b, 2_000_000) {
                o.finding = Some(format!("second close_until returned false in a state that is not closed: {}", e));
                return o;
            }
        }
        if ret_b && c2 == &cond && (!ret2 || evals2 != 1) {
            o.finding = Some(format!("close_until was called again with the condition `{}` that already held: it returned {} after {} evaluations (expected true at the first evaluation)", c2.text(), ret2, evals2));
            return o;
        }
        if let Err(e) = iso::homomorphic(p, &m1b, &free, &prelens) {
            o.finding = Some(format!("the state in which the second close_until stopped is not contained in the free model: {}", e));
            return o;
        }
    }
    // (3) resumption: close() after the early return (and further facts) reaches the free model
    let (ret_c, _, _) = match resps[cl].cu() {
        Some(x) => x,
        None => {
            o.infra = Some("no final close".into());
            return o;
        }
    };
    if ret_c {
        o.discarded = Some("final_close_unbounded");
        return o;
    }
    let lens2: Vec<usize> = (0..p.types.len()).map(|t| s2.roots[t].len()).collect();
    let mut expected = s2.to_model(p);
    expected.normalize(p);
    let cs2 = chase::chase(p, rules, &mut expected, &Bounds::default());
    if cs2.bounded {
        o.discarded = Some("reference_chase_bounded_2");
        return o;
    }
    let m3 = s3.to_model(p);
    if let Some(e) = chase::first_unsatisfied(p, rules, &m3, 2_000_000) {
        o.finding = Some(format!("close() after an early return of close_until does not reach a closed model: {}", e));
        return o;
    }
    if let Err(e) = iso::isomorphic(p, &expected, &m3, &lens2) {
        o.finding = Some(format!("close() after an early return of close_until does not reach the model a direct close() produces: {}", e));
        return o;
    }
    o
}

pub fn run_c07(tier: &str, seed: u64) -> campaign::CampaignResult {
    let start = Instant::now();
    let thorough = tier == "thorough";
    let (np, nh) = if thorough { (600, 200) } else { (64, 100) };
    let np = std::env::var("EQV_NPROG").ok().and_then(|v| v.parse().ok()).unwrap_or(np);
    let nh = std::env::var("EQV_NHIST").ok().and_then(|v| v.parse().ok()).unwrap_or(nh);
    let known = KnownFindings::load();
    let mut ev = Evidence::new("C07", tier, seed, "exploration");
    let profiles = vec!["stratified".to_string(), "free".to_string(), "stratified".to_string(), "surjective".to_string()];
    let programs = draw_programs(seed, &profiles, np);
    struct PP {
        built: bool,
        rows: Vec<(Outcome, u64)>,
        finding: Option<(Vec<Op>, Vec<Op>, u16, String)>,
        sample: Option<serde_json::Value>,
        gave_up: bool,
    }
    let items: Vec<(&Program, &str)> = programs.iter().map(|pc| (&pc.program, pc.source.as_str())).collect();
    let builts = pipeline::build_all(&items, Mode::Module);
    let results: Vec<PP> = programs
        .par_iter()
        .zip(builts.into_par_iter())
        .map(|(pc, built)| {
            let mut pp = PP { built: false, rows: vec![], finding: None, sample: None, gave_up: false };
            let mut timeouts = 0usize;
            let rules = match flat::flatten_program(&pc.program) {
                Ok(r) => r,
                Err(_) => return pp,
            };
            let built = match built {
                Ok(b) => b,
                Err(_) => return pp,
            };
            pp.built = true;
            let mut runner = pt::runner(seed, 7000 + pc.index as u64);
            let strat = (hist::history_strategy(18), hist::history_strategy(4), proptest::num::u16::ANY);
            for _ in 0..nh {
                let tree = strat.new_tree(&mut runner).expect("tree");
                let (h, extra, choice) = tree.current();
                let o = run_case(&pc.program, &rules, &built.exe, &h, &extra, choice);
                // a program whose closes keep running into the watchdog (combinatorially large models)
                // is given up after a few cases: inconclusive, counted, never a violation
                if o.infra.as_deref() == Some("timeout") {
                    timeouts += 1;
                    if timeouts >= 3 {
                        pp.rows.push((o, 0));
                        pp.gave_up = true;
                        break;
                    }
                }
                let fp = util::hash64(&[pc.source.as_bytes(), o.script_b.as_bytes()]);
                if pp.sample.is_none() && o.early_inside && o.finding.is_none() && o.discarded.is_none() {
                    pp.sample = Some(json!({"program": print::plain(&pc.program), "script": o.script_b, "condition": o.cond}));
                }
                if let Some(msg) = o.finding.clone() {
                    let small = pt::shrink(
                        tree,
                        |(h, e, c)| run_case(&pc.program, &rules, &built.exe, h, e, *c).finding.is_some(),
                        200,
                    );
                    let msg2 = run_case(&pc.program, &rules, &built.exe, &small.0, &small.1, small.2).finding.unwrap_or(msg);
                    pp.finding = Some((small.0, small.1, small.2, msg2));
                    pp.rows.push((o, fp));
                    break;
                }
                pp.rows.push((o, fp));
            }
            pp
        })
        .collect();
    let mut violations = 0;
    let mut built = 0u64;
    for (pc, pp) in programs.iter().zip(results.iter()) {
        if !pp.built {
            ev.count("programs_not_built", 1);
            continue;
        }
        built += 1;
        if pp.gave_up {
            ev.count("programs_given_up_after_three_watchdog_timeouts", 1);
        }
        campaign::program_features(&pc.program, &mut ev);
        for (o, fp) in &pp.rows {
            ev.evaluations += 1;
            if let Some(d) = o.discarded {
                ev.count(&format!("discarded.{}", d), 1);
            }
            if o.infra.is_some() {
                ev.count("infra_problems", 1);
            }
            if o.cond.is_some() {
                ev.count("cases_with_monotone_condition", 1);
            }
            ev.count("states_observed", o.states as u64);
            if o.chained && o.discarded.is_none() {
                ev.count("cases_with_a_second_close_until_after_the_early_return", 1);
            }
            if o.early_inside && o.discarded.is_none() {
                ev.nontrivial.insert(*fp);
            }
        }
        if let Some(s) = &pp.sample {
            ev.sample(s.clone(), 3);
        }
        if let Some((h, extra, choice, msg)) = &pp.finding {
            let budget = if violations >= 3 { 0 } else { 30 };
            let reduced = campaign::reduce_program_with(&pc.program, budget, &|q, rules, b| run_case(q, rules, &b.exe, h, extra, *choice).finding.is_some());
            let rep = C07Replay { kind: "c07".into(), property: "C07".into(), source: print::plain(&reduced), program: reduced, history: h.clone(), extra: extra.clone(), choice: *choice, message: msg.clone(), seed };
            let sig = format!("C07:{}", msg.chars().map(|c| if c.is_ascii_digit() { '#' } else { c }).take(90).collect::<String>());
            if let Some(kf) = known.known("C07", &sig) {
                println!("KNOWN-FINDING: property=C07 {}", kf.what);
                continue;
            }
            let path = evidence::write_replay("C07", "cu", &serde_json::to_value(&rep).unwrap());
            eprintln!("violation of C07: {}\n  signature: {}", msg, sig);
            evidence::print_violation("C07", &path);
            violations += 1;
        }
    }
    ev.count("programs_built", built);
    ev.extra.insert("programs".into(), json!(built));
    ev.rule = "two-phase cases: (A) history + observing close_until gives the trace of states at every evaluation of the condition; a monotone condition (holds/defined/equal over caller-known ids, and/or combinations) that first becomes true at a chosen state is derived; (B) same history with that condition, then (half of the cases) a second close_until - with the same condition, which already holds, or with a condition that turns true later in the trace -, then further assertions, then close(). evaluations = cases; non-trivial = the condition turns true strictly before the fixed point (an early return with pending work); distinct by hash(program, phase-B script)".into();
    ev.assumptions = vec!["reference chase terminates within the bound for judged cases; the state before close_until is taken from the public dump (C05 checks its faithfulness)".into()];
    ev.violations = violations as u64;
    ev.wall_s = start.elapsed().as_secs_f64();
    ev.write();
    println!("C07 {} seed={} programs={} cases={} nontrivial={} violations={} wall={:.1}s", tier, seed, built, ev.evaluations, ev.nontrivial.len(), violations, ev.wall_s);
    campaign::CampaignResult { violations, inconclusive: built == 0 }
}

pub fn replay_c07(rep: &C07Replay) -> Result<Option<String>, String> {
    let rules = flat::flatten_program(&rep.program)?;
    let built = pipeline::build_driver(&rep.program, &rep.source, Mode::Module).map_err(|e| format!("{:?}", e))?;
    let o = run_case(&rep.program, &rules, &built.exe, &rep.history, &rep.extra, rep.choice);
    if let Some(i) = o.infra {
        return Err(i);
    }
    Ok(o.finding)
}
