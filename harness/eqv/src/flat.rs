//! Reference elaboration of rules into flat rules, written from the language description and
//! independent of the compiler's flattening: control-flow paths, per-path type inference, one
//! flat rule per `then` statement ("stage").

use crate::ast::*;
use std::collections::BTreeMap;

#[derive(Clone, Debug, PartialEq, Eq)]
pub enum FAtom {
    /// relation / function-graph tuple over flat variables
    Rel(RelId, Vec<usize>),
    /// membership of a flat variable in a type (for variables no tuple binds)
    Type(TypeId, usize),
}

/// Conclusion terms are evaluated dynamically in the model.
#[derive(Clone, Debug, PartialEq, Eq)]
pub enum CTerm {
    Var(usize),
    App(RelId, Vec<CTerm>),
}

#[derive(Clone, Debug, PartialEq, Eq)]
pub enum FConcl {
    Rel(RelId, Vec<CTerm>),
    Eq(CTerm, CTerm),
    Define(RelId, Vec<CTerm>),
}

#[derive(Clone, Debug)]
pub struct FlatRule {
    pub rule: usize,
    pub path: usize,
    pub stage: usize,
    pub nvars: usize,
    pub premise: Vec<FAtom>,
    pub concl: FConcl,
    /// number of source-level `if` atoms + earlier `then` atoms in the premise
    pub n_source_atoms: usize,
    pub text: String,
}

#[derive(Clone, Debug)]
pub enum PStmt {
    If(IfAtom),
    Then(ThenAtom),
}

/// Control-flow paths of a rule body. Statements after a branch/match are continued once per
/// block (the block's statements stay part of the premise), but variables introduced inside a
/// block are not in scope after it: a later occurrence of the same identifier is a new variable.
/// Paths are returned with variables renamed apart (`name#k`), so that within one path names
/// and variables correspond one-to-one.
pub fn paths(body: &[Stmt]) -> Vec<Vec<PStmt>> {
    #[derive(Clone)]
    struct Frame<'a> {
        stmts: &'a [Stmt],
        idx: usize,
        introduced: Vec<String>,
    }
    #[derive(Clone)]
    struct State<'a> {
        frames: Vec<Frame<'a>>,
        env: BTreeMap<String, String>,
        cur: Vec<PStmt>,
    }
    fn rn_term(t: &Term, st: &mut State, ctr: &mut usize) -> Term {
        match t {
            Term::Wild => Term::Wild,
            Term::Var(n) => {
                if let Some(u) = st.env.get(n) {
                    return Term::Var(u.clone());
                }
                *ctr += 1;
                let u = format!("{}#{}", n, ctr);
                st.env.insert(n.clone(), u.clone());
                st.frames.last_mut().unwrap().introduced.push(n.clone());
                Term::Var(u)
            }
            Term::App(f, a) => Term::App(*f, a.iter().map(|x| rn_term(x, st, ctr)).collect()),
        }
    }
    fn rn_if(a: &IfAtom, st: &mut State, ctr: &mut usize) -> IfAtom {
        match a {
            IfAtom::Pred(r, args) => IfAtom::Pred(*r, args.iter().map(|x| rn_term(x, st, ctr)).collect()),
            IfAtom::Eq(l, r) => {
                let l2 = rn_term(l, st, ctr);
                IfAtom::Eq(l2, rn_term(r, st, ctr))
            }
            IfAtom::Defined(t) => IfAtom::Defined(rn_term(t, st, ctr)),
            IfAtom::Typed(t, ty) => IfAtom::Typed(rn_term(t, st, ctr), *ty),
        }
    }
    fn rn_then(a: &ThenAtom, st: &mut State, ctr: &mut usize) -> ThenAtom {
        match a {
            ThenAtom::Pred(r, args) => ThenAtom::Pred(*r, args.iter().map(|x| rn_term(x, st, ctr)).collect()),
            ThenAtom::Eq(l, r) => {
                let l2 = rn_term(l, st, ctr);
                ThenAtom::Eq(l2, rn_term(r, st, ctr))
            }
            ThenAtom::Defined(v, t) => {
                // the term is evaluated in the scope before the new variable is bound
                let t2 = rn_term(t, st, ctr);
                let v2 = v.as_ref().map(|n| match rn_term(&Term::Var(n.clone()), st, ctr) {
                    Term::Var(u) => u,
                    _ => unreachable!(),
                });
                ThenAtom::Defined(v2, t2)
            }
        }
    }
    fn run<'a>(mut st: State<'a>, ctr: &mut usize, out: &mut Vec<Vec<PStmt>>) {
        loop {
            let top = match st.frames.last() {
                None => {
                    out.push(st.cur);
                    return;
                }
                Some(f) => f.clone(),
            };
            if top.idx >= top.stmts.len() {
                // leaving the block: its variables go out of scope
                let f = st.frames.pop().unwrap();
                for n in f.introduced {
                    st.env.remove(&n);
                }
                continue;
            }
            st.frames.last_mut().unwrap().idx += 1;
            match &top.stmts[top.idx] {
                Stmt::If(a) => {
                    let a2 = rn_if(a, &mut st, ctr);
                    st.cur.push(PStmt::If(a2));
                }
                Stmt::Then(a) => {
                    let a2 = rn_then(a, &mut st, ctr);
                    st.cur.push(PStmt::Then(a2));
                }
                Stmt::Branch(blocks) => {
                    let is_last = top.idx + 1 == top.stmts.len();
                    if is_last {
                        // Control leaves a statement list from its LAST STATEMENT NODE. If that is a
                        // branch, the flow out of the list continues from the branch statement
                        // itself (a no-op), not from the ends of its blocks: the blocks are
                        // explored as terminal paths.
                        for b in blocks {
                            let mut s2 = st.clone();
                            s2.frames = vec![Frame { stmts: b, idx: 0, introduced: vec![] }];
                            run(s2, ctr, out);
                        }
                        continue;
                    }
                    for b in blocks {
                        let mut s2 = st.clone();
                        s2.frames.push(Frame { stmts: b, idx: 0, introduced: vec![] });
                        run(s2, ctr, out);
                    }
                    return;
                }
                Stmt::Match(t, cases) => {
                    let is_last = top.idx + 1 == top.stmts.len();
                    // the match statement itself evaluates its discriminee (an `if` morphism)
                    let disc = rn_term(t, &mut st, ctr);
                    st.cur.push(PStmt::If(IfAtom::Defined(disc.clone())));
                    for c in cases {
                        let mut s2 = st.clone();
                        if is_last {
                            s2.frames = vec![Frame { stmts: &c.body, idx: 0, introduced: vec![] }];
                        } else {
                            s2.frames.push(Frame { stmts: &c.body, idx: 0, introduced: vec![] });
                        }
                        let pat = Term::App(c.ctor, c.args.iter().map(|x| rn_term(x, &mut s2, ctr)).collect());
                        s2.cur.push(PStmt::If(IfAtom::Eq(disc.clone(), pat)));
                        run(s2, ctr, out);
                    }
                    if is_last {
                        continue;
                    }
                    return;
                }
            }
        }
    }
    let mut out = Vec::new();
    let mut ctr = 0usize;
    let st = State { frames: vec![Frame { stmts: body, idx: 0, introduced: vec![] }], env: BTreeMap::new(), cur: vec![] };
    run(st, &mut ctr, &mut out);
    out
}

struct Flattener<'a> {
    p: &'a Program,
    names: BTreeMap<String, usize>,
    uf: Vec<usize>,
    types: Vec<Option<TypeId>>,
    atoms: Vec<FAtom>,
}

impl<'a> Flattener<'a> {
    fn fresh(&mut self) -> usize {
        self.uf.push(self.uf.len());
        self.types.push(None);
        self.uf.len() - 1
    }
    fn find(&self, mut x: usize) -> usize {
        while self.uf[x] != x {
            x = self.uf[x];
        }
        x
    }
    fn set_type(&mut self, v: usize, ty: TypeId) -> Result<(), String> {
        let r = self.find(v);
        match self.types[r] {
            Some(t) if t != ty => Err(format!("conflicting types {} / {}", self.p.types[t].name, self.p.types[ty].name)),
            _ => {
                self.types[r] = Some(ty);
                Ok(())
            }
        }
    }
    fn union(&mut self, a: usize, b: usize) -> Result<(), String> {
        let (a, b) = (self.find(a), self.find(b));
        if a == b {
            return Ok(());
        }
        let (ta, tb) = (self.types[a], self.types[b]);
        if let (Some(x), Some(y)) = (ta, tb) {
            if x != y {
                return Err("conflicting types in equality".into());
            }
        }
        self.uf[b] = a;
        if self.types[a].is_none() {
            self.types[a] = tb;
        }
        Ok(())
    }
    fn var(&mut self, name: &str) -> usize {
        if let Some(&v) = self.names.get(name) {
            return v;
        }
        let v = self.fresh();
        self.names.insert(name.to_string(), v);
        v
    }
    fn term(&mut self, t: &Term) -> Result<usize, String> {
        match t {
            Term::Var(n) => Ok(self.var(n)),
            Term::Wild => Ok(self.fresh()),
            Term::App(f, args) => {
                let d = &self.p.rels[*f];
                if !d.is_func() || d.cols.len() != args.len() + 1 {
                    return Err("bad application".into());
                }
                let mut vs = Vec::new();
                for (a, &ty) in args.iter().zip(d.cols.iter()) {
                    let v = self.term(a)?;
                    self.set_type(v, ty)?;
                    vs.push(v);
                }
                let r = self.fresh();
                self.set_type(r, *d.cols.last().unwrap())?;
                vs.push(r);
                self.atoms.push(FAtom::Rel(*f, vs));
                Ok(r)
            }
        }
    }
    fn if_atom(&mut self, a: &IfAtom) -> Result<(), String> {
        match a {
            IfAtom::Pred(r, args) => {
                let d = &self.p.rels[*r];
                if d.is_func() || d.cols.len() != args.len() {
                    return Err("bad predicate atom".into());
                }
                let mut vs = Vec::new();
                for (a, &ty) in args.iter().zip(d.cols.iter()) {
                    let v = self.term(a)?;
                    self.set_type(v, ty)?;
                    vs.push(v);
                }
                self.atoms.push(FAtom::Rel(*r, vs));
            }
            IfAtom::Eq(l, r) => {
                let a = self.term(l)?;
                let b = self.term(r)?;
                self.union(a, b)?;
            }
            IfAtom::Defined(t) => {
                self.term(t)?;
            }
            IfAtom::Typed(t, ty) => {
                let v = self.term(t)?;
                self.set_type(v, *ty)?;
                self.atoms.push(FAtom::Type(*ty, v));
            }
        }
        Ok(())
    }
    /// A then-atom that has already been applied, seen as a premise of later stages.
    fn then_as_premise(&mut self, a: &ThenAtom) -> Result<(), String> {
        match a {
            ThenAtom::Pred(r, args) => self.if_atom(&IfAtom::Pred(*r, args.clone())),
            ThenAtom::Eq(l, r) => self.if_atom(&IfAtom::Eq(l.clone(), r.clone())),
            ThenAtom::Defined(v, t) => {
                let tv = self.term(t)?;
                if let Some(v) = v {
                    let vv = self.var(v);
                    self.union(vv, tv)?;
                }
                Ok(())
            }
        }
    }
    fn cterm(&mut self, t: &Term) -> Result<CTerm, String> {
        match t {
            Term::Var(n) => match self.names.get(n) {
                Some(&v) => Ok(CTerm::Var(v)),
                None => Err(format!("variable {} introduced in then statement", n)),
            },
            Term::Wild => Err("wildcard in then statement".into()),
            Term::App(f, args) => {
                let mut cs = Vec::new();
                for a in args {
                    cs.push(self.cterm(a)?);
                }
                Ok(CTerm::App(*f, cs))
            }
        }
    }
}

fn subst(c: &CTerm, f: &dyn Fn(usize) -> usize) -> CTerm {
    match c {
        CTerm::Var(v) => CTerm::Var(f(*v)),
        CTerm::App(r, a) => CTerm::App(*r, a.iter().map(|x| subst(x, f)).collect()),
    }
}

fn cterm_vars(c: &CTerm, out: &mut Vec<usize>) {
    match c {
        CTerm::Var(v) => out.push(*v),
        CTerm::App(_, a) => a.iter().for_each(|x| cterm_vars(x, out)),
    }
}

/// Types that the conclusion imposes on variables (backwards flow).
fn concl_types(p: &Program, c: &CTerm, expect: Option<TypeId>, out: &mut Vec<(usize, TypeId)>) {
    match c {
        CTerm::Var(v) => {
            if let Some(t) = expect {
                out.push((*v, t));
            }
        }
        CTerm::App(f, args) => {
            for (a, &ty) in args.iter().zip(p.rels[*f].cols.iter()) {
                concl_types(p, a, Some(ty), out);
            }
        }
    }
}

fn cterm_type(p: &Program, c: &CTerm, var_ty: &dyn Fn(usize) -> Option<TypeId>) -> Option<TypeId> {
    match c {
        CTerm::Var(v) => var_ty(*v),
        CTerm::App(f, _) => p.rels[*f].result_type(),
    }
}

/// Elaborates one rule into flat rules. Errors are static errors of the rule (which the
/// generator never produces; they are reported as harness anomalies by callers).
pub fn flatten_rule(p: &Program, ri: usize) -> Result<Vec<FlatRule>, String> {
    let rule = &p.rules[ri];
    let mut out = Vec::new();
    let mut seen_paths: Vec<String> = Vec::new();
    for (pi, path) in paths(&rule.body).iter().enumerate() {
        // Stages of prefix-paths are repeated by their extensions; de-duplicate by text.
        for k in 0..path.len() {
            let then = match &path[k] {
                PStmt::Then(t) => t,
                _ => continue,
            };
            let text: String = {
                // variables renamed by order of first appearance, so that equal stages reached
                // through different block choices before them get equal texts
                let mut order: Vec<String> = Vec::new();
                fn collect(t: &Term, order: &mut Vec<String>) {
                    match t {
                        Term::Var(n) => {
                            if !order.contains(n) {
                                order.push(n.clone());
                            }
                        }
                        Term::Wild => {}
                        Term::App(_, a) => a.iter().for_each(|x| collect(x, order)),
                    }
                }
                fn rn(t: &Term, order: &[String]) -> Term {
                    match t {
                        Term::Var(n) => {
                            let i = order.iter().position(|x| x == n).unwrap();
                            let base = n.split('#').next().unwrap();
                            Term::Var(format!("{}~{}", base, i))
                        }
                        Term::Wild => Term::Wild,
                        Term::App(f, a) => Term::App(*f, a.iter().map(|x| rn(x, order)).collect()),
                    }
                }
                let mut parts = Vec::new();
                for s in &path[..=k] {
                    match s {
                        PStmt::If(a) => {
                            let a2 = match a {
                                IfAtom::Pred(r, args) => {
                                    args.iter().for_each(|x| collect(x, &mut order));
                                    IfAtom::Pred(*r, args.iter().map(|x| rn(x, &order)).collect())
                                }
                                IfAtom::Eq(l, r) => {
                                    collect(l, &mut order);
                                    collect(r, &mut order);
                                    IfAtom::Eq(rn(l, &order), rn(r, &order))
                                }
                                IfAtom::Defined(t) => {
                                    collect(t, &mut order);
                                    IfAtom::Defined(rn(t, &order))
                                }
                                IfAtom::Typed(t, ty) => {
                                    collect(t, &mut order);
                                    IfAtom::Typed(rn(t, &order), *ty)
                                }
                            };
                            parts.push(format!("if {};", crate::print::if_atom(p, &a2)));
                        }
                        PStmt::Then(a) => {
                            let a2 = match a {
                                ThenAtom::Pred(r, args) => {
                                    args.iter().for_each(|x| collect(x, &mut order));
                                    ThenAtom::Pred(*r, args.iter().map(|x| rn(x, &order)).collect())
                                }
                                ThenAtom::Eq(l, r) => {
                                    collect(l, &mut order);
                                    collect(r, &mut order);
                                    ThenAtom::Eq(rn(l, &order), rn(r, &order))
                                }
                                ThenAtom::Defined(v, t) => {
                                    collect(t, &mut order);
                                    if let Some(v) = v {
                                        collect(&Term::Var(v.clone()), &mut order);
                                    }
                                    let v2 = v.as_ref().map(|v| match rn(&Term::Var(v.clone()), &order) {
                                        Term::Var(u) => u,
                                        _ => unreachable!(),
                                    });
                                    ThenAtom::Defined(v2, rn(t, &order))
                                }
                            };
                            parts.push(format!("then {};", crate::print::then_atom(p, &a2)));
                        }
                    }
                }
                parts.join(" ")
            };
            if seen_paths.contains(&text) {
                continue;
            }
            seen_paths.push(text.clone());
            let mut fl = Flattener { p, names: BTreeMap::new(), uf: vec![], types: vec![], atoms: vec![] };
            let mut n_source = 0;
            for s in &path[..k] {
                match s {
                    PStmt::If(a) => fl.if_atom(a)?,
                    PStmt::Then(a) => fl.then_as_premise(a)?,
                }
                n_source += 1;
            }
            // conclusion
            let concl = match then {
                ThenAtom::Pred(r, args) => {
                    let mut cs = Vec::new();
                    for a in args {
                        cs.push(fl.cterm(a)?);
                    }
                    FConcl::Rel(*r, cs)
                }
                ThenAtom::Eq(l, r) => FConcl::Eq(fl.cterm(l)?, fl.cterm(r)?),
                ThenAtom::Defined(_, t) => match fl.cterm(t)? {
                    CTerm::App(f, args) => FConcl::Define(f, args),
                    CTerm::Var(_) => return Err("then-defined term is a variable".into()),
                },
            };
            // Types: forward from the premise (already set), backwards from the whole path
            // (later statements may type a variable that the premise leaves open).
            {
                let mut full = Flattener { p, names: BTreeMap::new(), uf: vec![], types: vec![], atoms: vec![] };
                for s in path.iter() {
                    match s {
                        PStmt::If(a) => full.if_atom(a)?,
                        PStmt::Then(a) => full.then_as_premise(a)?,
                    }
                }
                let names: Vec<(String, usize)> = fl.names.iter().map(|(n, v)| (n.clone(), *v)).collect();
                for (n, v) in names {
                    if let Some(&fv) = full.names.get(&n) {
                        if let Some(t) = full.types[full.find(fv)] {
                            fl.set_type(v, t)?;
                        }
                    }
                }
            }
            let mut back = Vec::new();
            match &concl {
                FConcl::Rel(r, cs) => {
                    for (c, &ty) in cs.iter().zip(p.rels[*r].cols.iter()) {
                        concl_types(p, c, Some(ty), &mut back);
                    }
                }
                FConcl::Eq(a, b) => {
                    concl_types(p, a, None, &mut back);
                    concl_types(p, b, None, &mut back);
                }
                FConcl::Define(f, cs) => {
                    for (c, &ty) in cs.iter().zip(p.rels[*f].cols.iter()) {
                        concl_types(p, c, Some(ty), &mut back);
                    }
                }
            }
            for (v, t) in back {
                fl.set_type(v, t)?;
            }
            if let FConcl::Eq(a, b) = &concl {
                // both sides have one type
                let ta = cterm_type(p, a, &|v| fl.types[fl.find(v)]);
                let tb = cterm_type(p, b, &|v| fl.types[fl.find(v)]);
                match (ta, tb, a, b) {
                    (Some(t), None, _, CTerm::Var(v)) | (None, Some(t), CTerm::Var(v), _) => fl.set_type(*v, t)?,
                    (Some(x), Some(y), _, _) if x != y => return Err("conflicting types in then equality".into()),
                    _ => {}
                }
            }
            // resolve representatives and renumber
            let mut remap: BTreeMap<usize, usize> = BTreeMap::new();
            let mut rep = |fl: &Flattener, v: usize, remap: &mut BTreeMap<usize, usize>| -> usize {
                let r = fl.find(v);
                let n = remap.len();
                *remap.entry(r).or_insert(n)
            };
            let mut premise = Vec::new();
            for a in fl.atoms.clone() {
                let a2 = match a {
                    FAtom::Rel(r, vs) => FAtom::Rel(r, vs.iter().map(|&v| rep(&fl, v, &mut remap)).collect()),
                    FAtom::Type(t, v) => FAtom::Type(t, rep(&fl, v, &mut remap)),
                };
                if !premise.contains(&a2) {
                    premise.push(a2);
                }
            }
            // every named variable of the premise takes part (also those only equated)
            let names: Vec<usize> = fl.names.values().copied().collect();
            for v in names {
                rep(&fl, v, &mut remap);
            }
            let concl = {
                let f = |v: usize| -> usize { remap[&fl.find(v)] };
                match &concl {
                    FConcl::Rel(r, cs) => FConcl::Rel(*r, cs.iter().map(|c| subst(c, &f)).collect()),
                    FConcl::Eq(a, b) => FConcl::Eq(subst(a, &f), subst(b, &f)),
                    FConcl::Define(r, cs) => FConcl::Define(*r, cs.iter().map(|c| subst(c, &f)).collect()),
                }
            };
            // variables that no tuple binds range over their type
            let nvars = remap.len();
            let mut bound = vec![false; nvars];
            for a in &premise {
                match a {
                    FAtom::Rel(_, vs) => vs.iter().for_each(|&v| bound[v] = true),
                    FAtom::Type(_, v) => bound[*v] = true,
                }
            }
            for (&r, &n) in remap.iter() {
                if !bound[n] {
                    match fl.types[r] {
                        Some(t) => premise.push(FAtom::Type(t, n)),
                        None => return Err("type of variable undetermined".into()),
                    }
                }
            }
            // Rel atoms first, type atoms last
            premise.sort_by_key(|a| matches!(a, FAtom::Type(..)));
            let mut cv = Vec::new();
            match &concl {
                FConcl::Rel(_, cs) | FConcl::Define(_, cs) => cs.iter().for_each(|c| cterm_vars(c, &mut cv)),
                FConcl::Eq(a, b) => {
                    cterm_vars(a, &mut cv);
                    cterm_vars(b, &mut cv);
                }
            }
            debug_assert!(cv.iter().all(|&v| v < nvars));
            out.push(FlatRule { rule: ri, path: pi, stage: k, nvars, premise, concl, n_source_atoms: n_source, text });
        }
    }
    Ok(out)
}

pub fn flatten_program(p: &Program) -> Result<Vec<FlatRule>, String> {
    let mut out = Vec::new();
    for ri in 0..p.rules.len() {
        out.extend(flatten_rule(p, ri).map_err(|e| format!("rule {}: {}", ri, e))?);
    }
    Ok(out)
}

/// Inheritance of member predicates along morphisms, spelled out as ordinary rules (C17):
/// `p(a, x..) & dom(h) = a & cod(h) = b  =>  p(b, x..)`.
pub fn inheritance_rules(p: &Program) -> Vec<FlatRule> {
    let mut out = Vec::new();
    for r in 0..p.rels.len() {
        let m = match p.rels[r].kind {
            RelKind::Member(m) => m,
            _ => continue,
        };
        let dom = (0..p.rels.len()).find(|&x| p.rels[x].kind == RelKind::Dom(m));
        let cod = (0..p.rels.len()).find(|&x| p.rels[x].kind == RelKind::Cod(m));
        let (dom, cod) = match (dom, cod) {
            (Some(d), Some(c)) => (d, c),
            _ => continue,
        };
        let n = p.rels[r].cols.len();
        // flat variables: 0 = a, 1..n = x.., n = h, n+1 = b
        let mut tuple: Vec<usize> = (0..n).collect();
        let premise = vec![FAtom::Rel(r, tuple.clone()), FAtom::Rel(dom, vec![n, 0]), FAtom::Rel(cod, vec![n, n + 1])];
        tuple[0] = n + 1;
        let concl = FConcl::Rel(r, tuple.iter().map(|&v| CTerm::Var(v)).collect());
        out.push(FlatRule { rule: usize::MAX, path: 0, stage: 0, nvars: n + 2, premise, concl, n_source_atoms: 3, text: format!("inheritance of {} along morphisms", p.rels[r].name) });
    }
    out
}
