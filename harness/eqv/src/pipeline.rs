//! Compile pipeline: program -> .eql -> repository CLI -> generated module -> adapter + driver ->
//! rustc -> driver executable. Everything is rebuilt from /repo's working tree.

use crate::ast::*;
use crate::util::{self, Output, Scratch};
use std::path::{Path, PathBuf};
use std::process::Command;
use std::sync::OnceLock;
use std::time::Duration;

pub const THEORY: &str = "thy";
pub const MEM_LIMIT: u64 = 4 << 30;

pub fn cli_path() -> PathBuf {
    if let Ok(p) = std::env::var("EQV_CLI") {
        return PathBuf::from(p);
    }
    util::cache_dir().join("target/debug/eqlog-cli")
}

pub fn rustc() -> String {
    std::env::var("EQV_RUSTC").unwrap_or_else(|_| "rustc".to_string())
}

const DRIVER_COMMON: &str = include_str!("../assets/driver_common.rs");

/// Builds (once per process, cached on disk by source hash) an rlib of /repo/eqlog-runtime's
/// current working tree with the `verif` feature enabled.
pub fn runtime_rlib() -> &'static PathBuf {
    static RLIB: OnceLock<PathBuf> = OnceLock::new();
    RLIB.get_or_init(|| {
        let src = Path::new(util::REPO).join("eqlog-runtime/src");
        let mut parts: Vec<Vec<u8>> = Vec::new();
        for f in util::walk(&src) {
            parts.push(f.to_string_lossy().as_bytes().to_vec());
            parts.push(std::fs::read(src.join(&f)).unwrap());
        }
        let ver = Command::new(rustc()).arg("-V").output().expect("rustc -V");
        parts.push(ver.stdout);
        let refs: Vec<&[u8]> = parts.iter().map(|p| p.as_slice()).collect();
        let key = util::sha_hex(&refs);
        let dir = util::cache_dir().join("rt").join(&key[..16]);
        let rlib = dir.join("libeqlog_runtime.rlib");
        if rlib.exists() {
            return rlib;
        }
        // drop older runtime builds
        let _ = std::fs::remove_dir_all(util::cache_dir().join("rt"));
        std::fs::create_dir_all(&dir).unwrap();
        let tmp = dir.join(format!("libeqlog_runtime.{}.tmp", std::process::id()));
        let out = Command::new(rustc())
            .arg(src.join("lib.rs"))
            .args(["--crate-type=rlib", "--crate-name=eqlog_runtime", "--edition=2021"])
            .args(["-C", "opt-level=1", "-C", "debug-assertions=on", "-C", "overflow-checks=on"])
            .args(["--cfg", "feature=\"verif\"", "--cap-lints=allow"])
            .arg("-o")
            .arg(&tmp)
            .env("OUT_DIR", &dir)
            .output()
            .expect("running rustc for the runtime");
        if !out.status.success() {
            eprintln!("{}", String::from_utf8_lossy(&out.stderr));
            panic!("INFRA: building the runtime rlib failed");
        }
        std::fs::rename(&tmp, &rlib).unwrap();
        rlib
    })
}

#[derive(Clone, Copy, Debug, PartialEq, Eq)]
pub enum Mode {
    Module,
    Component,
}

#[derive(Debug, Clone)]
pub struct CliRun {
    pub out: Output,
}

impl CliRun {
    pub fn accepted(&self) -> bool {
        self.out.code == Some(0)
    }
    pub fn rejected(&self) -> bool {
        self.out.code == Some(1)
    }
    /// Neither a clean success nor a clean error (panic exit code 101, signal, ...).
    pub fn crashed(&self) -> bool {
        !self.out.timed_out && !self.accepted() && !self.rejected()
    }
}

pub struct CliOpts<'a> {
    pub src: &'a Path,
    pub out: &'a Path,
    pub component_out: Option<&'a Path>,
    pub rustc_path: Option<&'a Path>,
    pub threads: Option<usize>,
    pub envs: Vec<(String, String)>,
    pub cwd: Option<&'a Path>,
}

pub fn run_cli(o: &CliOpts) -> CliRun {
    let mut cmd = Command::new(cli_path());
    cmd.arg(o.src).arg(o.out);
    if let Some(c) = o.component_out {
        cmd.arg("--build-type").arg("component");
        cmd.arg("--component-out-dir").arg(c);
        cmd.arg("--runtime-rlib-path").arg(runtime_rlib());
        cmd.arg("--rustc-path").arg(o.rustc_path.map(|p| p.to_path_buf()).unwrap_or_else(|| PathBuf::from(rustc())));
        cmd.arg("--opt-level").arg("0");
    }
    if let Some(t) = o.threads {
        cmd.env("RAYON_NUM_THREADS", t.to_string());
    }
    for (k, v) in &o.envs {
        cmd.env(k, v);
    }
    if let Some(c) = o.cwd {
        cmd.current_dir(c);
    }
    // a component build runs rustc as a child, which inherits the limit: no limit there
    let mem = if o.component_out.is_some() && o.rustc_path.is_none() { 0 } else { MEM_LIMIT };
    let timeout = if o.component_out.is_some() { 900 } else { 120 };
    let out = util::run(&mut cmd, None, Duration::from_secs(timeout), mem).expect("spawning eqlog-cli");
    CliRun { out }
}

/// Index and bookkeeping fields of the generated model struct, parsed from the module text.
#[derive(Debug, Clone, Default)]
pub struct ModelFields {
    pub model_name: String,
    /// (field name, arity)
    pub indices: Vec<(String, usize)>,
    /// (field name, arity)
    pub element_indices: Vec<(String, usize)>,
    pub other: Vec<String>,
}

pub fn parse_model_fields(module: &str) -> Option<ModelFields> {
    let start = module.find("/// A model of the `")?;
    let rest = &module[start..];
    let s = rest.find("pub struct ")?;
    let rest = &rest[s + "pub struct ".len()..];
    let name_end = rest.find(' ')?;
    let mut mf = ModelFields { model_name: rest[..name_end].to_string(), ..Default::default() };
    let body_start = rest.find('{')? + 1;
    let body_end = rest.find("\n}")?;
    for line in rest[body_start..body_end].lines() {
        let line = line.trim().trim_end_matches(',');
        if line.is_empty() {
            continue;
        }
        let (name, ty) = match line.split_once(": ") {
            Some(x) => x,
            None => continue,
        };
        if let Some(n) = ty.strip_prefix("PrefixTree") {
            if let Ok(n) = n.parse::<usize>() {
                mf.indices.push((name.to_string(), n));
                continue;
            }
        }
        if let Some(r) = ty.strip_prefix("BTreeMap<u32, Vec<[u32; ") {
            if let Some(n) = r.strip_suffix("]>>") {
                if let Ok(n) = n.parse::<usize>() {
                    mf.element_indices.push((name.to_string(), n));
                    continue;
                }
            }
        }
        mf.other.push(name.to_string());
    }
    Some(mf)
}

fn ty_name(p: &Program, t: TypeId) -> &str {
    &p.types[t].name
}

fn camel(s: &str) -> String {
    // UpperCamel of a snake or camel identifier: capitalise after '_' and at the start
    let mut out = String::new();
    let mut up = true;
    for c in s.chars() {
        if c == '_' {
            up = true;
        } else if up {
            out.push(c.to_ascii_uppercase());
            up = false;
        } else {
            out.push(c);
        }
    }
    out
}

/// Emits the per-program adapter: `impl EqvFacade for <Model>`.
/// The rule invocations of one iteration of the emitted `close_until` loop: (rule function name,
/// code snippet `let env = XEnv { .. }; x(env);`), plus the statements that precede the loop's first
/// condition evaluation (canonicalize / recompute_model_indices).
pub fn parse_rule_calls(module: &str) -> Option<(String, Vec<(String, String)>)> {
    let start = module.find("pub fn close_until(")?;
    let rest = &module[start..];
    let body_start = rest.find('{')? + 1;
    let cond = rest.find("if condition(self)")?;
    let prelude = rest[body_start..cond].trim().to_string();
    let lp = rest.find("\nloop {")? + "\nloop {".len();
    let end = rest[lp..].find("self.move_new_to_old();")? + lp;
    let calls_text = &rest[lp..end];
    let mut calls = Vec::new();
    let parts: Vec<&str> = calls_text.split("let env = ").collect();
    for part in parts.iter().skip(1) {
        let snippet = format!("let env = {}", part.trim_end());
        // the call is the last statement: `<name>(env);`
        let call_line = snippet.lines().rev().find(|l| l.trim().ends_with("(env);"))?;
        let name = call_line.trim().trim_end_matches("(env);").to_string();
        calls.push((name, snippet));
    }
    Some((prelude, calls))
}

/// Fields of the emitted `ModelDelta` struct: (name, arity).
pub fn parse_delta_fields(module: &str) -> Vec<(String, usize)> {
    let mut out = Vec::new();
    if let Some(start) = module.find("struct ModelDelta {") {
        for line in module[start..].lines().skip(1) {
            let line = line.trim().trim_end_matches(',');
            if line.starts_with('}') {
                break;
            }
            if let Some((name, ty)) = line.split_once(": ") {
                if let Some(n) = ty.strip_prefix("Vec<[u32; ").and_then(|r| r.strip_suffix("]>")) {
                    if let Ok(n) = n.parse::<usize>() {
                        out.push((name.to_string(), n));
                    }
                }
            }
        }
    }
    out
}

pub fn emit_adapter(p: &Program, mf: &ModelFields, module: &str) -> String {
    use std::fmt::Write;
    let m = &mf.model_name;
    let mut s = String::new();
    let nt = p.types.len();
    let nr = p.rels.len();
    let _ = writeln!(s, "// ---- eqv adapter (generated per program) ----");
    let _ = writeln!(s, "const EQV_REL_COLS: [&[usize]; {}] = [", nr);
    for r in &p.rels {
        let c: Vec<String> = r.cols.iter().map(|c| c.to_string()).collect();
        let _ = writeln!(s, "    &[{}],", c.join(", "));
    }
    let _ = writeln!(s, "];");
    let isf: Vec<&str> = p.rels.iter().map(|r| if r.is_func() { "true" } else { "false" }).collect();
    let _ = writeln!(s, "const EQV_REL_IS_FUNC: [bool; {}] = [{}];", nr, isf.join(", "));
    let ise: Vec<&str> = (0..nt).map(|t| if p.is_enum(t) { "true" } else { "false" }).collect();
    let _ = writeln!(s, "const EQV_TYPE_IS_ENUM: [bool; {}] = [{}];", nt, ise.join(", "));
    let _ = writeln!(s, "#[allow(unused_variables, unreachable_code, unused_mut, unreachable_patterns)]");
    let _ = writeln!(s, "impl EqvFacade for {} {{", m);
    let _ = writeln!(s, "fn eqv_fresh() -> Self {{ {}::new() }}", m);
    let _ = writeln!(s, "fn eqv_ntypes() -> usize {{ {} }}", nt);
    let _ = writeln!(s, "fn eqv_nrels() -> usize {{ {} }}", nr);
    let _ = writeln!(s, "fn eqv_rel_cols(rel: usize) -> &'static [usize] {{ EQV_REL_COLS[rel] }}");
    let _ = writeln!(s, "fn eqv_rel_is_func(rel: usize) -> bool {{ EQV_REL_IS_FUNC[rel] }}");
    let _ = writeln!(s, "fn eqv_type_is_enum(ty: usize) -> bool {{ EQV_TYPE_IS_ENUM[ty] }}");
    // new
    let _ = writeln!(s, "fn eqv_new(&mut self, ty: usize) -> Option<u32> {{ match ty {{");
    for t in 0..nt {
        if p.is_enum(t) {
            let _ = writeln!(s, "{} => None,", t);
        } else {
            let _ = writeln!(s, "{} => Some(self.new_{}().0),", t, snake(ty_name(p, t)));
        }
    }
    let _ = writeln!(s, "_ => panic!(\"bad type\") }} }}");
    let arg_list = |r: &RelDecl, n: usize| -> String {
        (0..n)
            .map(|i| format!("{}(a[{}])", ty_name(p, r.cols[i]), i))
            .collect::<Vec<_>>()
            .join(", ")
    };
    // insert
    let _ = writeln!(s, "fn eqv_insert(&mut self, rel: usize, a: &[u32]) {{ match rel {{");
    for (i, r) in p.rels.iter().enumerate() {
        let _ = writeln!(s, "{} => self.insert_{}({}),", i, snake(&r.name), arg_list(r, r.cols.len()));
    }
    let _ = writeln!(s, "_ => panic!(\"bad rel\") }} }}");
    // define
    let _ = writeln!(s, "fn eqv_define(&mut self, rel: usize, a: &[u32]) -> u32 {{ match rel {{");
    for (i, r) in p.rels.iter().enumerate() {
        if r.is_func() && p.definable(i) {
            let _ = writeln!(s, "{} => self.define_{}({}).0,", i, snake(&r.name), arg_list(r, r.cols.len() - 1));
        }
    }
    let _ = writeln!(s, "_ => panic!(\"bad rel\") }} }}");
    // equate/root/are_equal/len/iter_ty
    let _ = writeln!(s, "fn eqv_equate(&mut self, ty: usize, a: u32, b: u32) {{ match ty {{");
    for t in 0..nt {
        let n = ty_name(p, t);
        let _ = writeln!(s, "{} => self.equate_{}({}(a), {}(b)),", t, snake(n), n, n);
    }
    let _ = writeln!(s, "_ => panic!(\"bad type\") }} }}");
    let _ = writeln!(s, "fn eqv_root(&self, ty: usize, a: u32) -> u32 {{ match ty {{");
    for t in 0..nt {
        let n = ty_name(p, t);
        let _ = writeln!(s, "{} => self.root_{}({}(a)).0,", t, snake(n), n);
    }
    let _ = writeln!(s, "_ => panic!(\"bad type\") }} }}");
    let _ = writeln!(s, "fn eqv_are_equal(&self, ty: usize, a: u32, b: u32) -> bool {{ match ty {{");
    for t in 0..nt {
        let n = ty_name(p, t);
        let _ = writeln!(s, "{} => self.are_equal_{}({}(a), {}(b)),", t, snake(n), n, n);
    }
    let _ = writeln!(s, "_ => panic!(\"bad type\") }} }}");
    let _ = writeln!(s, "fn eqv_len(&self, ty: usize) -> usize {{ match ty {{");
    for t in 0..nt {
        let _ = writeln!(s, "{} => self.{}_equalities.len(),", t, snake(ty_name(p, t)));
    }
    let _ = writeln!(s, "_ => panic!(\"bad type\") }} }}");
    let _ = writeln!(s, "fn eqv_iter_ty(&self, ty: usize) -> Vec<u32> {{ match ty {{");
    for t in 0..nt {
        let _ = writeln!(s, "{} => self.iter_{}().map(|e| e.0).collect(),", t, snake(ty_name(p, t)));
    }
    let _ = writeln!(s, "_ => panic!(\"bad type\") }} }}");
    // holds / eval
    let _ = writeln!(s, "fn eqv_holds(&self, rel: usize, a: &[u32]) -> bool {{ match rel {{");
    for (i, r) in p.rels.iter().enumerate() {
        if !r.is_func() {
            let _ = writeln!(s, "{} => self.{}({}),", i, snake(&r.name), arg_list(r, r.cols.len()));
        }
    }
    let _ = writeln!(s, "_ => panic!(\"bad rel\") }} }}");
    let _ = writeln!(s, "fn eqv_eval(&self, rel: usize, a: &[u32]) -> Option<u32> {{ match rel {{");
    for (i, r) in p.rels.iter().enumerate() {
        if r.is_func() {
            let _ = writeln!(s, "{} => self.{}({}).map(|e| e.0),", i, snake(&r.name), arg_list(r, r.cols.len() - 1));
        }
    }
    let _ = writeln!(s, "_ => panic!(\"bad rel\") }} }}");
    // iter_rel
    let _ = writeln!(s, "fn eqv_iter_rel(&self, rel: usize) -> Vec<Vec<u32>> {{ match rel {{");
    for (i, r) in p.rels.iter().enumerate() {
        let n = r.cols.len();
        let pat = match n {
            0 => "()".to_string(),
            1 => "t0".to_string(),
            _ => format!("({})", (0..n).map(|k| format!("t{}", k)).collect::<Vec<_>>().join(", ")),
        };
        let vals = (0..n).map(|k| format!("t{}.0", k)).collect::<Vec<_>>().join(", ");
        if n == 0 {
            // nullary predicates have no iterator in the generated API
            let _ = writeln!(s, "{} => if self.{}() {{ vec![vec![]] }} else {{ vec![] }},", i, snake(&r.name));
            continue;
        }
        let _ = writeln!(s, "{} => self.iter_{}().map(|{}| vec![{}]).collect(),", i, snake(&r.name), pat, vals);
    }
    let _ = writeln!(s, "_ => panic!(\"bad rel\") }} }}");
    // cases
    let emit_case_match = |s: &mut String, t: TypeId| {
        let en = ty_name(p, t);
        for &c in p.ctors(t) {
            let r = &p.rels[c];
            let n = r.cols.len() - 1;
            let pat = (0..n).map(|k| format!("c{}", k)).collect::<Vec<_>>().join(", ");
            let vals = (0..n).map(|k| format!("c{}.0", k)).collect::<Vec<_>>().join(", ");
            let _ = writeln!(s, "{}Case::{}({}) => ({}, vec![{}]),", en, camel(&r.name), pat, c, vals);
        }
    };
    let _ = writeln!(s, "fn eqv_cases(&self, ty: usize, el: u32) -> Vec<(usize, Vec<u32>)> {{ match ty {{");
    for t in 0..nt {
        if p.is_enum(t) {
            let en = ty_name(p, t);
            let _ = writeln!(s, "{} => self.{}_cases({}(el)).map(|c| match c {{", t, snake(en), en);
            emit_case_match(&mut s, t);
            let _ = writeln!(s, "}}).collect(),");
        }
    }
    let _ = writeln!(s, "_ => panic!(\"not an enum type\") }} }}");
    let _ = writeln!(s, "fn eqv_case(&self, ty: usize, el: u32) -> (usize, Vec<u32>) {{ match ty {{");
    for t in 0..nt {
        if p.is_enum(t) {
            let en = ty_name(p, t);
            let _ = writeln!(s, "{} => match self.{}_case({}(el)) {{", t, snake(en), en);
            emit_case_match(&mut s, t);
            let _ = writeln!(s, "}},");
        }
    }
    let _ = writeln!(s, "_ => panic!(\"not an enum type\") }} }}");
    let _ = writeln!(s, "fn eqv_close(&mut self) {{ self.close() }}");
    let _ = writeln!(s, "fn eqv_close_until(&mut self, f: &dyn Fn(&Self) -> bool) -> bool {{ self.close_until(|m: &Self| f(m)) }}");
    // private dump
    let _ = writeln!(s, "fn eqv_dump_private(&self, out: &mut String) {{ use std::fmt::Write;");
    for (f, n) in &mf.indices {
        let _ = writeln!(s, "let _ = write!(out, \"I {} {} :\");", f, n);
        let _ = writeln!(
            s,
            "for t in self.{}.iter() {{ let _ = write!(out, \" {{}}\", if t.is_empty() {{ \"()\".to_string() }} else {{ eqv_fmt_tuple(&t) }}); }}",
            f
        );
        let _ = writeln!(s, "let _ = write!(out, \" : {{}}\\n\", if self.{}.is_empty() {{ 1 }} else {{ 0 }});", f);
    }
    for (f, n) in &mf.element_indices {
        let _ = writeln!(s, "let _ = write!(out, \"X {} {} :\");", f, n);
        let _ = writeln!(
            s,
            "for (k, rows) in self.{}.iter() {{ for t in rows.iter() {{ let _ = write!(out, \" {{}}={{}}\", k, eqv_fmt_tuple(t)); }} }}",
            f
        );
        let _ = writeln!(s, "out.push('\\n');");
    }
    for t in 0..nt {
        let sn = snake(ty_name(p, t));
        let _ = writeln!(s, "let _ = write!(out, \"U {} :\");", t);
        let _ = writeln!(s, "for e in self.{}_uprooted.iter() {{ let _ = write!(out, \" {{}}\", e.0); }}", sn);
        let _ = writeln!(s, "out.push('\\n');");
    }
    let _ = writeln!(s, "let _ = write!(out, \"F {{}}\\n\", if self.empty_join_is_dirty {{ 1 }} else {{ 0 }});");
    let _ = writeln!(s, "}}");
    // C16 (dynamic): the rule invocations of ONE loop iteration of close_until, copied from the emitted
    // text, each run into a fresh ModelDelta whose vectors (one entry per enumerated match) are printed.
    let _ = writeln!(s, "fn eqv_rules_once(&mut self, out: &mut String) {{ use std::fmt::Write;");
    match parse_rule_calls(module) {
        Some((prelude, calls)) => {
            let _ = writeln!(s, "{}", prelude);
            let _ = writeln!(s, "out.push_str(\"dump\\n\"); eqv_dump_public(self, out); self.eqv_dump_private(out); out.push_str(\"end\\n\");");
            let fields = parse_delta_fields(module);
            for (name, snippet) in calls {
                let _ = writeln!(s, "{{ let mut delta = ModelDelta::new();");
                let _ = writeln!(s, "{{ {} }}", snippet);
                let _ = writeln!(s, "let _ = writeln!(out, \"rule {}\");", name);
                for (f, _) in &fields {
                    let _ = writeln!(s, "if !delta.{}.is_empty() {{ let _ = write!(out, \"D {} :\"); for t in delta.{}.iter() {{ let _ = write!(out, \" {{}}\", if t.is_empty() {{ \"()\".to_string() }} else {{ eqv_fmt_tuple(t) }}); }} out.push('\\n'); }}", f, f, f);
                }
                let _ = writeln!(s, "}}");
            }
            let _ = writeln!(s, "out.push_str(\"endrules\\n\");");
        }
        None => {
            let _ = writeln!(s, "out.push_str(\"norules\\n\");");
        }
    }
    let _ = writeln!(s, "}}");
    let _ = writeln!(s, "}}");
    s
}

pub struct Built {
    pub scratch: std::sync::Arc<Scratch>,
    /// per-program directory below the scratch dir: src/, out/, comp/
    pub dir: PathBuf,
    /// the driver executable for this program (a symlink `driver-<i>` to the shared batch binary,
    /// which selects the theory by its own file name)
    pub exe: PathBuf,
    pub theory: String,
    pub module_text: String,
    pub fields: ModelFields,
}

impl Built {
    pub fn comp_dir(&self) -> PathBuf {
        self.dir.join("comp").join(format!("{}.eql", self.theory))
    }
}

#[derive(Debug)]
pub enum BuildError {
    /// eqlog rejected the program with a regular error (exit 1)
    Rejected(CliRun),
    /// eqlog crashed (panic / signal)
    CompilerCrash(CliRun),
    /// rustc rejected the generated code (or linking failed)
    RustcFailed { stage: String, stderr: String },
    /// watchdog / environment problem: inconclusive
    Infra(String),
}

struct Staged {
    theory: String,
    dir: PathBuf,
    module_path: PathBuf,
    module_text: String,
    fields: ModelFields,
}

fn stage_one(scratch: &Scratch, i: usize, theory: &str, p: &Program, source: &str, mode: Mode) -> Result<Staged, BuildError> {
    let dir = scratch.join(&format!("p{}", i));
    let src = dir.join("src");
    let out = dir.join("out");
    let comp = dir.join("comp");
    std::fs::create_dir_all(&src).unwrap();
    std::fs::write(src.join(format!("{}.eql", theory)), source).unwrap();
    let run = run_cli(&CliOpts {
        src: &src,
        out: &out,
        component_out: if mode == Mode::Component { Some(&comp) } else { None },
        rustc_path: None,
        threads: None,
        envs: vec![],
        cwd: None,
    });
    if run.out.timed_out {
        return Err(BuildError::Infra("eqlog-cli timed out".into()));
    }
    if run.rejected() {
        // a component build reports rustc failures of component crates as exit 1 as well
        if mode == Mode::Component && run.out.stderr_str().contains("Rustc finished with status") {
            return Err(BuildError::RustcFailed { stage: "component rlib".into(), stderr: run.out.stderr_str() });
        }
        return Err(BuildError::Rejected(run));
    }
    if !run.accepted() {
        return Err(BuildError::CompilerCrash(run));
    }
    let module_path = out.join(format!("{}.eql.rs", theory));
    let module_text = match std::fs::read_to_string(&module_path) {
        Ok(t) => t,
        Err(e) => return Err(BuildError::Infra(format!("generated module missing: {}", e))),
    };
    let fields = match parse_model_fields(&module_text) {
        Some(f) => f,
        None => return Err(BuildError::Infra("cannot parse model struct".into())),
    };
    let adapter = emit_adapter(p, &fields, &module_text);
    std::fs::write(dir.join("adapter.rs"), &adapter).unwrap();
    Ok(Staged { theory: theory.to_string(), dir, module_path, module_text, fields })
}

/// One rustc invocation for all staged programs. Ok(path of the shared binary).
fn link_batch(scratch: &Scratch, staged: &[(usize, &Staged)], mode: Mode) -> Result<PathBuf, BuildError> {
    std::fs::write(scratch.join("common.rs"), DRIVER_COMMON).unwrap();
    let mut main = String::from("#![allow(warnings)]\n");
    for (i, st) in staged {
        main.push_str(&format!(
            "mod th{} {{\ninclude!({:?});\ninclude!({:?});\ninclude!({:?});\n}}\n",
            i,
            st.module_path.to_str().unwrap(),
            scratch.join("common.rs").to_str().unwrap(),
            st.dir.join("adapter.rs").to_str().unwrap()
        ));
    }
    main.push_str("fn main() {\n    let exe = std::env::args().next().unwrap_or_default();\n    let which = exe.rsplit('-').next().unwrap_or(\"\").to_string();\n    match which.as_str() {\n");
    for (i, st) in staged {
        main.push_str(&format!("        \"{}\" => th{}::eqv_main::<th{}::{}>(),\n", i, i, i, st.fields.model_name));
    }
    main.push_str("        other => panic!(\"unknown theory selector {}\", other),\n    }\n}\n");
    let main = main.replace("\\n", "\n");
    std::fs::write(scratch.join("main.rs"), main).unwrap();
    let exe = scratch.join("driver");
    let mut cmd = Command::new(rustc());
    cmd.arg(scratch.join("main.rs"))
        .args(["--edition=2024", "--crate-name=driver", "--cap-lints=allow"])
        .args(["-C", "opt-level=0", "-C", "debuginfo=0", "-C", "debug-assertions=on", "-C", "overflow-checks=on"])
        .args(["-C", "codegen-units=4"])
        .arg("--extern")
        .arg(format!("eqlog_runtime={}", runtime_rlib().display()))
        .arg("-o")
        .arg(&exe);
    if mode == Mode::Component {
        for (_, st) in staged {
            let cdir = st.dir.join("comp").join(format!("{}.eql", st.theory));
            cmd.arg("-L").arg(format!("native={}", cdir.display()));
            let mut libs: Vec<String> = Vec::new();
            if let Ok(rd) = std::fs::read_dir(&cdir) {
                for e in rd.flatten() {
                    let n = e.file_name().to_string_lossy().into_owned();
                    if n.ends_with(".rlib") {
                        libs.push(n);
                    }
                }
            }
            libs.sort();
            for l in libs {
                cmd.arg("-l").arg(format!("static:+verbatim={}", l));
            }
        }
    }
    let o = util::run(&mut cmd, None, Duration::from_secs(600), 0).map_err(|e| BuildError::Infra(e.to_string()))?;
    if o.timed_out {
        return Err(BuildError::Infra("rustc timed out".into()));
    }
    if !o.ok() {
        return Err(BuildError::RustcFailed { stage: "driver".into(), stderr: o.stderr_str() });
    }
    Ok(exe)
}

/// Compiles a batch of programs with the repository CLI and links them into ONE driver binary
/// (one rustc start-up and link for the whole batch). If rustc rejects the batch, every program
/// is rebuilt on its own so that the failure is attributed to the right program.
pub fn build_batch(items: &[(&Program, &str)], mode: Mode) -> Vec<Result<Built, BuildError>> {
    let scratch = std::sync::Arc::new(Scratch::new("drv"));
    let single = items.len() == 1;
    let staged: Vec<Result<Staged, BuildError>> = items
        .iter()
        .enumerate()
        .map(|(i, (p, src))| {
            let theory = if single { THEORY.to_string() } else { format!("th{}", (b'a' + i as u8) as char) };
            stage_one(&scratch, i, &theory, p, src, mode)
        })
        .collect();
    let ok: Vec<(usize, &Staged)> = staged.iter().enumerate().filter_map(|(i, s)| s.as_ref().ok().map(|s| (i, s))).collect();
    let linked = if ok.is_empty() { Err(BuildError::Infra("nothing to link".into())) } else { link_batch(&scratch, &ok, mode) };
    match linked {
        Ok(exe) => staged
            .into_iter()
            .enumerate()
            .map(|(i, s)| {
                s.map(|st| {
                    let link = scratch.join(&format!("driver-{}", i));
                    let _ = std::os::unix::fs::symlink(&exe, &link);
                    Built { scratch: scratch.clone(), dir: st.dir, exe: link, theory: st.theory, module_text: st.module_text, fields: st.fields }
                })
            })
            .collect(),
        Err(e) => {
            if single {
                return staged.into_iter().map(|s| s.and_then(|_| Err(clone_err(&e)))).collect();
            }
            // attribute the failure: rebuild one by one
            items
                .iter()
                .zip(staged.into_iter())
                .map(|((p, src), s)| match s {
                    Err(e) => Err(e),
                    Ok(_) => build_driver(p, src, mode),
                })
                .collect()
        }
    }
}

fn clone_err(e: &BuildError) -> BuildError {
    match e {
        BuildError::Rejected(r) => BuildError::Rejected(r.clone()),
        BuildError::CompilerCrash(r) => BuildError::CompilerCrash(r.clone()),
        BuildError::RustcFailed { stage, stderr } => BuildError::RustcFailed { stage: stage.clone(), stderr: stderr.clone() },
        BuildError::Infra(s) => BuildError::Infra(s.clone()),
    }
}

/// Compiles `source` with the repository CLI and builds a driver executable for it.
pub fn build_driver(p: &Program, source: &str, mode: Mode) -> Result<Built, BuildError> {
    build_batch(&[(p, source)], mode).pop().unwrap()
}

pub const BATCH: usize = 8;

/// Builds drivers for many programs: batches of `BATCH` programs per rustc invocation, batches in
/// parallel.
pub fn build_all(items: &[(&Program, &str)], mode: Mode) -> Vec<Result<Built, BuildError>> {
    use rayon::prelude::*;
    // enough batches to occupy the cores, but at least 2 and at most BATCH programs per rustc
    let per = (items.len() / 16).clamp(2, BATCH);
    let chunks: Vec<&[(&Program, &str)]> = items.chunks(per).collect();
    let res: Vec<Vec<Result<Built, BuildError>>> = chunks.par_iter().map(|c| build_batch(c, mode)).collect();
    res.into_iter().flatten().collect()
}

/// Runs a command script against a driver; returns the raw transcript.
pub fn run_driver(exe: &Path, script: &str, timeout: Duration, envs: &[(String, String)]) -> std::io::Result<Output> {
    let mut cmd = Command::new(exe);
    for (k, v) in envs {
        cmd.env(k, v);
    }
    util::run(&mut cmd, Some(script.as_bytes()), timeout, MEM_LIMIT)
}
