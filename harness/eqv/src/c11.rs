//! C11: any input is answered by success or a well-formed diagnostic, never a crash.
//! Corpus (generated programs, repository theories and error tests) x token-, line-ending- and
//! byte-level mutations; oracle: exit status in {0, 1} and a diagnostic grammar whose line numbers
//! and excerpts are checked against the input text.

use crate::build_checks::ProgReplay;
use crate::campaign::{self, draw_programs};
use crate::evidence::{self, Evidence, KnownFindings};
use crate::gen::Tape;
use crate::pipeline::{self, CliOpts};
use crate::pt;
use crate::util::{self, Scratch};
use rayon::prelude::*;
use serde_json::json;
use std::collections::BTreeSet;
use std::path::Path;
use std::time::Instant;

pub fn corpus(seed: u64, n_generated: usize) -> Vec<(String, String)> {
    let mut out: Vec<(String, String)> = Vec::new();
    let profiles: Vec<String> = vec!["free".into(), "with_enums".into(), "wide".into(), "surjective".into()];
    for pc in draw_programs(seed ^ 0x11, &profiles, n_generated) {
        out.push((format!("gen{}", pc.index), pc.source));
    }
    // modules derived from the full surface grammar (models, member types, morphisms, enums, named
    // arguments), without and with deliberate semantic noise
    for (i, tape) in crate::pt::draw_tapes(seed ^ 0x6772616d, n_generated / 2, 500).into_iter().enumerate() {
        let noise = [0usize, 0, 12, 5][i % 4];
        let text = crate::gram::gen_module_opts(&tape, noise, i % 8 == 7);
        if text.len() <= 6000 {
            out.push((format!("gram{}", i), text));
        }
    }
    for dir in ["eqlog-test-compile/error-test-source", "eqlog-test-eval/src"] {
        let root = Path::new(util::REPO).join(dir);
        for f in util::walk(&root) {
            if f.extension().map(|e| e == "eql").unwrap_or(false) {
                if let Ok(t) = std::fs::read_to_string(root.join(&f)) {
                    if t.len() <= 6000 {
                        out.push((f.display().to_string(), t));
                    }
                }
            }
        }
    }
    out
}

/// Token boundaries of a source text (identifiers, numbers, punctuation, comments, whitespace).
fn tokens(s: &str) -> Vec<(usize, usize)> {
    let b = s.as_bytes();
    let mut out = Vec::new();
    let mut i = 0;
    while i < b.len() {
        let c = b[i];
        let start = i;
        if c.is_ascii_alphanumeric() || c == b'_' || c == b'\'' {
            while i < b.len() && (b[i].is_ascii_alphanumeric() || b[i] == b'_' || b[i] == b'\'') {
                i += 1;
            }
        } else if c == b'/' && i + 1 < b.len() && b[i + 1] == b'/' {
            while i < b.len() && b[i] != b'\n' {
                i += 1;
            }
        } else if c.is_ascii_whitespace() {
            while i < b.len() && b[i].is_ascii_whitespace() {
                i += 1;
            }
        } else if c < 0x80 {
            // two-character operators
            if i + 1 < b.len() && matches!(&b[i..i + 2], b"->" | b"=>" | b":=") {
                i += 2;
            } else {
                i += 1;
            }
        } else {
            // a whole multi-byte character
            i += 1;
            while i < b.len() && (b[i] & 0xC0) == 0x80 {
                i += 1;
            }
        }
        out.push((start, i));
    }
    out
}

const REPLACEMENTS: &[&str] = &[
    "{", "}", "(", ")", ";", ",", "if", "then", "rule", "type", "pred", "func", "enum", "match", "branch", "along", "=", "!", ":", "->", "=>", ":=", "_", "x", "Foo", "@", ".", "model",
    "Mor", "dom", "cod", "\"", "#", "0", "é", "'", "λx", "∀", "/", "/*", "\\", "x'", "__", "X_y",
];

pub const MUTATIONS: &[&str] = &[
    "token_delete",
    "token_duplicate",
    "token_swap",
    "token_replace",
    "truncate",
    "trailing_newline",
    "crlf_all",
    "crlf_some",
    "non_ascii",
    "comment_in_comment",
    "tabs",
    "bom",
    "degenerate",
    "long_line",
    "lone_cr",
];

fn floor_char(s: &str, mut i: usize) -> usize {
    while i > 0 && !s.is_char_boundary(i) {
        i -= 1;
    }
    i
}

pub fn mutate(src: &str, t: &mut Tape) -> (String, Vec<&'static str>) {
    let mut s = src.to_string();
    let mut kinds = Vec::new();
    let n = 1 + t.pick(3);
    for _ in 0..n {
        let k = t.weighted(&[4, 2, 3, 5, 6, 2, 3, 2, 3, 1, 1, 1, 1, 1, 1]);
        kinds.push(MUTATIONS[k]);
        let toks: Vec<(usize, usize)> = tokens(&s);
        let solid: Vec<(usize, usize)> = toks.iter().copied().filter(|&(a, _)| !s.as_bytes()[a].is_ascii_whitespace()).collect();
        match MUTATIONS[k] {
            "token_delete" if !solid.is_empty() => {
                let (a, b) = solid[t.pick(solid.len())];
                s.replace_range(a..b, "");
            }
            "token_duplicate" if !solid.is_empty() => {
                let (a, b) = solid[t.pick(solid.len())];
                let tok = s[a..b].to_string();
                s.insert_str(b, &format!(" {}", tok));
            }
            "token_swap" if solid.len() >= 2 => {
                let i = t.pick(solid.len() - 1);
                let (a1, b1) = solid[i];
                let (a2, b2) = solid[i + 1];
                let (x, y) = (s[a1..b1].to_string(), s[a2..b2].to_string());
                let mid = s[b1..a2].to_string();
                s.replace_range(a1..b2, &format!("{}{}{}", y, mid, x));
            }
            "token_replace" if !solid.is_empty() => {
                let (a, b) = solid[t.pick(solid.len())];
                s.replace_range(a..b, REPLACEMENTS[t.pick(REPLACEMENTS.len())]);
            }
            "truncate" if !s.is_empty() => {
                let at = match t.pick(4) {
                    0 => t.pick(s.len()),
                    1 => s.match_indices('{').map(|(i, _)| i + 1).nth(t.pick(8)).unwrap_or(s.len() / 2),
                    2 => s.match_indices(';').map(|(i, _)| i).nth(t.pick(12)).unwrap_or(s.len() / 2),
                    _ => s.len().saturating_sub(1 + t.pick(3)),
                };
                let at = floor_char(&s, at.min(s.len()));
                s.truncate(at);
            }
            "trailing_newline" => {
                if t.chance(1, 2) {
                    while s.ends_with('\n') || s.ends_with('\r') {
                        s.pop();
                    }
                } else {
                    s.push_str("\n\n");
                }
            }
            "crlf_all" => {
                s = s.replace("\r\n", "\n").replace('\n', "\r\n");
            }
            "crlf_some" => {
                let mut out = String::new();
                for line in s.split_inclusive('\n') {
                    if line.ends_with('\n') && !line.ends_with("\r\n") && t.chance(1, 2) {
                        out.push_str(&line[..line.len() - 1]);
                        out.push_str("\r\n");
                    } else {
                        out.push_str(line);
                    }
                }
                s = out;
            }
            "non_ascii" => {
                let chars = ["é", "λ", "→", "😀", "ß", "\u{a0}", "\u{2028}", "日本"];
                let c = chars[t.pick(chars.len())];
                let comments: Vec<usize> = s.match_indices("//").map(|(i, _)| i + 2).collect();
                match t.pick(3) {
                    0 if !comments.is_empty() => {
                        let at = comments[t.pick(comments.len())];
                        s.insert_str(at, c);
                    }
                    1 if !solid.is_empty() => {
                        // inside / next to an identifier
                        let (a, b) = solid[t.pick(solid.len())];
                        let at = floor_char(&s, a + t.pick(b - a + 1));
                        s.insert_str(at, c);
                    }
                    _ => {
                        let at = floor_char(&s, t.pick(s.len() + 1));
                        s.insert_str(at, &format!(" {} ", c));
                    }
                }
            }
            "comment_in_comment" => {
                let ends: Vec<usize> = s.match_indices('\n').map(|(i, _)| i).collect();
                if ends.is_empty() {
                    s.push_str(" // a // b");
                } else {
                    let at = ends[t.pick(ends.len())];
                    let at = if at > 0 && s.as_bytes()[at - 1] == b'\r' { at - 1 } else { at };
                    s.insert_str(at, " // x = y; // }} {{ é");
                }
            }
            "tabs" => {
                s = s.replace("    ", "\t").replace("  ", "\t");
            }
            "bom" => {
                s.insert(0, '\u{feff}');
            }
            "degenerate" => {
                s = match t.pick(5) {
                    0 => String::new(),
                    1 => "\n\n\n".into(),
                    2 => "// only a comment".into(),
                    3 => "   \t ".into(),
                    _ => "\r\n".into(),
                };
            }
            "long_line" => {
                let filler = "x".repeat(3000);
                match t.pick(2) {
                    0 => s.push_str(&format!("\n// {}\n", filler)),
                    _ => s.push_str(&format!("\npred {}(", filler)),
                }
            }
            "lone_cr" => {
                let ends: Vec<usize> = s.match_indices('\n').map(|(i, _)| i).collect();
                if !ends.is_empty() {
                    let at = ends[t.pick(ends.len())];
                    s.replace_range(at..at + 1, "\r");
                }
            }
            _ => {}
        }
    }
    if s.len() > 8000 {
        let at = floor_char(&s, 8000);
        s.truncate(at);
    }
    (s, kinds)
}

#[derive(Debug)]
pub struct Diag {
    pub first_line: String,
    pub blocks: Vec<(usize, Vec<(usize, String)>)>,
}

/// Parses the diagnostic text. Err = not well-formed.
pub fn parse_diag(stderr: &str, file_name: &str) -> Result<Diag, String> {
    let lines: Vec<&str> = stderr.split('\n').collect();
    if lines.is_empty() || !lines[0].starts_with("Error: ") {
        return Err(format!("diagnostic does not start with `Error: `: {:?}", lines.first()));
    }
    let mut blocks = Vec::new();
    let mut i = 1;
    while i < lines.len() {
        let l = lines[i];
        if let Some(pos) = l.find("--> ") {
            if l[..pos].trim().is_empty() {
                let rest = &l[pos + 4..];
                let (path, num) = rest.rsplit_once(':').ok_or_else(|| format!("no line number in `{}`", l))?;
                if !path.ends_with(file_name) {
                    return Err(format!("location names `{}`, not the input file", path));
                }
                let num: usize = num.trim().parse().map_err(|_| format!("bad line number in `{}`", l))?;
                let mut rows: Vec<(usize, String)> = Vec::new();
                i += 1;
                // opening " | "
                if i >= lines.len() || lines[i].trim_end() != format!("{} |", " ".repeat(pos)).trim_end() && lines[i].trim() != "|" {
                    return Err(format!("location line is not followed by an empty gutter row: {:?}", lines.get(i)));
                }
                i += 1;
                loop {
                    if i >= lines.len() {
                        return Err("excerpt is not terminated".into());
                    }
                    let r = lines[i];
                    if let Some(bar) = r.find(" | ").or_else(|| if r.ends_with(" |") { Some(r.len() - 2) } else { None }) {
                        let gutter = r[..bar].trim();
                        let text = if bar + 3 <= r.len() { &r[bar + 3..] } else { "" };
                        if gutter.is_empty() {
                            if text.trim_matches(|c| c == ' ' || c == '^').is_empty() {
                                if text.trim().is_empty() && rows.len() > 0 && lines.get(i + 1).map(|n| !is_row(n)).unwrap_or(true) {
                                    // closing gutter row
                                    i += 1;
                                    break;
                                }
                                i += 1;
                                continue; // underline row
                            }
                            return Err(format!("unexpected gutter row `{}`", r));
                        }
                        let n: usize = gutter.parse().map_err(|_| format!("bad gutter `{}`", r))?;
                        rows.push((n, text.to_string()));
                        i += 1;
                    } else {
                        return Err(format!("unexpected line inside an excerpt: `{}`", r));
                    }
                }
                blocks.push((num, rows));
                continue;
            }
        }
        i += 1;
    }
    if blocks.is_empty() {
        return Err("diagnostic has no location block".into());
    }
    Ok(Diag { first_line: lines[0].to_string(), blocks })
}

fn is_row(l: &str) -> bool {
    match l.find(" | ").or_else(|| if l.ends_with(" |") { Some(l.len() - 2) } else { None }) {
        Some(bar) => {
            let g = l[..bar].trim();
            g.is_empty() || g.chars().all(|c| c.is_ascii_digit())
        }
        None => false,
    }
}

/// Checks one input. Ok(Some(first diagnostic line)) when rejected properly, Ok(None) when
/// accepted, Err(message) on a violation. `Err("timeout")` is inconclusive.
pub fn check_input(text: &str) -> Result<Option<String>, String> {
    let s = Scratch::new("c11");
    let src = s.join("src");
    std::fs::create_dir_all(&src).unwrap();
    let file = "input_file.eql";
    std::fs::write(src.join(file), text).unwrap();
    let out = s.join("out");
    let r = pipeline::run_cli(&CliOpts { src: &src, out: &out, component_out: None, rustc_path: None, threads: None, envs: vec![], cwd: None });
    if r.out.timed_out {
        return Err("timeout".into());
    }
    if r.accepted() {
        return Ok(None);
    }
    if !r.rejected() {
        let stderr = r.out.stderr_str();
        let p = stderr.lines().find(|l| l.contains("panicked")).unwrap_or("").to_string();
        let next = stderr.lines().skip_while(|l| !l.contains("panicked")).nth(1).unwrap_or("").to_string();
        return Err(format!("compiler crashed (exit {:?}, signal {:?}): {} {}", r.out.code, r.out.signal, p, next));
    }
    let stderr = r.out.stderr_str();
    let d = parse_diag(&stderr, file).map_err(|e| format!("malformed diagnostic: {}\n--- stderr ---\n{}", e, stderr))?;
    // "lines" of the input: separated by \n; a trailing \r belongs to the terminator
    let in_lines: Vec<&str> = text.split_inclusive('\n').map(|l| l.strip_suffix('\n').unwrap_or(l)).collect();
    for (bi, (num, rows)) in d.blocks.iter().enumerate() {
        if *num < 1 || *num > in_lines.len().max(1) {
            return Err(format!("reported line {} is outside the file ({} lines)\n--- stderr ---\n{}", num, in_lines.len(), stderr));
        }
        for (k, (n, txt)) in rows.iter().enumerate() {
            if k > 0 && *n != rows[k - 1].0 + 1 {
                return Err(format!("excerpt rows are not consecutive ({} after {})", n, rows[k - 1].0));
            }
            if *n < 1 || *n > in_lines.len() {
                return Err(format!("excerpt row {} is outside the file ({} lines)", n, in_lines.len()));
            }
            let want = in_lines[*n - 1];
            let want_nocr = want.strip_suffix('\r').unwrap_or(want);
            if txt != want && txt != want_nocr {
                return Err(format!("excerpt row {} is not the complete line of the input: printed {:?}, input line {:?}\n--- stderr ---\n{}", n, txt, want, stderr));
            }
        }
        if bi == 0 && !rows.iter().any(|(n, _)| n == num) {
            return Err(format!("the excerpt does not contain the reported line {}", num));
        }
    }
    Ok(Some(d.first_line))
}

pub fn run_c11(tier: &str, seed: u64) -> campaign::CampaignResult {
    let start = Instant::now();
    let n = std::env::var("EQV_NPROG").ok().and_then(|v| v.parse().ok()).unwrap_or(if tier == "thorough" { 150_000 } else { 6000 });
    let known = KnownFindings::load();
    let mut ev = Evidence::new("C11", tier, seed, "exploration");
    let corp = corpus(seed, if tier == "thorough" { 600 } else { 120 });
    let corpus_texts: BTreeSet<&str> = corp.iter().map(|(_, t)| t.as_str()).collect();
    let tapes = pt::draw_tapes(seed.wrapping_add(0xC11), n, 40);
    let results: Vec<(String, String, Vec<&'static str>, Result<Option<String>, String>)> = tapes
        .par_iter()
        .map(|tape| {
            let mut t = Tape::new(tape);
            let (name, base) = &corp[t.pick(corp.len())];
            // a slice of the cases runs the corpus file unmodified
            let (text, kinds) = if t.chance(1, 20) { (base.clone(), vec![]) } else { mutate(base, &mut t) };
            let r = check_input(&text);
            (name.clone(), text, kinds, r)
        })
        .collect();
    let mut violations = 0;
    let mut reported: BTreeSet<String> = BTreeSet::new();
    for (name, text, kinds, res) in &results {
        ev.evaluations += 1;
        for k in kinds {
            ev.count(&format!("mutation.{}", k), 1);
        }
        match res {
            Ok(None) => ev.count("accepted", 1),
            Ok(Some(first)) => {
                ev.count("rejected_with_diagnostic", 1);
                if !corpus_texts.contains(text.as_str()) {
                    let key = format!("{:?}|{}", kinds, first);
                    ev.nontrivial.insert(util::hash64(&[key.as_bytes()]));
                    ev.sample(json!({"base": name, "mutations": kinds, "input": text, "diagnostic": first}), 4);
                }
            }
            Err(m) if m == "timeout" => ev.count("timeouts", 1),
            Err(msg) => {
                // one report per distinct failure class
                let class: String = class_of(msg);
                if !reported.insert(class.clone()) {
                    ev.count("further_failures_of_a_reported_class", 1);
                    continue;
                }
                // minimise: delta debugging over lines (chunks of decreasing size) while the same class of
                // failure persists; bounded work, and only for the first few classes of a run
                let mut cur = text.clone();
                let mut budget: usize = if violations < 3 { 250 } else { 0 };
                let same_class = |cand: &str| -> bool {
                    match check_input(cand) {
                        Err(m2) => {
                            let c2: String = class_of(&m2);
                            c2 == class
                        }
                        _ => false,
                    }
                };
                let mut chunk = (cur.split_inclusive('\n').count() / 2).max(1);
                while budget > 0 {
                    let ls: Vec<String> = cur.split_inclusive('\n').map(|l| l.to_string()).collect();
                    let mut improved = false;
                    let mut i = 0;
                    while i < ls.len() && budget > 0 {
                        let cand: String = ls.iter().enumerate().filter(|(j, _)| *j < i || *j >= i + chunk).map(|(_, l)| l.as_str()).collect();
                        budget -= 1;
                        if cand.len() < cur.len() && same_class(&cand) {
                            cur = cand;
                            improved = true;
                            break;
                        }
                        i += chunk;
                    }
                    if !improved {
                        if chunk == 1 {
                            break;
                        }
                        chunk = (chunk / 2).max(1);
                    }
                }
                let msg2 = check_input(&cur).err().unwrap_or_else(|| msg.clone());
                let rep = ProgReplay { kind: "c11".into(), property: "C11".into(), program: None, source: cur, message: msg2, detail: json!({"base": name, "mutations": kinds}), seed };
                let sig = format!("C11:{}", class);
                if let Some(k) = known.known("C11", &sig) {
                    println!("KNOWN-FINDING: property=C11 {}", k.what);
                    continue;
                }
                let path = evidence::write_replay("C11", "input", &serde_json::to_value(&rep).unwrap());
                eprintln!("violation of C11: {}\n  signature: {}", rep.message.lines().next().unwrap_or(""), sig);
                evidence::print_violation("C11", &path);
                violations += 1;
            }
        }
    }
    ev.extra.insert("corpus_files".into(), json!(corp.len()));
    ev.rule = "inputs = corpus file (programs of the typed generator, modules derived from the full surface grammar incl. models/member types/morphisms with and without semantic noise, every .eql under eqlog-test-compile/error-test-source and eqlog-test-eval/src) with 1-3 mutations (token delete/duplicate/swap/replace, truncation at several boundary classes, trailing newline removed/doubled, LF->CRLF for all/some lines, non-ASCII characters in comments/identifiers/stand-alone, // inside comments, tabs, BOM, empty/blank/comment-only files, very long lines, lone CR); valid UTF-8, <= 8 KB; non-trivial = input differs from every corpus file and is rejected with a well-formed diagnostic, distinct by (mutation kinds, first diagnostic line)".into();
    ev.assumptions = vec!["a time-out (120 s) is inconclusive, never a violation".into()];
    ev.violations = violations as u64;
    ev.wall_s = start.elapsed().as_secs_f64();
    ev.write();
    println!("C11 {} seed={} inputs={} nontrivial={} violations={} wall={:.1}s", tier, seed, ev.evaluations, ev.nontrivial.len(), violations, ev.wall_s);
    campaign::CampaignResult { violations, inconclusive: false }
}

/// Failure class of a C11 message: its first line up to the first quoted piece of input, digits abstracted.
fn class_of(msg: &str) -> String {
    let first = msg.lines().next().unwrap_or("");
    let head = first.split('`').next().unwrap_or(first);
    head.chars().map(|c| if c.is_ascii_digit() { '#' } else { c }).take(70).collect()
}

pub fn replay_c11(rep: &ProgReplay) -> Result<Option<String>, String> {
    match check_input(&rep.source) {
        Ok(_) => Ok(None),
        Err(e) if e == "timeout" => Err(e),
        Err(e) => Ok(Some(e)),
    }
}
