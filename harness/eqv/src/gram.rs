//! Grammar-based generator over the FULL surface grammar (grammar.lalrpop): named argument
//! declarations, enums, models with member types / predicates / functions / rules, `Mor(M)`,
//! `dom`/`cod`, morphism application `h@(x)`, member atoms `m.p(..)`, `branch`, `match`.
//! Modules are syntactically valid by construction and *mostly* well-typed: symbols are used with
//! their declared arity and variables are drawn by type, with a small rate of deliberate noise
//! (wrong arity, unknown symbol, variable of another type) so that the semantic error paths are
//! exercised as well. There is no reference semantics for this fragment: the modules feed
//! C11 (any input: success or a well-formed diagnostic) and C09 (accepted => the Rust compiles).

use crate::gen::Tape;

#[derive(Clone)]
struct Sig {
    name: String,
    args: Vec<String>,
    /// Some(result type) for functions
    res: Option<String>,
}

#[derive(Clone, Default)]
struct ModelInfo {
    name: String,
    types: Vec<String>,
    rels: Vec<Sig>,
}

#[derive(Default)]
struct Env {
    types: Vec<String>,
    enums: Vec<(String, Vec<Sig>)>,
    rels: Vec<Sig>,
    models: Vec<ModelInfo>,
}

const TYPES: &[&str] = &["A", "B", "Obj", "Carrier", "Node"];
const ENUMS: &[&str] = &["Shape", "Tree", "Opt"];
const CTORS: &[&str] = &["Leaf", "Fork", "Nil", "Cons", "Wrap", "Unit"];
const MODELS: &[&str] = &["Grp", "Subs", "Graph"];
const MTYPES: &[&str] = &["El", "Vert", "Pt"];
const PREDS: &[&str] = &["p", "q", "le", "edge", "marked", "rel_x"];
const FUNCS: &[&str] = &["f", "g", "mul", "succ", "unit_el", "pick"];
const MPREDS: &[&str] = &["holds", "member", "arrow"];
const MFUNCS: &[&str] = &["op", "inv", "base"];
const RULES: &[&str] = &["ax", "step", "lemma_a", "trans", "sat", "cong"];

struct Scope {
    /// (variable, type string); member types are written `<model var>.<T>`
    vars: Vec<(String, String)>,
    uses: Vec<usize>,
    /// inside `model M { .. }`: member symbols are used without a receiver
    inside: Option<usize>,
}

pub struct Gen<'a, 'b> {
    t: &'a mut Tape<'b>,
    env: Env,
    fresh: usize,
    noise: usize,
    /// sibling models may declare members of the same name (accepted by the compiler, but the
    /// generated Rust does not compile: recorded finding C09:sibling-models-share-member-name)
    shared_member_names: bool,
}

impl<'a, 'b> Gen<'a, 'b> {
    fn pick<'x, T>(&mut self, v: &'x [T]) -> &'x T {
        let i = self.t.pick(v.len());
        &v[i]
    }

    fn noisy(&mut self) -> bool {
        self.noise > 0 && self.t.chance(1, self.noise)
    }

    /// A type expression usable in a global declaration.
    fn global_type(&mut self) -> String {
        let mut c: Vec<String> = self.env.types.clone();
        c.extend(self.env.enums.iter().map(|e| e.0.clone()));
        for m in &self.env.models {
            c.push(m.name.clone());
            c.push(format!("Mor({})", m.name));
        }
        if c.is_empty() || self.noisy() {
            return "Undeclared".into();
        }
        self.pick(&c).clone()
    }

    fn arg_decls(&mut self, tys: &[String], named: bool) -> String {
        let parts: Vec<String> = tys
            .iter()
            .enumerate()
            .map(|(i, t)| if named { format!("{}: {}", ["a", "b", "c", "d"][i % 4], t) } else { t.clone() })
            .collect();
        parts.join(", ")
    }

    fn decl_type(&mut self, out: &mut String) {
        let used: Vec<&String> = self.env.types.iter().collect();
        if let Some(n) = TYPES.iter().find(|n| !used.iter().any(|u| u.as_str() == **n)) {
            out.push_str(&format!("type {};\n", n));
            self.env.types.push(n.to_string());
        }
    }

    fn decl_enum(&mut self, out: &mut String) {
        let name = match ENUMS.iter().find(|n| !self.env.enums.iter().any(|e| e.0 == **n)) {
            Some(n) => n.to_string(),
            None => return,
        };
        let nc = 1 + self.t.pick(3);
        let mut ctors = Vec::new();
        let taken: Vec<String> = self.env.enums.iter().flat_map(|e| e.1.iter().map(|c| c.name.clone())).collect();
        for c in CTORS.iter().filter(|c| !taken.contains(&c.to_string())).take(nc) {
            let ar = self.t.pick(3);
            let mut args = Vec::new();
            for _ in 0..ar {
                // constructor arguments: plain types, the enum itself, other enums
                let mut cands: Vec<String> = self.env.types.clone();
                cands.push(name.clone());
                cands.extend(self.env.enums.iter().map(|e| e.0.clone()));
                args.push(self.pick(&cands).clone());
            }
            ctors.push(Sig { name: c.to_string(), args, res: Some(name.clone()) });
        }
        if ctors.is_empty() {
            return;
        }
        let named = self.t.chance(1, 4);
        let body: Vec<String> = ctors.iter().map(|c| format!("{}({})", c.name, self.arg_decls(&c.args.clone(), named))).collect();
        let sep = if self.t.chance(1, 3) { ",\n    " } else { ", " };
        out.push_str(&format!("enum {} {{ {} }}\n", name, body.join(sep)));
        self.env.enums.push((name, ctors));
    }

    fn decl_rel(&mut self, out: &mut String, func: bool) {
        let pool = if func { FUNCS } else { PREDS };
        let name = match pool.iter().find(|n| !self.env.rels.iter().any(|r| r.name == **n)) {
            Some(n) => n.to_string(),
            None => return,
        };
        let ar = self.t.weighted(&[2, 4, 4, 2]);
        let args: Vec<String> = (0..ar).map(|_| self.global_type()).collect();
        let named = self.t.chance(1, 4);
        if func {
            // no plain function into an enum with `!`: results are plain types, models or morphisms
            let res = self.global_type();
            out.push_str(&format!("func {}({}) -> {};\n", name, self.arg_decls(&args, named), res));
            self.env.rels.push(Sig { name, args, res: Some(res) });
        } else {
            out.push_str(&format!("pred {}({});\n", name, self.arg_decls(&args, named)));
            self.env.rels.push(Sig { name, args, res: None });
        }
    }

    fn decl_model(&mut self, out: &mut String) {
        let name = match MODELS.iter().find(|n| !self.env.models.iter().any(|m| m.name == **n)) {
            Some(n) => n.to_string(),
            None => return,
        };
        let mut m = ModelInfo { name: name.clone(), ..Default::default() };
        let mut body = String::new();
        let nt = self.t.pick(3);
        let k = self.env.models.len();
        let shared = self.shared_member_names;
        let uniq_ty = move |n: &str| -> String { if shared || k == 0 { n.to_string() } else { format!("{}{}", n, ["", "B", "C", "D"][k % 4]) } };
        let uniq_rel = move |n: &str| -> String { if shared || k == 0 { n.to_string() } else { format!("{}_{}", n, ["a", "b", "c", "d"][k % 4]) } };
        for ty in MTYPES.iter().take(nt) {
            let ty = uniq_ty(ty);
            body.push_str(&format!("    type {};\n", ty));
            m.types.push(ty);
        }
        let nr = 1 + self.t.pick(3);
        for i in 0..nr {
            let func = self.t.chance(1, 2) && !m.types.is_empty();
            let pool = if func { MFUNCS } else { MPREDS };
            let rn = uniq_rel(pool[i % pool.len()]);
            if m.rels.iter().any(|r| r.name == rn) {
                continue;
            }
            let ar = self.t.weighted(&[1, 4, 3]);
            let mut args = Vec::new();
            for _ in 0..ar {
                // member types of this model, or global plain types
                let mut c: Vec<String> = m.types.clone();
                c.extend(self.env.types.iter().cloned());
                if c.is_empty() {
                    break;
                }
                args.push(self.pick(&c).clone());
            }
            let named = self.t.chance(1, 4);
            if func {
                let res = self.pick(&m.types.clone()).clone();
                body.push_str(&format!("    func {}({}) -> {};\n", rn, self.arg_decls(&args, named), res));
                m.rels.push(Sig { name: rn, args, res: Some(res) });
            } else {
                body.push_str(&format!("    pred {}({});\n", rn, self.arg_decls(&args, named)));
                m.rels.push(Sig { name: rn, args, res: None });
            }
        }
        self.env.models.push(m);
        let mi = self.env.models.len() - 1;
        // rules inside the model
        let nrules = self.t.pick(3);
        for _ in 0..nrules {
            let r = self.rule(Some(mi));
            for l in r.lines() {
                body.push_str("    ");
                body.push_str(l);
                body.push('\n');
            }
        }
        out.push_str(&format!("model {} {{\n{}}}\n", name, body));
    }

    // ---- rules ----------------------------------------------------------------------------

    fn fresh_var(&mut self, sc: &mut Scope, ty: &str) -> String {
        self.fresh += 1;
        let base = match ty {
            t if t.starts_with("Mor(") => "h",
            t if self.env.models.iter().any(|m| m.name == t) => "m",
            t if t.contains('.') => "e",
            _ => ["x", "y", "z", "u", "v", "w"][self.fresh % 6],
        };
        let name = format!("{}_{}", base, sc.vars.len());
        sc.vars.push((name.clone(), ty.to_string()));
        sc.uses.push(0);
        name
    }

    fn use_var(&mut self, sc: &mut Scope, i: usize) -> String {
        sc.uses[i] += 1;
        sc.vars[i].0.clone()
    }

    /// A term of (roughly) type `ty`; `may_intro`: new variables may be introduced (premise).
    fn term(&mut self, sc: &mut Scope, ty: &str, may_intro: bool, depth: usize) -> String {
        let existing: Vec<usize> = (0..sc.vars.len()).filter(|&i| sc.vars[i].1 == ty).collect();
        if self.noisy() && !sc.vars.is_empty() {
            let i = self.t.pick(sc.vars.len());
            return self.use_var(sc, i);
        }
        // function application with that result type
        let fs: Vec<Sig> = self.env.rels.iter().filter(|r| r.res.as_deref() == Some(ty)).cloned().collect();
        let ctors: Vec<Sig> = self.env.enums.iter().filter(|e| e.0 == ty).flat_map(|e| e.1.clone()).collect();
        let w = [
            if existing.is_empty() { 0 } else { 8 },
            if may_intro { 3 } else { 0 },
            if depth < 2 && !fs.is_empty() && may_intro { 2 } else { 0 },
            if depth < 2 && !ctors.is_empty() && may_intro { 2 } else { 0 },
            if may_intro { 1 } else { 0 },
        ];
        if w.iter().sum::<usize>() == 0 {
            // a conclusion needs a term of a type nobody has: the atom is dropped by the caller
            // (unless noise is wanted: then any variable will do)
            if self.noise > 0 && !sc.vars.is_empty() && self.t.chance(1, 2) {
                let i = self.t.pick(sc.vars.len());
                return self.use_var(sc, i);
            }
            return "\u{0}".into();
        }
        match self.t.weighted(&w) {
            0 => {
                let i = existing[self.t.pick(existing.len())];
                self.use_var(sc, i)
            }
            1 => {
                let v = self.fresh_var(sc, ty);
                let i = sc.vars.len() - 1;
                let _ = v;
                self.use_var(sc, i)
            }
            2 => {
                let f = self.pick(&fs).clone();
                let args: Vec<String> = f.args.iter().map(|a| self.term(sc, a, may_intro, depth + 1)).collect();
                format!("{}({})", f.name, args.join(", "))
            }
            3 => {
                let c = self.pick(&ctors).clone();
                let args: Vec<String> = c.args.iter().map(|a| self.term(sc, a, may_intro, depth + 1)).collect();
                format!("{}({})", c.name, args.join(", "))
            }
            _ => "_".into(),
        }
    }

    /// A variable holding a model element of model `mi` (introduced with a typing premise if needed).
    fn model_var(&mut self, sc: &mut Scope, mi: usize, pre: &mut Vec<String>) -> String {
        let mname = self.env.models[mi].name.clone();
        let ex: Vec<usize> = (0..sc.vars.len()).filter(|&i| sc.vars[i].1 == mname).collect();
        if !ex.is_empty() && self.t.chance(3, 4) {
            let i = ex[self.t.pick(ex.len())];
            return self.use_var(sc, i);
        }
        let v = self.fresh_var(sc, &mname);
        let i = sc.vars.len() - 1;
        pre.push(format!("if {}: {};", self.use_var(sc, i), mname));
        let _ = v;
        self.use_var(sc, i)
    }

    /// Type of argument `a` of a member relation of model `mi`, as seen through receiver `recv`.
    fn member_arg_type(&self, mi: usize, a: &str, recv: &str, inside: bool) -> String {
        if self.env.models[mi].types.iter().any(|t| t == a) {
            if inside {
                a.to_string()
            } else {
                format!("{}.{}", recv, a)
            }
        } else {
            a.to_string()
        }
    }

    fn if_atom(&mut self, sc: &mut Scope, out: &mut Vec<String>) {
        let n_models = self.env.models.len();
        let w = [
            if self.env.rels.iter().any(|r| r.res.is_none()) { 6 } else { 0 },
            if self.env.rels.iter().any(|r| r.res.is_some()) { 3 } else { 0 },
            if n_models > 0 { 5 } else { 0 },
            if n_models > 0 { 2 } else { 0 },
            2,
            1,
            if n_models > 0 { 1 } else { 0 },
        ];
        match self.t.weighted(&w) {
            0 => {
                let ps: Vec<Sig> = self.env.rels.iter().filter(|r| r.res.is_none()).cloned().collect();
                let p = self.pick(&ps).clone();
                let mut args: Vec<String> = p.args.iter().map(|a| self.term(sc, a, true, 0)).collect();
                if self.noisy() {
                    args.push("_".into());
                }
                out.push(format!("if {}({});", p.name, args.join(", ")));
            }
            1 => {
                let fs: Vec<Sig> = self.env.rels.iter().filter(|r| r.res.is_some()).cloned().collect();
                let f = self.pick(&fs).clone();
                let args: Vec<String> = f.args.iter().map(|a| self.term(sc, a, true, 1)).collect();
                let app = format!("{}({})", f.name, args.join(", "));
                if self.t.chance(1, 3) {
                    out.push(format!("if {}!;", app));
                } else {
                    let res = f.res.clone().unwrap();
                    let rhs = self.term(sc, &res, true, 2);
                    if self.t.chance(1, 2) {
                        out.push(format!("if {} = {};", rhs, app));
                    } else {
                        out.push(format!("if {} = {};", app, rhs));
                    }
                }
            }
            2 => {
                // member atom through a receiver (or bare, inside the model)
                let mi = match sc.inside {
                    Some(mi) if self.t.chance(3, 4) => mi,
                    _ => self.t.pick(n_models),
                };
                if self.env.models[mi].rels.is_empty() {
                    return;
                }
                let r = self.pick(&self.env.models[mi].rels.clone()).clone();
                let bare = sc.inside == Some(mi) && self.t.chance(4, 5);
                let mut pre = Vec::new();
                let recv = if bare { String::new() } else { self.model_var(sc, mi, &mut pre) };
                out.extend(pre);
                let args: Vec<String> = r.args.iter().map(|a| { let ty = self.member_arg_type(mi, a, &recv, bare); self.term(sc, &ty, true, 1) }).collect();
                let head = if bare { r.name.clone() } else { format!("{}.{}", recv, r.name) };
                match &r.res {
                    None => out.push(format!("if {}({});", head, args.join(", "))),
                    Some(res) => {
                        let rty = self.member_arg_type(mi, res, &recv, bare);
                        let v = self.term(sc, &rty, true, 2);
                        out.push(format!("if {} = {}({});", v, head, args.join(", ")));
                    }
                }
            }
            3 => {
                // morphisms: dom / cod / application
                let mi = self.t.pick(n_models);
                let mname = self.env.models[mi].name.clone();
                let h = self.term(sc, &format!("Mor({})", mname), true, 2);
                match self.t.pick(4) {
                    0 => {
                        let m = self.term(sc, &mname, true, 2);
                        out.push(format!("if dom({}) = {};", h, m));
                    }
                    1 => {
                        let m = self.term(sc, &mname, true, 2);
                        out.push(format!("if cod({}) = {};", h, m));
                    }
                    2 => out.push(format!("if cod({})!;", h)),
                    _ => {
                        if let Some(ty) = self.env.models[mi].types.first().cloned() {
                            let mut pre = Vec::new();
                            let m = self.model_var(sc, mi, &mut pre);
                            out.extend(pre);
                            // the shape of the repository's own example: a morphism VARIABLE whose
                            // domain is the model of the element it is applied to
                            let hv = self.fresh_var(sc, &format!("Mor({})", mname));
                            let hi = sc.vars.len() - 1;
                            let _ = hv;
                            let h = self.use_var(sc, hi);
                            sc.uses[hi] += 2;
                            out.push(format!("if dom({}) = {};", h, m));
                            if self.t.chance(1, 2) {
                                out.push(format!("if cod({})!;", h));
                            }
                            let x = self.term(sc, &format!("{}.{}", m, ty), true, 2);
                            if x != "_" {
                                out.push(format!("if {}: {}.{};", x, m, ty));
                            }
                            if self.t.chance(1, 3) {
                                out.push(format!("if {}@({})!;", h, x));
                            } else {
                                // the image lives in the codomain: `if n = cod(h); if z: n.T; if z = h@(x);`
                                let nv = self.fresh_var(sc, &mname);
                                let ni = sc.vars.len() - 1;
                                let _ = nv;
                                let n = self.use_var(sc, ni);
                                sc.uses[ni] += 1;
                                out.push(format!("if {} = cod({});", n, h));
                                let zv = self.fresh_var(sc, &format!("{}.{}", n, ty));
                                let zi = sc.vars.len() - 1;
                                let _ = zv;
                                let z = self.use_var(sc, zi);
                                sc.uses[zi] += 1;
                                out.push(format!("if {}: {}.{};", z, n, ty));
                                out.push(format!("if {} = {}@({});", z, h, x));
                            }
                        }
                    }
                }
            }
            4 => {
                // typing premise with any type expression
                let ty = match sc.inside {
                    Some(mi) if !self.env.models[mi].types.is_empty() && self.t.chance(2, 3) => self.pick(&self.env.models[mi].types.clone()).clone(),
                    _ => self.global_type(),
                };
                let v = self.fresh_var(sc, &ty);
                let i = sc.vars.len() - 1;
                let _ = v;
                out.push(format!("if {}: {};", self.use_var(sc, i), ty));
            }
            5 => {
                if sc.vars.len() >= 2 {
                    let i = self.t.pick(sc.vars.len());
                    let ty = sc.vars[i].1.clone();
                    let same: Vec<usize> = (0..sc.vars.len()).filter(|&j| j != i && sc.vars[j].1 == ty).collect();
                    if !same.is_empty() {
                        let j = same[self.t.pick(same.len())];
                        out.push(format!("if {} = {};", self.use_var(sc, i), self.use_var(sc, j)));
                    }
                }
            }
            _ => {
                let mi = self.t.pick(n_models);
                let mname = self.env.models[mi].name.clone();
                let v = self.fresh_var(sc, &format!("Mor({})", mname));
                let i = sc.vars.len() - 1;
                let _ = v;
                out.push(format!("if {}: Mor({});", self.use_var(sc, i), mname));
            }
        }
    }

    fn then_atom(&mut self, sc: &mut Scope, out: &mut Vec<String>) {
        let n_models = self.env.models.len();
        let w = [
            if self.env.rels.iter().any(|r| r.res.is_none()) { 6 } else { 0 },
            3,
            if self.env.rels.iter().any(|r| r.res.is_some()) { 3 } else { 0 },
            if n_models > 0 { 4 } else { 0 },
            if n_models > 0 { 1 } else { 0 },
        ];
        match self.t.weighted(&w) {
            0 => {
                let ps: Vec<Sig> = self.env.rels.iter().filter(|r| r.res.is_none()).cloned().collect();
                let p = self.pick(&ps).clone();
                let args: Vec<String> = p.args.iter().map(|a| self.term(sc, a, false, 0)).collect();
                out.push(format!("then {}({});", p.name, args.join(", ")));
            }
            1 => {
                if sc.vars.len() >= 2 {
                    let i = self.t.pick(sc.vars.len());
                    let ty = sc.vars[i].1.clone();
                    let same: Vec<usize> = (0..sc.vars.len()).filter(|&j| j != i && sc.vars[j].1 == ty).collect();
                    if !same.is_empty() {
                        let j = same[self.t.pick(same.len())];
                        out.push(format!("then {} = {};", self.use_var(sc, i), self.use_var(sc, j)));
                    }
                }
            }
            2 => {
                let fs: Vec<Sig> = self.env.rels.iter().filter(|r| r.res.is_some()).cloned().collect();
                let f = self.pick(&fs).clone();
                let args: Vec<String> = f.args.iter().map(|a| self.term(sc, a, false, 0)).collect();
                let app = format!("{}({})", f.name, args.join(", "));
                match self.t.pick(3) {
                    0 => out.push(format!("then {}!;", app)),
                    1 => {
                        let res = f.res.clone().unwrap();
                        let v = self.fresh_var(sc, &res);
                        let i = sc.vars.len() - 1;
                        let _ = v;
                        out.push(format!("then {} := {}!;", self.use_var(sc, i), app));
                    }
                    _ => {
                        let res = f.res.clone().unwrap();
                        let rhs = self.term(sc, &res, false, 0);
                        out.push(format!("then {} = {};", app, rhs));
                    }
                }
            }
            3 => {
                let mi = match sc.inside {
                    Some(mi) if self.t.chance(3, 4) => mi,
                    _ => self.t.pick(n_models),
                };
                if self.env.models[mi].rels.is_empty() {
                    return;
                }
                let r = self.pick(&self.env.models[mi].rels.clone()).clone();
                let bare = sc.inside == Some(mi) && self.t.chance(4, 5);
                let mname = self.env.models[mi].name.clone();
                let recv = if bare {
                    String::new()
                } else {
                    let ex: Vec<usize> = (0..sc.vars.len()).filter(|&i| sc.vars[i].1 == mname).collect();
                    if ex.is_empty() {
                        return;
                    }
                    let i = ex[self.t.pick(ex.len())];
                    self.use_var(sc, i)
                };
                let args: Vec<String> = r.args.iter().map(|a| { let ty = self.member_arg_type(mi, a, &recv, bare); self.term(sc, &ty, false, 0) }).collect();
                let head = if bare { r.name.clone() } else { format!("{}.{}", recv, r.name) };
                match &r.res {
                    None => out.push(format!("then {}({});", head, args.join(", "))),
                    Some(_) => out.push(format!("then {}({})!;", head, args.join(", "))),
                }
            }
            _ => {
                let mi = self.t.pick(n_models);
                let mname = self.env.models[mi].name.clone();
                let hs: Vec<usize> = (0..sc.vars.len()).filter(|&i| sc.vars[i].1 == format!("Mor({})", mname)).collect();
                if hs.is_empty() {
                    return;
                }
                let h = hs[self.t.pick(hs.len())];
                let hv = self.use_var(sc, h);
                match self.t.pick(3) {
                    0 => out.push(format!("then dom({})!;", hv)),
                    1 => out.push(format!("then cod({})!;", hv)),
                    _ => {
                        let es: Vec<usize> = (0..sc.vars.len()).filter(|&i| sc.vars[i].1.contains('.')).collect();
                        if !es.is_empty() {
                            let e = es[self.t.pick(es.len())];
                            out.push(format!("then {}@({})!;", hv, self.use_var(sc, e)));
                        }
                    }
                }
            }
        }
    }

    fn stmts(&mut self, sc: &mut Scope, depth: usize, budget: usize) -> Vec<String> {
        let out = self.stmts_raw(sc, depth, budget);
        out.into_iter().filter(|l| !l.contains('\u{0}')).collect()
    }

    fn stmts_raw(&mut self, sc: &mut Scope, depth: usize, budget: usize) -> Vec<String> {
        let mut out = Vec::new();
        let n_if = 1 + self.t.pick(budget.max(1));
        for _ in 0..n_if {
            self.if_atom(sc, &mut out);
        }
        if depth < 2 && self.t.chance(1, 8) {
            let nb = 2 + self.t.pick(2);
            let mut blocks = Vec::new();
            for _ in 0..nb {
                let keep = sc.vars.len();
                let mut b = self.stmts(sc, depth + 1, 2);
                // variables of a block go out of scope after it
                self.close_scope(sc, keep, &mut b);
                blocks.push(format!("{{\n{}\n}}", indent(&b.join("\n"))));
            }
            out.push(format!("branch {}", blocks.join(" along ")));
        }
        // match on an enum-typed variable
        if depth < 2 && self.t.chance(1, 5) {
            let ev: Vec<usize> = (0..sc.vars.len()).filter(|&i| self.env.enums.iter().any(|e| e.0 == sc.vars[i].1)).collect();
            if !ev.is_empty() {
                let v = ev[self.t.pick(ev.len())];
                let ety = sc.vars[v].1.clone();
                let ctors: Vec<Sig> = self.env.enums.iter().find(|e| e.0 == ety).map(|e| e.1.clone()).unwrap_or_default();
                let disc = self.use_var(sc, v);
                let mut cases = Vec::new();
                for c in &ctors {
                    if self.noisy() {
                        continue;
                    }
                    let keep = sc.vars.len();
                    let mut pats = Vec::new();
                    for a in &c.args {
                        if self.t.chance(1, 4) {
                            pats.push("_".to_string());
                        } else {
                            let pv = self.fresh_var(sc, a);
                            let i = sc.vars.len() - 1;
                            let _ = pv;
                            pats.push(self.use_var(sc, i));
                        }
                    }
                    let mut body = self.stmts(sc, depth + 1, 1);
                    // the pattern counts as an occurrence of its variables
                    body.insert(0, format!("\u{1}{}", pats.join(" ")));
                    self.close_scope(sc, keep, &mut body);
                    body.remove(0);
                    cases.push(format!("{}({}) => {{\n{}\n}}", c.name, pats.join(", "), indent(&body.join("\n"))));
                }
                out.push(format!("match {} {{\n{}\n}}", disc, indent(&cases.join("\n"))));
            }
        }
        let n_then = 1 + self.t.pick(2);
        for _ in 0..n_then {
            self.then_atom(sc, &mut out);
        }
        out
    }

    /// Variables introduced at index >= keep leave the scope; those that occur exactly once in the
    /// statements of the block get a second occurrence (a typing premise) appended to the block.
    fn close_scope(&mut self, sc: &mut Scope, keep: usize, body: &mut Vec<String>) {
        let text: String = body.iter().filter(|l| !l.contains('\u{0}')).cloned().collect::<Vec<_>>().join("\n");
        for i in keep..sc.vars.len() {
            if sc.vars[i].1.starts_with("<gone") || sc.vars[i].1 == "image" {
                continue;
            }
            if count_ident(&text, &sc.vars[i].0) == 1 {
                body.push(format!("if {}: {};", sc.vars[i].0, sc.vars[i].1));
            }
        }
        for i in keep..sc.vars.len() {
            sc.vars[i].1 = format!("<gone {}>", i);
        }
    }

    fn rule(&mut self, inside: Option<usize>) -> String {
        let mut sc = Scope { vars: Vec::new(), uses: Vec::new(), inside };
        let mut body = self.stmts(&mut sc, 0, 3);
        // every variable must occur at least twice (counted on the final text)
        let text = body.join("\n");
        let mut pre = Vec::new();
        for i in 0..sc.vars.len() {
            if sc.vars[i].1.starts_with("<gone") || sc.vars[i].1 == "image" {
                continue;
            }
            if count_ident(&text, &sc.vars[i].0) == 1 && !self.noisy() {
                pre.push(format!("if {}: {};", sc.vars[i].0, sc.vars[i].1));
            }
        }
        pre.append(&mut body);
        let name = if self.t.chance(1, 3) {
            String::new()
        } else {
            self.fresh += 1;
            format!(" {}_{}", RULES[self.fresh % RULES.len()], self.fresh)
        };
        format!("rule{} {{\n{}\n}}\n", name, indent(&pre.join("\n")))
    }
}

/// Occurrences of `id` as a whole identifier token in `text`.
fn count_ident(text: &str, id: &str) -> usize {
    let b = text.as_bytes();
    let mut n = 0;
    let mut from = 0;
    while let Some(p) = text[from..].find(id) {
        let s = from + p;
        let e = s + id.len();
        let left_ok = s == 0 || !(b[s - 1].is_ascii_alphanumeric() || b[s - 1] == b'_' || b[s - 1] == b'\'');
        let right_ok = e >= b.len() || !(b[e].is_ascii_alphanumeric() || b[e] == b'_' || b[e] == b'\'');
        if left_ok && right_ok {
            n += 1;
        }
        from = e;
    }
    n
}

fn indent(s: &str) -> String {
    s.lines().map(|l| format!("    {}", l)).collect::<Vec<_>>().join("\n")
}

/// A syntactically valid module. `noise` = 0: no deliberate errors; n > 0: each symbol use goes
/// wrong with probability 1/n.
pub fn gen_module(tape: &[u16], noise: usize) -> String {
    gen_module_opts(tape, noise, false)
}

pub fn gen_module_opts(tape: &[u16], noise: usize, shared_member_names: bool) -> String {
    let mut t = Tape::new(tape);
    let mut g = Gen { t: &mut t, env: Env::default(), fresh: 0, noise, shared_member_names };
    let mut out = String::new();
    // a base signature first, then a mix
    g.decl_type(&mut out);
    let n = if g.t.chance(1, 2) { 3 + g.t.pick(3) } else { 4 + g.t.pick(9) };
    for _ in 0..n {
        match g.t.weighted(&[3, 4, 3, 2, 3, 6]) {
            0 => g.decl_type(&mut out),
            1 => g.decl_rel(&mut out, false),
            2 => g.decl_rel(&mut out, true),
            3 => g.decl_enum(&mut out),
            4 => g.decl_model(&mut out),
            _ => {
                let r = g.rule(None);
                out.push_str(&r);
            }
        }
    }
    if g.t.chance(1, 6) {
        out.push_str("// trailing comment without newline");
    }
    out
}
