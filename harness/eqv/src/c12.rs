//! C12: incremental builds are never stale, whatever edits, failed builds and crashes came
//! before. Histories over several versions of one theory with `Edit`, `Build`, `BuildKilled(k)`
//! (process death before the k-th mutating file-system call, injected with an LD_PRELOAD shim),
//! `BuildRustcFails`, `BuildRustcDies`; after every successful build the complete output and
//! component trees must equal a build of the current version into empty directories, and a
//! build that directly follows a successful build must not touch the file system.

use crate::build_checks::ProgReplay;
use crate::campaign::{self, draw_programs};
use crate::evidence::{self, Evidence, KnownFindings};
use crate::gen::{self, Profile, Tape};
use crate::pipeline::{self, CliOpts};
use crate::print;
use crate::pt;
use crate::util::{self, Scratch};
use rayon::prelude::*;
use serde::{Deserialize, Serialize};
use serde_json::json;
use std::collections::BTreeMap;
use std::path::{Path, PathBuf};
use std::time::Instant;

const THEORY: &str = "thy";

#[derive(Clone, Debug, PartialEq, Eq, Serialize, Deserialize)]
pub enum Step {
    Edit(usize),
    Build,
    /// die before the k-th mutating file-system call (k is taken modulo the number of calls a
    /// clean build of the current version performs, +1)
    BuildKilled(u16),
    /// like BuildKilled, but when the k-th mutating call is a write it is torn: half of its bytes
    /// reach the file before the process dies
    BuildKilledTorn(u16),
    /// rustc fails on the i-th component (component mode only)
    BuildRustcFails(u16),
    /// rustc dies half-way through writing the i-th component library, taking the build with it
    BuildRustcDies(u16),
    /// rustc is terminated by a signal (KILL, SEGV, TERM, ABRT by index) half-way through writing the
    /// i-th component library; the build process itself survives and sees a child without exit code
    BuildRustcKilledAlone(u16, u8),
    /// rustc exits with status 1 after it has written part of the i-th component library
    BuildRustcFailsLate(u16),
}

#[derive(Clone, Debug, Serialize, Deserialize)]
pub struct Case {
    pub versions: Vec<String>,
    pub component: bool,
    pub steps: Vec<Step>,
}

fn shim() -> PathBuf {
    util::cache_dir().join("shim/killpoint.so")
}

fn build_c(src_name: &str, out: &Path, shared: bool) -> Result<(), String> {
    let src = Path::new(util::VERIF).join("harness/shim").join(src_name);
    let fresh = match (std::fs::metadata(out), std::fs::metadata(&src)) {
        (Ok(a), Ok(b)) => a.modified().ok() >= b.modified().ok(),
        _ => false,
    };
    if fresh {
        return Ok(());
    }
    std::fs::create_dir_all(out.parent().unwrap()).map_err(|e| e.to_string())?;
    let tmp = out.with_extension(format!("{}.tmp", std::process::id()));
    let mut cmd = std::process::Command::new("cc");
    if shared {
        cmd.args(["-shared", "-fPIC"]);
    }
    let o = cmd.args(["-O1", "-o"]).arg(&tmp).arg(&src).arg("-ldl").output().map_err(|e| e.to_string())?;
    if !o.status.success() {
        return Err(format!("building {} failed: {}", src_name, String::from_utf8_lossy(&o.stderr)));
    }
    std::fs::rename(&tmp, out).map_err(|e| e.to_string())?;
    Ok(())
}

pub fn ensure_shim() -> Result<(), String> {
    build_c("killpoint.c", &shim(), true)?;
    build_c("fake_rustc.c", &fake_rustc(), false)
}

pub fn fake_rustc() -> PathBuf {
    util::cache_dir().join("shim/fake_rustc")
}

struct Dirs {
    src: PathBuf,
    out: PathBuf,
    comp: PathBuf,
}

fn run_build(d: &Dirs, component: bool, envs: Vec<(String, String)>) -> pipeline::CliRun {
    let fr = fake_rustc();
    pipeline::run_cli(&CliOpts {
        src: &d.src,
        out: &d.out,
        component_out: if component { Some(&d.comp) } else { None },
        rustc_path: Some(&fr),
        threads: Some(1),
        envs,
        cwd: None,
    })
}

fn tree(d: &Dirs, component: bool) -> BTreeMap<String, Vec<u8>> {
    let mut m = BTreeMap::new();
    for f in util::walk(&d.out) {
        m.insert(format!("out/{}", f.display()), std::fs::read(d.out.join(&f)).unwrap_or_default());
    }
    if component {
        for f in util::walk(&d.comp) {
            m.insert(format!("comp/{}", f.display()), std::fs::read(d.comp.join(&f)).unwrap_or_default());
        }
    }
    m
}

fn mtimes(d: &Dirs, component: bool) -> BTreeMap<String, std::time::SystemTime> {
    let mut m = BTreeMap::new();
    let mut add = |root: &Path, tag: &str| {
        for f in util::walk(root) {
            if let Ok(md) = std::fs::metadata(root.join(&f)) {
                if let Ok(t) = md.modified() {
                    m.insert(format!("{}/{}", tag, f.display()), t);
                }
            }
        }
    };
    add(&d.out, "out");
    if component {
        add(&d.comp, "comp");
    }
    m
}

#[derive(Default, Clone, Debug)]
pub struct Stats {
    pub builds_ok: usize,
    pub kills: usize,
    pub kills_effective: usize,
    pub rustc_failures: usize,
    pub rustc_deaths: usize,
    pub rustc_signalled: usize,
    pub noop_builds: usize,
    pub stale_checks: usize,
    pub versions_accepted: usize,
    pub killpoints_enumerated: usize,
}

/// Runs a case. Err(message) = violation; Ok(None) = inconclusive (e.g. a version is rejected).
pub fn run_case(case: &Case, st: &mut Stats) -> Result<Option<()>, String> {
    ensure_shim()?;
    let s = Scratch::new("c12");
    let d = Dirs { src: s.join("src"), out: s.join("out"), comp: s.join("comp") };
    std::fs::create_dir_all(&d.src).unwrap();
    // clean builds of every version, for comparison and for the number of mutating calls
    let mut clean: Vec<Option<(BTreeMap<String, Vec<u8>>, usize, Vec<String>)>> = Vec::new();
    for (vi, v) in case.versions.iter().enumerate() {
        let cs = Scratch::new("c12clean");
        // the same relative layout as the incremental build
        let cd = Dirs { src: cs.join("src"), out: cs.join("out"), comp: cs.join("comp") };
        std::fs::create_dir_all(&cd.src).unwrap();
        std::fs::write(cd.src.join(format!("{}.eql", THEORY)), v).unwrap();
        let log = cs.join("kp.log");
        let r = run_build(&cd, case.component, vec![("LD_PRELOAD".into(), shim().display().to_string()), ("KILLPOINT_LOG".into(), log.display().to_string())]);
        if r.out.timed_out {
            return Ok(None);
        }
        if !r.accepted() {
            clean.push(None);
            let _ = vi;
            continue;
        }
        st.versions_accepted += 1;
        let calls = std::fs::read_to_string(&log).map(|t| t.lines().count()).unwrap_or(0);
        let comps: Vec<String> = util::walk(&cd.comp).into_iter().filter(|f| f.extension().map(|e| e == "rs").unwrap_or(false)).map(|f| f.file_stem().unwrap().to_string_lossy().into_owned()).collect();
        // paths inside generated files do not depend on the directory (C13), so trees compare directly
        clean.push(Some((tree(&cd, case.component), calls, comps)));
    }
    let mut current: Option<usize> = None;
    let mut last_ok_unchanged = false;
    for (si, step) in case.steps.iter().enumerate() {
        match step {
            Step::Edit(v) => {
                let v = *v % case.versions.len();
                std::fs::write(d.src.join(format!("{}.eql", THEORY)), &case.versions[v]).unwrap();
                if current != Some(v) {
                    last_ok_unchanged = false;
                }
                current = Some(v);
            }
            _ => {
                let cur = match current {
                    Some(c) => c,
                    None => continue,
                };
                let cl = match &clean[cur] {
                    Some(c) => c,
                    None => {
                        // a version the compiler rejects: the build must fail; nothing to compare
                        let r = run_build(&d, case.component, vec![]);
                        if r.accepted() {
                            return Err(format!("step {}: incremental build accepts version {} which a clean build rejects", si, cur));
                        }
                        last_ok_unchanged = false;
                        continue;
                    }
                };
                let mut envs: Vec<(String, String)> = Vec::new();
                let mut expect_ok = true;
                let log = s.join(&format!("kp-{}.log", si));
                match step {
                    Step::Build => {
                        envs.push(("LD_PRELOAD".into(), shim().display().to_string()));
                        envs.push(("KILLPOINT_LOG".into(), log.display().to_string()));
                    }
                    Step::BuildKilled(k) | Step::BuildKilledTorn(k) => {
                        let n = cl.1.max(1);
                        let k = 1 + (*k as usize % n);
                        envs.push(("LD_PRELOAD".into(), shim().display().to_string()));
                        envs.push(("KILLPOINT_K".into(), k.to_string()));
                        if matches!(step, Step::BuildKilledTorn(_)) {
                            envs.push(("KILLPOINT_TORN".into(), "1".into()));
                        }
                        st.kills += 1;
                        expect_ok = false;
                    }
                    Step::BuildRustcFails(i) | Step::BuildRustcDies(i) | Step::BuildRustcKilledAlone(i, _) | Step::BuildRustcFailsLate(i) => {
                        if !case.component || cl.2.is_empty() {
                            continue;
                        }
                        let name = &cl.2[*i as usize % cl.2.len()];
                        match step {
                            Step::BuildRustcFails(_) => {
                                envs.push(("FAKE_RUSTC_FAIL_ON".into(), format!("{}.rs", name)));
                                st.rustc_failures += 1;
                            }
                            Step::BuildRustcFailsLate(_) => {
                                envs.push(("FAKE_RUSTC_FAIL_LATE_ON".into(), format!("{}.rs", name)));
                                st.rustc_failures += 1;
                            }
                            Step::BuildRustcKilledAlone(_, sg) => {
                                const SIGS: [i32; 4] = [9, 11, 15, 6];
                                envs.push(("FAKE_RUSTC_SELFKILL_ON".into(), format!("{}.rs", name)));
                                envs.push(("FAKE_RUSTC_SIGNAL".into(), SIGS[*sg as usize % SIGS.len()].to_string()));
                                st.rustc_signalled += 1;
                            }
                            _ => {
                                envs.push(("FAKE_RUSTC_DIE_ON".into(), format!("{}.rs", name)));
                                st.rustc_deaths += 1;
                            }
                        }
                        expect_ok = false;
                    }
                    Step::Edit(_) => unreachable!(),
                }
                let before_m = if matches!(step, Step::Build) && last_ok_unchanged { Some(mtimes(&d, case.component)) } else { None };
                let r = run_build(&d, case.component, envs);
                if r.out.timed_out {
                    return Ok(None);
                }
                if r.accepted() {
                    // also a "killed" or "failing" build may succeed when nothing had to be done
                    st.builds_ok += 1;
                    st.stale_checks += 1;
                    let now = tree(&d, case.component);
                    if let Some(diff) = diff_trees(&cl.0, &now) {
                        return Err(format!("step {} ({:?}): after a build that reported success the outputs for version {} differ from a clean build: {}", si, step, cur, diff));
                    }
                    if let Some(bm) = before_m {
                        st.noop_builds += 1;
                        let calls = std::fs::read_to_string(&log).unwrap_or_default();
                        if !calls.trim().is_empty() {
                            return Err(format!("step {}: a build directly after a successful build (nothing changed) performed file-system mutations: {}", si, calls.lines().take(3).collect::<Vec<_>>().join("; ")));
                        }
                        if bm != mtimes(&d, case.component) {
                            return Err(format!("step {}: a build directly after a successful build (nothing changed) changed modification times", si));
                        }
                    }
                    last_ok_unchanged = true;
                } else {
                    if expect_ok {
                        return Err(format!("step {}: build of version {} fails (exit {:?}) although a clean build of it succeeds: {}", si, cur, r.out.code, r.out.stderr_str().lines().next().unwrap_or("")));
                    }
                    if matches!(step, Step::BuildKilled(_) | Step::BuildKilledTorn(_)) {
                        st.kills_effective += 1;
                    }
                    last_ok_unchanged = false;
                }
            }
        }
    }
    Ok(Some(()))
}

/// Failure class: the kind of discrepancy, without file names and numbers.
fn classify(msg: &str) -> String {
    let kind = if msg.contains("is missing") {
        "file missing"
    } else if msg.contains("stale/different content") {
        if msg.contains(".rlib") {
            "stale library"
        } else if msg.contains(".digest") {
            "stale digest"
        } else {
            "stale text file"
        }
    } else if msg.contains("a clean build does not produce it") {
        "leftover file"
    } else if msg.contains("performed file-system mutations") || msg.contains("modification times") {
        "no-op build writes"
    } else {
        return msg.chars().take(80).collect();
    };
    kind.to_string()
}

fn diff_trees(clean: &BTreeMap<String, Vec<u8>>, now: &BTreeMap<String, Vec<u8>>) -> Option<String> {
    for (k, v) in clean {
        match now.get(k) {
            None => return Some(format!("file {} is missing", k)),
            Some(w) if w != v => return Some(format!("file {} has stale/different content", k)),
            _ => {}
        }
    }
    for k in now.keys() {
        if !clean.contains_key(k) {
            return Some(format!("file {} exists but a clean build does not produce it", k));
        }
    }
    None
}

fn gen_case(seed_prog: &crate::campaign::ProgramCase, tape: &[u16]) -> Case {
    let mut t = Tape::new(tape);
    let prof = Profile { max_rules: 4, max_stmts: 5, max_fanout: 4, ..Profile::free() };
    let nv = 2 + t.pick(3);
    let mut versions = vec![seed_prog.source.clone()];
    for i in 1..nv {
        let sub: Vec<u16> = (0..200).map(|j| tape.get(20 + i * 200 + j).copied().unwrap_or(0)).collect();
        // half of the versions are minimal in-rule edits (two arguments of one atom swapped): in a component
        // build the module text then often stays byte-identical and only one component changes
        let text = match sub.first().copied().unwrap_or(0) % 8 {
            1 | 3 | 5 => print::print(&gen::gen_small_edit(&seed_prog.program, &sub[1..])).text,
            // edits that change no declaration and no rule: another layout (comments, blank lines), or
            // the same text with trailing white space / a trailing comment / without its final newline.
            // The generated code stays the same but the theory digest must follow the source.
            7 => {
                let mut q = seed_prog.program.clone();
                q.layout = q.layout.wrapping_add(1 + sub.get(1).copied().unwrap_or(0) as u32);
                print::print(&q).text
            }
            6 => {
                let base = seed_prog.source.clone();
                match sub.get(1).copied().unwrap_or(0) % 4 {
                    0 => format!("{}\n", base),
                    1 => format!("{}   \n", base.trim_end()),
                    2 => format!("{}// trailing note", base),
                    _ => base.trim_end().to_string(),
                }
            }
            _ => print::print(&gen::gen_variant(&seed_prog.program, &sub, &prof)).text,
        };
        versions.push(text);
    }
    let component = t.chance(2, 3);
    let n = 3 + t.pick(6);
    let mut steps = vec![Step::Edit(0)];
    for _ in 0..n {
        let s = match t.weighted(&[4, 4, 4, 1, 2, 2, 1, 2]) {
            0 => Step::Edit(t.pick(nv)),
            1 => Step::Build,
            2 => Step::BuildKilled(t.pick(1 << 16) as u16),
            7 => Step::BuildKilledTorn(t.pick(1 << 16) as u16),
            3 => Step::BuildRustcFails(t.pick(64) as u16),
            4 => Step::BuildRustcDies(t.pick(64) as u16),
            5 => Step::BuildRustcKilledAlone(t.pick(64) as u16, t.pick(4) as u8),
            _ => Step::BuildRustcFailsLate(t.pick(64) as u16),
        };
        steps.push(s);
    }
    steps.push(Step::Build);
    steps.push(Step::Build);
    Case { versions, component, steps }
}

pub fn run_c12(tier: &str, seed: u64) -> campaign::CampaignResult {
    let start = Instant::now();
    if let Err(e) = ensure_shim() {
        eprintln!("INFRA: {}", e);
        return campaign::CampaignResult { violations: 0, inconclusive: true };
    }
    let thorough = tier == "thorough";
    let n = std::env::var("EQV_NPROG").ok().and_then(|v| v.parse().ok()).unwrap_or(if thorough { 400 } else { 60 });
    let known = KnownFindings::load();
    let mut ev = Evidence::new("C12", tier, seed, "fault_enumeration");
    let profiles: Vec<String> = vec!["free".into(), "stratified".into()];
    let programs = draw_programs(seed ^ 0x12, &profiles, n);
    let tapes = pt::draw_tapes(seed.wrapping_add(0xC12), n, 1100);
    let mut cases: Vec<Case> = programs.iter().zip(tapes.iter()).map(|(pc, t)| gen_case(pc, t)).collect();
    // exhaustive kill-point enumeration: thorough = every k of every build of short histories
    // (version a -> version b -> back to a), quick = a sample of them
    let mut enumerated: Vec<Case> = Vec::new();
    let n_enum = if thorough { cases.len().min(8) } else { cases.len().min(6) };
    for c in cases.iter().take(n_enum) {
        if c.versions.len() < 2 {
            continue;
        }
        for k in 0..(if thorough { 120 } else { 24 }) {
            enumerated.push(Case {
                versions: c.versions.clone(),
                component: c.component,
                steps: vec![Step::Edit(0), Step::Build, Step::Edit(1), Step::BuildKilled(k as u16), Step::Edit(0), Step::Build, Step::Edit(1), Step::Build, Step::Build],
            });
            if thorough || k % 2 == 0 {
                enumerated.push(Case {
                    versions: c.versions.clone(),
                    component: c.component,
                    steps: vec![Step::Edit(0), Step::Build, Step::Edit(1), Step::BuildKilledTorn(k as u16), Step::Build, Step::Edit(0), Step::Build],
                });
            }
        }
    }
    // enumerated compiler faults: every component x every kind of rustc failure, on the edit-back-and-forth
    // history and on the direct retry
    for c in cases.iter().filter(|c| c.versions.len() >= 2).take(n_enum) {
        for i in 0..(if thorough { 8u16 } else { 2u16 }) {
            let faults = [Step::BuildRustcFails(i), Step::BuildRustcFailsLate(i), Step::BuildRustcDies(i), Step::BuildRustcKilledAlone(i, (i % 4) as u8)];
            for f in faults {
                enumerated.push(Case { versions: c.versions.clone(), component: true, steps: vec![Step::Edit(0), Step::Build, Step::Edit(1), f.clone(), Step::Build, Step::Build] });
                enumerated.push(Case { versions: c.versions.clone(), component: true, steps: vec![Step::Edit(0), Step::Build, Step::Edit(1), f, Step::Edit(0), Step::Build, Step::Edit(1), Step::Build] });
            }
        }
    }
    let n_random = cases.len();
    cases.extend(enumerated);
    let results: Vec<(Result<Option<()>, String>, Stats)> = cases
        .par_iter()
        .map(|c| {
            let mut st = Stats::default();
            let r = run_case(c, &mut st);
            (r, st)
        })
        .collect();
    let mut violations = 0;
    let mut reported: std::collections::BTreeSet<String> = Default::default();
    for (i, (c, (res, st))) in cases.iter().zip(results.iter()).enumerate() {
        ev.evaluations += 1;
        ev.count(if i < n_random { "random_histories" } else { "enumerated_fault_histories" }, 1);
        ev.count("builds_successful", st.builds_ok as u64);
        ev.count("builds_killed", st.kills as u64);
        ev.count("builds_killed_midway", st.kills_effective as u64);
        ev.count("builds_rustc_failed", st.rustc_failures as u64);
        ev.count("builds_rustc_died", st.rustc_deaths as u64);
        ev.count("builds_rustc_killed_by_signal_alone", st.rustc_signalled as u64);
        ev.count("noop_builds_checked", st.noop_builds as u64);
        ev.count("tree_comparisons", st.stale_checks as u64);
        ev.count(if c.component { "component_mode" } else { "module_mode" }, 1);
        match res {
            Ok(Some(())) => {
                if st.kills_effective + st.rustc_failures + st.rustc_deaths + st.rustc_signalled > 0 && st.stale_checks > 0 {
                    ev.nontrivial.insert(util::hash64(&[serde_json::to_string(c).unwrap().as_bytes()]));
                    ev.sample(json!({"steps": c.steps, "component": c.component, "n_versions": c.versions.len(), "version_0": c.versions[0]}), 3);
                }
            }
            Ok(None) => ev.count("inconclusive", 1),
            Err(msg) => {
                let class: String = msg.split(": ").skip(1).collect::<Vec<_>>().join(": ").chars().map(|ch| if ch.is_ascii_digit() { '#' } else { ch }).collect();
                let class = classify(&class);
                if !reported.insert(class.clone()) {
                    ev.count("further_failures_of_a_reported_class", 1);
                    continue;
                }
                // shrink: drop steps while it still fails with the same class
                let mut cur = c.clone();
                loop {
                    let mut improved = false;
                    for j in 0..cur.steps.len() {
                        let mut cand = cur.clone();
                        cand.steps.remove(j);
                        if let Err(m2) = run_case(&cand, &mut Stats::default()) {
                            let c2: String = m2.split(": ").skip(1).collect::<Vec<_>>().join(": ").chars().map(|ch| if ch.is_ascii_digit() { '#' } else { ch }).collect();
                            if classify(&c2) == class {
                                cur = cand;
                                improved = true;
                                break;
                            }
                        }
                    }
                    if !improved {
                        break;
                    }
                }
                let msg2 = run_case(&cur, &mut Stats::default()).err().unwrap_or_else(|| msg.clone());
                let rep = ProgReplay { kind: "c12".into(), property: "C12".into(), program: None, source: cur.versions[0].clone(), message: msg2, detail: serde_json::to_value(&cur).unwrap(), seed };
                let sig = format!("C12:{}", class);
                if let Some(k) = known.known("C12", &sig) {
                    println!("KNOWN-FINDING: property=C12 {}", k.what);
                    continue;
                }
                let path = evidence::write_replay("C12", "build", &serde_json::to_value(&rep).unwrap());
                eprintln!("violation of C12: {}\n  signature: {}", rep.message, sig);
                evidence::print_violation("C12", &path);
                violations += 1;
            }
        }
    }
    ev.rule = "cases = 2-4 versions of one generated theory (edits keep rule names but change bodies, add/remove rules and declarations; 3/8 of the versions are minimal in-rule edits - two arguments of one atom swapped - which leave the module text of a component build unchanged, 2/8 change only layout, comments or trailing white space) and a history over Edit/Build/BuildKilled(k)/BuildKilledTorn(k: the k-th call, if a write, delivers half its bytes)/BuildRustcFails/BuildRustcFailsLate/BuildRustcDies (takes the build with it)/BuildRustcKilledAlone (signal KILL/SEGV/TERM/ABRT, the build survives) ending in two successful builds, module or component mode (fake rustc, RAYON_NUM_THREADS=1 so that k is reproducible); plus enumerated kill points k = 1.. for the history build(a), edit b, build killed before its k-th mutation, edit a, build, edit b, build; plus every component x every kind of compiler failure (exit 1 early, exit 1 after a partial write, death taking the build along, death by signal alone) on build(a), edit b, faulty build, [edit a, build, edit b,] build; non-trivial = history with a build that was really interrupted or whose rustc failed/died, followed by a compared successful build; distinct by hash of the case".into();
    ev.assumptions = vec!["crashes are process death between two file-system calls of the compiler process (and inside rustc's output write); loss of page cache / power failure is not modelled".into()];
    ev.violations = violations as u64;
    ev.wall_s = start.elapsed().as_secs_f64();
    ev.write();
    println!("C12 {} seed={} cases={} nontrivial={} violations={} wall={:.1}s", tier, seed, ev.evaluations, ev.nontrivial.len(), violations, ev.wall_s);
    campaign::CampaignResult { violations, inconclusive: ev.counters.get("builds_successful").copied().unwrap_or(0) == 0 }
}

pub fn replay_c12(rep: &ProgReplay) -> Result<Option<String>, String> {
    let case: Case = serde_json::from_value(rep.detail.clone()).map_err(|e| e.to_string())?;
    match run_case(&case, &mut Stats::default()) {
        Ok(_) => Ok(None),
        Err(e) => Ok(Some(e)),
    }
}
