//! C10: the static checks accept exactly the well-formed programs and name the right error.
//! Well-formed programs come from the typed generator; ill-formed ones are single-defect mutants
//! whose defect class and position are known by construction of the mutation operator (the
//! reference verdict). Reference-free metamorphic relations (alpha-renaming, declaration order,
//! layout, unused declarations) are checked on both.

use crate::ast::*;
use crate::build_checks::ProgReplay;
use crate::campaign::{self, draw_programs};
use crate::evidence::{self, Evidence, KnownFindings};
use crate::gen::Tape;
use crate::pipeline::{self, CliOpts};
use crate::print::{self, Printed};
use crate::pt;
use crate::util::{self, Scratch};
use rayon::prelude::*;
use serde_json::json;
use std::collections::{BTreeMap, BTreeSet};
use std::time::Instant;

#[derive(Clone, Copy, Debug, PartialEq, Eq, PartialOrd, Ord, Hash)]
pub enum Class {
    DeclaredTwice,
    Undeclared,
    BadKind,
    ArgNumber,
    ConflictingType,
    Undetermined,
    IntroducedInThen,
    WildcardInThen,
    OccursOnce,
    Surjectivity,
    ThenDefinedNotVar,
    ThenDefinedNotNew,
    EnumCtor,
    PatternIsVariable,
    PatternIsWildcard,
    PatternArgIsApp,
    PatternArgNotFresh,
    ConflictingEnum,
    NotExhaustive,
    Casing,
    Parse,
    Other,
}

pub fn classify(first_line: &str) -> Class {
    let m = first_line.strip_prefix("Error: ").unwrap_or(first_line);
    if m.starts_with("symbol declared multiple times") {
        Class::DeclaredTwice
    } else if m.starts_with("undeclared symbol") {
        Class::Undeclared
    } else if m.starts_with("expected a variable") {
        Class::ThenDefinedNotVar
    } else if m.starts_with("expected ") && m.contains(", found ") {
        Class::BadKind
    } else if m.contains(" arguments but ") {
        Class::ArgNumber
    } else if m.starts_with("term has conflicting types") {
        Class::ConflictingType
    } else if m.starts_with("type of term undetermined") {
        Class::Undetermined
    } else if m.starts_with("variable introduced in then statement") {
        Class::IntroducedInThen
    } else if m.starts_with("wildcards must not appear") {
        Class::WildcardInThen
    } else if m.contains("occurs only once") {
        Class::OccursOnce
    } else if m.starts_with("term does not appear earlier") {
        Class::Surjectivity
    } else if m.starts_with("variable has already been introduced") {
        Class::ThenDefinedNotNew
    } else if m.starts_with("term of enum type") {
        Class::EnumCtor
    } else if m.starts_with("Pattern is a variable") {
        Class::PatternIsVariable
    } else if m.starts_with("Pattern is a wildcard") {
        Class::PatternIsWildcard
    } else if m.starts_with("Nested patterns") {
        Class::PatternArgIsApp
    } else if m.starts_with("Variable in pattern has been used before") {
        Class::PatternArgNotFresh
    } else if m.starts_with("Conflicting pattern types") {
        Class::ConflictingEnum
    } else if m.starts_with("Missing match case") {
        Class::NotExhaustive
    } else if m.contains("is not UpperCamelCase") || m.contains("is not lower_snake_case") {
        Class::Casing
    } else if m.starts_with("unrecognized token") || m.starts_with("unexpected end of file") || m.starts_with("invalid token") || m.starts_with("unexpected token") {
        Class::Parse
    } else {
        Class::Other
    }
}

#[derive(Clone, Debug)]
pub enum Verdict {
    Accepted,
    Rejected { class: Class, line: usize, first: String },
    Crashed(String),
    Timeout,
}

pub fn compile_verdict(source: &str) -> Verdict {
    let s = Scratch::new("c10");
    let src = s.join("src");
    std::fs::create_dir_all(&src).unwrap();
    std::fs::write(src.join("thy.eql"), source).unwrap();
    let out = s.join("out");
    let r = pipeline::run_cli(&CliOpts { src: &src, out: &out, component_out: None, rustc_path: None, threads: None, envs: vec![], cwd: None });
    if r.out.timed_out {
        return Verdict::Timeout;
    }
    if r.accepted() {
        return Verdict::Accepted;
    }
    let stderr = r.out.stderr_str();
    if !r.rejected() {
        return Verdict::Crashed(stderr.lines().find(|l| l.contains("panicked")).unwrap_or("").to_string());
    }
    let first = stderr.lines().next().unwrap_or("").to_string();
    let line = stderr
        .lines()
        .find_map(|l| l.trim_start().strip_prefix("--> ").and_then(|r| r.rsplit_once(':')).and_then(|(_, n)| n.trim().parse::<usize>().ok()))
        .unwrap_or(0);
    Verdict::Rejected { class: classify(&first), line, first }
}

/// Where the defect injected by a mutation sits.
#[derive(Clone, Debug)]
pub enum Where {
    /// the statement at (rule, path)
    Stmt(usize, Vec<usize>),
    /// anywhere inside the rule
    Rule(usize),
    /// the k-th entry of `Program::order`
    Decl(usize),
    Anywhere,
}

#[derive(Clone, Debug)]
pub struct Mutant {
    pub op: &'static str,
    pub program: Program,
    /// acceptable (class, position) pairs for the reported error
    pub expected: Vec<(Class, Where)>,
}

// ---- traversal helpers ----------------------------------------------------------------------

fn for_each_stmt<'a>(stmts: &'a [Stmt], path: &mut Vec<usize>, f: &mut dyn FnMut(&[usize], &'a Stmt)) {
    for (i, s) in stmts.iter().enumerate() {
        path.push(i);
        f(path, s);
        match s {
            Stmt::Branch(bs) => {
                for (bi, b) in bs.iter().enumerate() {
                    path.push(bi);
                    for_each_stmt(b, path, f);
                    path.pop();
                }
            }
            Stmt::Match(_, cs) => {
                for (ci, c) in cs.iter().enumerate() {
                    path.push(ci);
                    for_each_stmt(&c.body, path, f);
                    path.pop();
                }
            }
            _ => {}
        }
        path.pop();
    }
}

fn stmt_at_mut<'a>(stmts: &'a mut Vec<Stmt>, path: &[usize]) -> Option<&'a mut Stmt> {
    let s = stmts.get_mut(path[0])?;
    if path.len() == 1 {
        return Some(s);
    }
    match s {
        Stmt::Branch(bs) => stmt_at_mut(bs.get_mut(path[1])?, &path[2..]),
        Stmt::Match(_, cs) => stmt_at_mut(&mut cs.get_mut(path[1])?.body, &path[2..]),
        _ => None,
    }
}

fn term_vars(t: &Term, out: &mut Vec<String>) {
    match t {
        Term::Var(v) => out.push(v.clone()),
        Term::Wild => {}
        Term::App(_, a) => a.iter().for_each(|x| term_vars(x, out)),
    }
}

fn term_apps(t: &Term, out: &mut BTreeSet<RelId>) {
    if let Term::App(f, a) = t {
        out.insert(*f);
        a.iter().for_each(|x| term_apps(x, out));
    }
}

fn stmt_terms(s: &Stmt) -> Vec<&Term> {
    match s {
        Stmt::If(IfAtom::Pred(_, a)) | Stmt::Then(ThenAtom::Pred(_, a)) => a.iter().collect(),
        Stmt::If(IfAtom::Eq(l, r)) | Stmt::Then(ThenAtom::Eq(l, r)) => vec![l, r],
        Stmt::If(IfAtom::Defined(t)) | Stmt::If(IfAtom::Typed(t, _)) | Stmt::Then(ThenAtom::Defined(_, t)) => vec![t],
        Stmt::Match(t, cs) => {
            let mut v = vec![t];
            for c in cs {
                v.extend(c.args.iter());
            }
            v
        }
        Stmt::Branch(_) => vec![],
    }
}

#[derive(Default)]
struct RuleInfo {
    var_counts: BTreeMap<String, usize>,
    /// types a variable name is used at (through predicate / function argument positions)
    var_types: BTreeMap<String, BTreeSet<TypeId>>,
    apps: BTreeSet<RelId>,
    has_blocks: bool,
}

fn rule_info(p: &Program, r: &Rule) -> RuleInfo {
    let mut info = RuleInfo::default();
    fn note_types(p: &Program, t: &Term, ty: Option<TypeId>, info: &mut RuleInfo) {
        match t {
            Term::Var(v) => {
                if let Some(ty) = ty {
                    info.var_types.entry(v.clone()).or_default().insert(ty);
                }
            }
            Term::Wild => {}
            Term::App(f, a) => {
                for (x, &c) in a.iter().zip(p.rels[*f].cols.iter()) {
                    note_types(p, x, Some(c), info);
                }
            }
        }
    }
    let mut path = Vec::new();
    for_each_stmt(&r.body, &mut path, &mut |_, s| {
        if matches!(s, Stmt::Branch(_) | Stmt::Match(..)) {
            info.has_blocks = true;
        }
        for t in stmt_terms(s) {
            let mut vs = Vec::new();
            term_vars(t, &mut vs);
            for v in vs {
                *info.var_counts.entry(v).or_default() += 1;
            }
            term_apps(t, &mut info.apps);
        }
        if let Stmt::Then(ThenAtom::Defined(Some(v), t)) = s {
            *info.var_counts.entry(v.clone()).or_default() += 1;
            if let Term::App(f, _) = t {
                if let Some(rt) = p.rels[*f].result_type() {
                    info.var_types.entry(v.clone()).or_default().insert(rt);
                }
            }
        }
        match s {
            Stmt::If(IfAtom::Pred(r, a)) | Stmt::Then(ThenAtom::Pred(r, a)) => {
                for (x, &c) in a.iter().zip(p.rels[*r].cols.iter()) {
                    note_types(p, x, Some(c), &mut info);
                }
            }
            Stmt::If(IfAtom::Typed(t, ty)) => note_types(p, t, Some(*ty), &mut info),
            Stmt::Match(_, cs) => {
                for c in cs {
                    for (x, &ct) in c.args.iter().zip(p.rels[c.ctor].cols.iter()) {
                        note_types(p, x, Some(ct), &mut info);
                    }
                }
            }
            _ => {
                for t in stmt_terms(s) {
                    let rt = if let Term::App(f, _) = t { p.rels[*f].result_type() } else { None };
                    let _ = rt;
                    note_types(p, t, None, &mut info);
                }
            }
        }
    });
    info
}

/// All statements as (rule, path).
fn all_stmts(p: &Program) -> Vec<(usize, Vec<usize>)> {
    let mut out = Vec::new();
    for (ri, r) in p.rules.iter().enumerate() {
        let mut path = Vec::new();
        for_each_stmt(&r.body, &mut path, &mut |pa, _| out.push((ri, pa.to_vec())));
    }
    out
}

fn stmt_at<'a>(p: &'a Program, ri: usize, path: &[usize]) -> &'a Stmt {
    fn go<'a>(stmts: &'a [Stmt], path: &[usize]) -> &'a Stmt {
        let s = &stmts[path[0]];
        if path.len() == 1 {
            return s;
        }
        match s {
            Stmt::Branch(bs) => go(&bs[path[1]], &path[2..]),
            Stmt::Match(_, cs) => go(&cs[path[1]].body, &path[2..]),
            _ => unreachable!(),
        }
    }
    go(&p.rules[ri].body, path)
}

pub const OPERATORS: &[&str] = &[
    "delete_used_decl",
    "duplicate_decl",
    "bad_kind_pred",
    "bad_kind_func",
    "extra_argument",
    "missing_argument",
    "conflicting_type",
    "fresh_var_in_then",
    "wildcard_in_then",
    "rename_one_occurrence",
    "unknown_application_in_then",
    "bang_on_non_ctor_enum",
    "then_defined_bound_var",
    "match_drop_case",
    "match_variable_pattern",
    "match_wildcard_pattern",
    "match_pattern_arg_app",
    "match_pattern_arg_bound",
    "match_two_enums",
];

/// Applies mutation operator `op`; None when the program offers no site for it.
pub fn mutate(p: &Program, op: &str, t: &mut Tape) -> Option<Mutant> {
    let mut q = p.clone();
    let stmts = all_stmts(p);
    let pick_stmt = |t: &mut Tape, pred: &dyn Fn(&Stmt) -> bool| -> Option<(usize, Vec<usize>)> {
        let c: Vec<&(usize, Vec<usize>)> = stmts.iter().filter(|(ri, pa)| pred(stmt_at(p, *ri, pa))).collect();
        if c.is_empty() {
            None
        } else {
            Some(c[t.pick(c.len())].clone())
        }
    };
    let expected: Vec<(Class, Where)>;
    match op {
        "delete_used_decl" => {
            // remove the declaration of a predicate/function that some rule uses
            let mut used: BTreeSet<RelId> = BTreeSet::new();
            for (ri, pa) in &stmts {
                let s = stmt_at(p, *ri, pa);
                match s {
                    Stmt::If(IfAtom::Pred(r, _)) | Stmt::Then(ThenAtom::Pred(r, _)) => {
                        used.insert(*r);
                    }
                    _ => {}
                }
                for tm in stmt_terms(s) {
                    term_apps(tm, &mut used);
                }
            }
            let cands: Vec<RelId> = used.into_iter().filter(|&r| !matches!(p.rels[r].kind, RelKind::Ctor(_))).collect();
            if cands.is_empty() {
                return None;
            }
            let r = cands[t.pick(cands.len())];
            q.order.retain(|d| *d != DeclRef::Rel(r));
            expected = vec![(Class::Undeclared, Where::Anywhere)];
        }
        "duplicate_decl" => {
            // Known finding (KNOWN_FINDINGS.json, C10:duplicate-enum-with-match-accepted): an enum that
            // is declared twice is accepted when one of its constructors occurs in a match
            // statement. That trigger is excluded here so that the search continues behind it.
            let mut matched_enums: BTreeSet<TypeId> = BTreeSet::new();
            for (ri, pa) in &stmts {
                if let Stmt::Match(_, cs) = stmt_at(p, *ri, pa) {
                    for c in cs {
                        if let RelKind::Ctor(e) = p.rels[c.ctor].kind {
                            matched_enums.insert(e);
                        }
                    }
                }
            }
            let cands: Vec<usize> = (0..p.order.len())
                .filter(|&i| !matches!(p.order[i], DeclRef::Rule(r) if p.rules[r].name.is_none()))
                .filter(|&i| !matches!(p.order[i], DeclRef::Type(t) if matched_enums.contains(&t)))
                .collect();
            if cands.is_empty() {
                return None;
            }
            let i = cands[t.pick(cands.len())];
            let pos = t.pick(q.order.len() + 1);
            q.order.insert(pos, p.order[i]);
            expected = vec![(Class::DeclaredTwice, Where::Anywhere)];
        }
        "bad_kind_pred" => {
            // a type name in predicate position
            let (ri, pa) = pick_stmt(t, &|s| matches!(s, Stmt::If(IfAtom::Pred(..)) | Stmt::Then(ThenAtom::Pred(..))))?;
            let ty = t.pick(p.types.len());
            let fake = q.rels.len();
            let cols = match stmt_at(p, ri, &pa) {
                Stmt::If(IfAtom::Pred(r, _)) | Stmt::Then(ThenAtom::Pred(r, _)) => p.rels[*r].cols.clone(),
                _ => unreachable!(),
            };
            q.rels.push(RelDecl { name: p.types[ty].name.clone(), kind: RelKind::Pred, cols });
            match stmt_at_mut(&mut q.rules[ri].body, &pa)? {
                Stmt::If(IfAtom::Pred(r, _)) | Stmt::Then(ThenAtom::Pred(r, _)) => *r = fake,
                _ => unreachable!(),
            }
            expected = vec![(Class::BadKind, Where::Stmt(ri, pa))];
        }
        "bad_kind_func" => {
            // a predicate name in function position
            let preds = p.preds();
            if preds.is_empty() {
                return None;
            }
            let (ri, pa) = pick_stmt(t, &|s| matches!(s, Stmt::If(IfAtom::Defined(Term::App(..))) | Stmt::Then(ThenAtom::Defined(_, Term::App(..)))))?;
            let pr = preds[t.pick(preds.len())];
            let fake = q.rels.len();
            let (f, _) = match stmt_at(p, ri, &pa) {
                Stmt::If(IfAtom::Defined(Term::App(f, a))) | Stmt::Then(ThenAtom::Defined(_, Term::App(f, a))) => (*f, a.len()),
                _ => unreachable!(),
            };
            q.rels.push(RelDecl { name: p.rels[pr].name.clone(), kind: RelKind::Func, cols: p.rels[f].cols.clone() });
            match stmt_at_mut(&mut q.rules[ri].body, &pa)? {
                Stmt::If(IfAtom::Defined(Term::App(f, _))) | Stmt::Then(ThenAtom::Defined(_, Term::App(f, _))) => *f = fake,
                _ => unreachable!(),
            }
            expected = vec![(Class::BadKind, Where::Stmt(ri, pa))];
        }
        "extra_argument" | "missing_argument" => {
            let extra = op == "extra_argument";
            let (ri, pa) = pick_stmt(t, &|s| match s {
                Stmt::If(IfAtom::Pred(_, a)) | Stmt::Then(ThenAtom::Pred(_, a)) => extra || !a.is_empty(),
                _ => false,
            })?;
            let is_then = matches!(stmt_at(p, ri, &pa), Stmt::Then(_));
            match stmt_at_mut(&mut q.rules[ri].body, &pa)? {
                Stmt::If(IfAtom::Pred(_, a)) | Stmt::Then(ThenAtom::Pred(_, a)) => {
                    if extra {
                        // repeat an argument that is already there (typed), or a wildcard in an `if`
                        let add = match a.first() {
                            Some(x) => x.clone(),
                            None => {
                                if is_then {
                                    return None;
                                }
                                Term::Wild
                            }
                        };
                        a.push(add);
                    } else {
                        a.pop();
                    }
                }
                _ => unreachable!(),
            }
            expected = vec![
                (Class::ArgNumber, Where::Stmt(ri, pa.clone())),
                // removing an argument can leave a variable with a single occurrence / without type
                (Class::OccursOnce, Where::Rule(ri)),
                (Class::Undetermined, Where::Rule(ri)),
                (Class::IntroducedInThen, Where::Rule(ri)),
                (Class::Surjectivity, Where::Rule(ri)),
            ];
        }
        "conflicting_type" => {
            // use a variable at a position of another type
            let mut sites = Vec::new();
            for (ri, pa) in &stmts {
                if let Stmt::If(IfAtom::Pred(r, args)) = stmt_at(p, *ri, pa) {
                    let info = rule_info(p, &p.rules[*ri]);
                    if info.has_blocks {
                        continue;
                    }
                    for (k, a) in args.iter().enumerate() {
                        if let Term::Var(av) = a {
                            // the replaced variable must keep two occurrences, so that the only
                            // defect is the type conflict
                            if info.var_counts.get(av).copied().unwrap_or(0) < 3 {
                                continue;
                            }
                            let want = p.rels[*r].cols[k];
                            for (v, tys) in &info.var_types {
                                if tys.len() == 1 && !tys.contains(&want) && Term::Var(v.clone()) != *a {
                                    sites.push((*ri, pa.clone(), k, v.clone()));
                                }
                            }
                        }
                    }
                }
            }
            if sites.is_empty() {
                return None;
            }
            let (ri, pa, k, v) = sites[t.pick(sites.len())].clone();
            match stmt_at_mut(&mut q.rules[ri].body, &pa)? {
                Stmt::If(IfAtom::Pred(_, a)) => a[k] = Term::Var(v),
                _ => unreachable!(),
            }
            // replacing an occurrence may leave the replaced variable without a binding occurrence
            expected = vec![(Class::ConflictingType, Where::Rule(ri)), (Class::Undetermined, Where::Rule(ri)), (Class::IntroducedInThen, Where::Rule(ri))];
        }
        "fresh_var_in_then" | "wildcard_in_then" => {
            let (ri, pa) = pick_stmt(t, &|s| matches!(s, Stmt::Then(ThenAtom::Pred(_, a)) if !a.is_empty()))?;
            match stmt_at_mut(&mut q.rules[ri].body, &pa)? {
                Stmt::Then(ThenAtom::Pred(_, a)) => {
                    let k = t.pick(a.len());
                    a[k] = if op == "wildcard_in_then" { Term::Wild } else { Term::Var("zz_fresh".into()) };
                }
                _ => unreachable!(),
            }
            expected = if op == "wildcard_in_then" {
                vec![(Class::WildcardInThen, Where::Stmt(ri, pa)), (Class::OccursOnce, Where::Rule(ri))]
            } else {
                vec![(Class::IntroducedInThen, Where::Stmt(ri, pa)), (Class::OccursOnce, Where::Rule(ri))]
            };
        }
        "rename_one_occurrence" => {
            // a variable with exactly two occurrences loses one of them
            let mut sites = Vec::new();
            for (ri, r) in p.rules.iter().enumerate() {
                let info = rule_info(p, r);
                if info.has_blocks {
                    continue;
                }
                for (v, c) in &info.var_counts {
                    if *c == 2 {
                        sites.push((ri, v.clone()));
                    }
                }
            }
            if sites.is_empty() {
                return None;
            }
            let (ri, v) = sites[t.pick(sites.len())].clone();
            let which = t.pick(2);
            let mut seen = 0;
            fn rn(tm: &mut Term, v: &str, which: usize, seen: &mut usize) {
                match tm {
                    Term::Var(x) if x == v => {
                        if *seen == which {
                            *x = "zz_renamed".into();
                        }
                        *seen += 1;
                    }
                    Term::App(_, a) => a.iter_mut().for_each(|x| rn(x, v, which, seen)),
                    _ => {}
                }
            }
            for s in q.rules[ri].body.iter_mut() {
                match s {
                    Stmt::If(IfAtom::Pred(_, a)) | Stmt::Then(ThenAtom::Pred(_, a)) => a.iter_mut().for_each(|x| rn(x, &v, which, &mut seen)),
                    Stmt::If(IfAtom::Eq(l, r)) | Stmt::Then(ThenAtom::Eq(l, r)) => {
                        rn(l, &v, which, &mut seen);
                        rn(r, &v, which, &mut seen);
                    }
                    Stmt::If(IfAtom::Defined(x)) | Stmt::If(IfAtom::Typed(x, _)) => rn(x, &v, which, &mut seen),
                    Stmt::Then(ThenAtom::Defined(b, x)) => {
                        rn(x, &v, which, &mut seen);
                        if let Some(bn) = b {
                            if *bn == v {
                                if seen == which {
                                    *bn = "zz_renamed".into();
                                }
                                seen += 1;
                            }
                        }
                    }
                    _ => {}
                }
            }
            expected = vec![
                (Class::OccursOnce, Where::Rule(ri)),
                (Class::Undetermined, Where::Rule(ri)),
                (Class::IntroducedInThen, Where::Rule(ri)),
                (Class::Surjectivity, Where::Rule(ri)),
            ];
        }
        "unknown_application_in_then" => {
            // wrap: replace an argument of a then-atom by an application of a function that does
            // not occur anywhere in the rule (so it cannot be equal to an earlier term)
            let mut sites = Vec::new();
            for (ri, pa) in &stmts {
                if let Stmt::Then(ThenAtom::Pred(r, args)) = stmt_at(p, *ri, pa) {
                    let info = rule_info(p, &p.rules[*ri]);
                    if info.has_blocks {
                        continue;
                    }
                    for k in 0..args.len() {
                        let want = p.rels[*r].cols[k];
                        for f in p.funcs() {
                            if info.apps.contains(&f) || p.rels[f].result_type() != Some(want) {
                                continue;
                            }
                            // arguments: variables of the rule with a unique, matching type
                            let mut fa = Vec::new();
                            let mut ok = true;
                            for &at in p.rels[f].arg_types() {
                                match info.var_types.iter().find(|(_, tys)| tys.len() == 1 && tys.contains(&at)) {
                                    Some((v, _)) => fa.push(Term::Var(v.clone())),
                                    None => {
                                        ok = false;
                                        break;
                                    }
                                }
                            }
                            if ok {
                                sites.push((*ri, pa.clone(), k, Term::App(f, fa)));
                            }
                        }
                    }
                }
            }
            if sites.is_empty() {
                return None;
            }
            let (ri, pa, k, tm) = sites[t.pick(sites.len())].clone();
            match stmt_at_mut(&mut q.rules[ri].body, &pa)? {
                Stmt::Then(ThenAtom::Pred(_, a)) => a[k] = tm,
                _ => unreachable!(),
            }
            expected = vec![
                (Class::Surjectivity, Where::Stmt(ri, pa.clone())),
                (Class::EnumCtor, Where::Stmt(ri, pa.clone())),
                (Class::OccursOnce, Where::Rule(ri)),
                // a variable that was introduced by a later statement
                (Class::IntroducedInThen, Where::Stmt(ri, pa)),
            ];
        }
        "bang_on_non_ctor_enum" => {
            let fs: Vec<RelId> = p.funcs().into_iter().filter(|&f| p.rels[f].kind == RelKind::Func && p.is_enum(p.rels[f].result_type().unwrap())).collect();
            if fs.is_empty() || p.rules.is_empty() {
                return None;
            }
            let f = fs[t.pick(fs.len())];
            let mut body = Vec::new();
            let args: Vec<Term> = (0..p.rels[f].arg_types().len()).map(|i| Term::Var(format!("zz_{}", (b'a' + i as u8) as char))).collect();
            for (i, &ty) in p.rels[f].arg_types().iter().enumerate() {
                body.push(Stmt::If(IfAtom::Typed(args[i].clone(), ty)));
            }
            body.push(Stmt::Then(ThenAtom::Defined(None, Term::App(f, args))));
            q.rules.push(Rule { name: None, body });
            q.order.push(DeclRef::Rule(q.rules.len() - 1));
            expected = vec![(Class::EnumCtor, Where::Rule(q.rules.len() - 1))];
        }
        "then_defined_bound_var" => {
            // `then v := t!` is repeated: the second time `v` is not new any more
            let (ri, pa) = pick_stmt(t, &|s| matches!(s, Stmt::Then(ThenAtom::Defined(Some(_), _))))?;
            if pa.len() != 1 {
                return None;
            }
            let dup = stmt_at(p, ri, &pa).clone();
            q.rules[ri].body.insert(pa[0] + 1, dup);
            let mut pa2 = pa.clone();
            pa2[0] += 1;
            expected = vec![(Class::ThenDefinedNotNew, Where::Stmt(ri, pa2))];
        }
        "match_drop_case" | "match_variable_pattern" | "match_wildcard_pattern" | "match_pattern_arg_app" | "match_pattern_arg_bound" | "match_two_enums" => {
            let (ri, pa) = pick_stmt(t, &|s| match s {
                Stmt::Match(_, cs) => match op {
                    "match_drop_case" => cs.len() >= 2,
                    "match_pattern_arg_app" | "match_pattern_arg_bound" => cs.iter().any(|c| !c.args.is_empty()),
                    _ => !cs.is_empty(),
                },
                _ => false,
            })?;
            let disc_var = match stmt_at(p, ri, &pa) {
                Stmt::Match(Term::Var(v), _) => Some(v.clone()),
                _ => None,
            };
            let other_enum_ctor: Option<RelId> = match stmt_at(p, ri, &pa) {
                Stmt::Match(_, cs) => {
                    let en = match p.rels[cs[0].ctor].kind {
                        RelKind::Ctor(e) => e,
                        _ => return None,
                    };
                    (0..p.rels.len()).find(|&r| matches!(p.rels[r].kind, RelKind::Ctor(e) if e != en))
                }
                _ => None,
            };
            let funcs = p.funcs();
            let cases = match stmt_at_mut(&mut q.rules[ri].body, &pa)? {
                Stmt::Match(_, cs) => cs,
                _ => unreachable!(),
            };
            let here = Where::Stmt(ri, pa.clone());
            match op {
                "match_drop_case" => {
                    let k = t.pick(cases.len());
                    cases.remove(k);
                    expected = vec![(Class::NotExhaustive, here), (Class::OccursOnce, Where::Rule(ri))];
                }
                "match_variable_pattern" => {
                    let k = t.pick(cases.len());
                    cases[k].raw_pattern = Some("zz_pat".into());
                    expected = vec![(Class::PatternIsVariable, Where::Rule(ri)), (Class::NotExhaustive, here), (Class::OccursOnce, Where::Rule(ri)), (Class::Undetermined, Where::Rule(ri)), (Class::IntroducedInThen, Where::Rule(ri))];
                }
                "match_wildcard_pattern" => {
                    let k = t.pick(cases.len());
                    cases[k].raw_pattern = Some("_".into());
                    expected = vec![(Class::PatternIsWildcard, Where::Rule(ri)), (Class::NotExhaustive, here), (Class::OccursOnce, Where::Rule(ri)), (Class::Undetermined, Where::Rule(ri)), (Class::IntroducedInThen, Where::Rule(ri))];
                }
                "match_pattern_arg_app" => {
                    let with: Vec<usize> = (0..cases.len()).filter(|&k| !cases[k].args.is_empty()).collect();
                    let k = with[t.pick(with.len())];
                    let j = t.pick(cases[k].args.len());
                    let want = p.rels[cases[k].ctor].cols[j];
                    let f = funcs.iter().copied().find(|&f| p.rels[f].result_type() == Some(want) && p.rels[f].arg_types().is_empty());
                    let f = match f {
                        Some(f) => f,
                        None => return None,
                    };
                    cases[k].args[j] = Term::App(f, vec![]);
                    expected = vec![(Class::PatternArgIsApp, Where::Rule(ri)), (Class::OccursOnce, Where::Rule(ri)), (Class::Undetermined, Where::Rule(ri)), (Class::IntroducedInThen, Where::Rule(ri))];
                }
                "match_pattern_arg_bound" => {
                    let dv = disc_var?;
                    let with: Vec<usize> = (0..cases.len()).filter(|&k| !cases[k].args.is_empty()).collect();
                    let k = with[t.pick(with.len())];
                    let j = t.pick(cases[k].args.len());
                    cases[k].args[j] = Term::Var(dv);
                    expected = vec![(Class::PatternArgNotFresh, Where::Rule(ri)), (Class::ConflictingType, Where::Rule(ri)), (Class::OccursOnce, Where::Rule(ri)), (Class::Undetermined, Where::Rule(ri)), (Class::IntroducedInThen, Where::Rule(ri))];
                }
                _ => {
                    let oc = other_enum_ctor?;
                    let n = p.rels[oc].cols.len() - 1;
                    cases.push(MatchCase { ctor: oc, args: vec![Term::Wild; n], body: vec![], raw_pattern: None });
                    expected = vec![(Class::ConflictingEnum, Where::Rule(ri)), (Class::ConflictingType, Where::Rule(ri)), (Class::NotExhaustive, Where::Rule(ri)), (Class::EnumCtor, Where::Rule(ri))];
                }
            }
        }
        _ => return None,
    }
    Some(Mutant { op: OPERATORS.iter().find(|o| **o == op).copied().unwrap_or("?"), program: q, expected })
}

fn line_set(p: &Program, pr: &Printed, w: &Where) -> Option<BTreeSet<usize>> {
    match w {
        Where::Anywhere => None,
        Where::Stmt(ri, path) => {
            let mut s = BTreeSet::new();
            for (r, pa, line) in &pr.stmt_lines {
                if r == ri && pa == path {
                    s.insert(*line);
                }
            }
            // multi-line statements (match / branch): any line of the nested statements counts
            for (r, pa, line) in &pr.stmt_lines {
                if r == ri && pa.len() > path.len() && pa[..path.len()] == path[..] {
                    s.insert(*line);
                }
            }
            Some(s)
        }
        Where::Rule(ri) => {
            let k = p.order.iter().position(|d| *d == DeclRef::Rule(*ri))?;
            let start = pr.decl_lines[k];
            let end = pr.decl_lines.get(k + 1).copied().unwrap_or(usize::MAX);
            Some((start..end.min(start + 2000)).collect())
        }
        Where::Decl(k) => Some([pr.decl_lines[*k]].into_iter().collect()),
    }
}

/// Err = disagreement between the compiler and the reference verdict.
pub fn judge_mutant(m: &Mutant) -> Result<Option<(Class, String)>, String> {
    // printed with the varied layout (blank lines, comment lines and trailing comments, some with
    // multi-byte characters): the reported line must still be a line of the injected defect
    let pr = print::print_with(&m.program, false);
    match compile_verdict(&pr.text) {
        Verdict::Timeout => Ok(None),
        Verdict::Crashed(e) => Err(format!("compiler crashed on a mutant ({}): {}", m.op, e)),
        Verdict::Accepted => Err(format!("the compiler accepts an ill-formed program (operator {}; expected one of {:?})", m.op, m.expected.iter().map(|(c, _)| *c).collect::<Vec<_>>())),
        Verdict::Rejected { class, line, first } => {
            for (c, w) in &m.expected {
                if *c != class {
                    continue;
                }
                match line_set(&m.program, &pr, w) {
                    None => return Ok(Some((class, first))),
                    Some(ls) => {
                        if ls.contains(&line) {
                            return Ok(Some((class, first)));
                        }
                    }
                }
            }
            Err(format!(
                "operator {} injects a defect of class {:?} but the compiler reports {:?} (`{}`) at line {}",
                m.op,
                m.expected.iter().map(|(c, _)| *c).collect::<Vec<_>>(),
                class,
                first,
                line
            ))
        }
    }
}

// ---- metamorphic transformations ----------------------------------------------------------

/// x -> x_r, x' -> x_r' (injective, keeps lower_snake_case)
fn rn_var(v: &str) -> String {
    let n = v.trim_end_matches('\'').len();
    format!("{}_r{}", &v[..n], &v[n..])
}

fn rename_program(p: &Program) -> Program {
    fn rt(t: &mut Term) {
        match t {
            Term::Var(v) => *v = rn_var(v),
            Term::Wild => {}
            Term::App(_, a) => a.iter_mut().for_each(rt),
        }
    }
    fn rs(stmts: &mut Vec<Stmt>) {
        for s in stmts {
            match s {
                Stmt::If(IfAtom::Pred(_, a)) | Stmt::Then(ThenAtom::Pred(_, a)) => a.iter_mut().for_each(rt),
                Stmt::If(IfAtom::Eq(l, r)) | Stmt::Then(ThenAtom::Eq(l, r)) => {
                    rt(l);
                    rt(r);
                }
                Stmt::If(IfAtom::Defined(x)) | Stmt::If(IfAtom::Typed(x, _)) => rt(x),
                Stmt::Then(ThenAtom::Defined(b, x)) => {
                    rt(x);
                    if let Some(b) = b {
                        *b = rn_var(b);
                    }
                }
                Stmt::Branch(bs) => bs.iter_mut().for_each(rs),
                Stmt::Match(t, cs) => {
                    rt(t);
                    for c in cs {
                        c.args.iter_mut().for_each(rt);
                        if let Some(raw) = &mut c.raw_pattern {
                            if raw != "_" {
                                *raw = rn_var(raw);
                            }
                        }
                        rs(&mut c.body);
                    }
                }
            }
        }
    }
    let mut q = p.clone();
    // names that fake relations borrow from other declarations must follow their originals
    let mut map: BTreeMap<String, String> = BTreeMap::new();
    for t in &p.types {
        map.insert(t.name.clone(), format!("{}Rn", t.name));
    }
    for r in &p.rels {
        if !map.contains_key(&r.name) {
            let new = if r.name.chars().next().map(|c| c.is_ascii_uppercase()).unwrap_or(false) { format!("{}Rn", r.name) } else { format!("{}_rn", r.name) };
            map.insert(r.name.clone(), new);
        }
    }
    for t in q.types.iter_mut() {
        t.name = map[&t.name].clone();
    }
    for r in q.rels.iter_mut() {
        r.name = map[&r.name].clone();
    }
    for r in q.rules.iter_mut() {
        if let Some(n) = &mut r.name {
            *n = format!("{}_rn", n);
        }
        rs(&mut r.body);
    }
    q
}

fn permute_decls(p: &Program, t: &mut Tape) -> Program {
    let mut q = p.clone();
    for i in (1..q.order.len()).rev() {
        let j = t.pick(i + 1);
        q.order.swap(i, j);
    }
    q
}

fn add_unused_decl(p: &Program) -> Program {
    let mut q = p.clone();
    q.types.push(TypeDecl { name: "ZqUnused".into(), kind: TypeKind::Plain });
    let ty = q.types.len() - 1;
    q.rels.push(RelDecl { name: "zq_unused".into(), kind: RelKind::Pred, cols: vec![ty, ty] });
    q.order.insert(0, DeclRef::Rel(q.rels.len() - 1));
    q.order.push(DeclRef::Type(ty));
    q
}

fn verdict_key(v: &Verdict) -> Option<String> {
    match v {
        Verdict::Accepted => Some("accepted".into()),
        Verdict::Rejected { class, .. } => Some(format!("{:?}", class)),
        Verdict::Crashed(_) => Some("crashed".into()),
        Verdict::Timeout => None,
    }
}

/// Reference-free relations. `stable` = the reported class cannot legitimately depend on
/// positions (well-formed programs and mutants with a single possible class).
pub fn metamorphic(p: &Program, t: &mut Tape) -> Result<usize, String> {
    let base = compile_verdict(&print::print_with(p, true).text);
    let bk = match verdict_key(&base) {
        Some(k) => k,
        None => return Ok(0),
    };
    let mut n = 0;
    let mut relayout = p.clone();
    relayout.layout = t.pick(1 << 15) as u32;
    let variants: Vec<(&str, String)> = vec![
        ("alpha-renaming of variables and symbols", print::print_with(&rename_program(p), true).text),
        ("permutation of top-level declarations", print::print_with(&permute_decls(p, t), true).text),
        ("re-layout (whitespace, comments, blank lines)", print::print(&relayout).text),
        ("addition of an unused declaration", print::print_with(&add_unused_decl(p), true).text),
    ];
    for (name, src) in variants {
        let v = compile_verdict(&src);
        if let Some(k) = verdict_key(&v) {
            n += 1;
            if k != bk {
                return Err(format!("verdict changes under {}: {} -> {}\n--- transformed source ---\n{}", name, bk, k, src));
            }
        }
    }
    Ok(n)
}

pub fn run_c10(tier: &str, seed: u64) -> campaign::CampaignResult {
    let start = Instant::now();
    let np = std::env::var("EQV_NPROG").ok().and_then(|v| v.parse().ok()).unwrap_or(if tier == "thorough" { 8000 } else { 400 });
    let known = KnownFindings::load();
    let mut ev = Evidence::new("C10", tier, seed, "exploration");
    let profiles: Vec<String> = vec!["with_enums".into(), "free".into(), "stratified".into(), "surjective".into()];
    let programs = draw_programs(seed, &profiles, np);
    let tapes = pt::draw_tapes(seed.wrapping_add(0xC10), np, 60);
    struct Out {
        accepted: bool,
        wf_problem: Option<String>,
        mutants: Vec<(String, Result<Option<(Class, String)>, String>, Program)>,
        meta: Vec<(Result<usize, String>, Program)>,
        locality: usize,
        features: bool,
    }
    let outs: Vec<Out> = programs
        .par_iter()
        .zip(tapes.par_iter())
        .map(|(pc, tape)| {
            let mut t = Tape::new(tape);
            let mut o = Out { accepted: false, wf_problem: None, mutants: vec![], meta: vec![], locality: 0, features: false };
            // 1. a well-formed program is accepted
            match compile_verdict(&pc.source) {
                Verdict::Accepted => o.accepted = true,
                Verdict::Timeout => return o,
                Verdict::Rejected { first, line, .. } => {
                    o.wf_problem = Some(format!("the compiler rejects a well-formed program: `{}` at line {}", first, line));
                    return o;
                }
                Verdict::Crashed(e) => {
                    o.wf_problem = Some(format!("the compiler crashes on a well-formed program: {}", e));
                    return o;
                }
            }
            fn has_block(s: &[Stmt]) -> bool {
                s.iter().any(|x| matches!(x, Stmt::Branch(_) | Stmt::Match(..)))
            }
            o.features = pc.program.rules.iter().any(|r| has_block(&r.body)) && pc.source.contains("((") == false && pc.program.rules.iter().any(|r| {
                let mut nested = false;
                let mut path = Vec::new();
                for_each_stmt(&r.body, &mut path, &mut |_, s| {
                    for tm in stmt_terms(s) {
                        if let Term::App(_, a) = tm {
                            if a.iter().any(|x| matches!(x, Term::App(..))) {
                                nested = true;
                            }
                        }
                        if let Stmt::If(IfAtom::Pred(_, a)) | Stmt::Then(ThenAtom::Pred(_, a)) = s {
                            if a.iter().any(|x| matches!(x, Term::App(..))) {
                                nested = true;
                            }
                        }
                    }
                });
                nested
            });
            // 2. three single-defect mutants
            for _ in 0..3 {
                let op = OPERATORS[t.pick(OPERATORS.len())];
                if let Some(m) = mutate(&pc.program, op, &mut t) {
                    let mut r = judge_mutant(&m);
                    // rule-locality: a defect inside one rule must not be masked by other rules. The
                    // well-formed rules of the original program (same variable names, same symbols,
                    // complete matches) are appended as anonymous rules; the mutant must still be rejected
                    // with a class of the injected defect.
                    if matches!(r, Ok(Some(_))) && !matches!(op, "delete_used_decl" | "duplicate_decl" | "bad_kind_pred" | "bad_kind_func") {
                        let mut q = m.program.clone();
                        for rule in &pc.program.rules {
                            q.rules.push(Rule { name: None, body: rule.body.clone() });
                            q.order.push(DeclRef::Rule(q.rules.len() - 1));
                        }
                        let src = print::print_with(&q, true).text;
                        match compile_verdict(&src) {
                            Verdict::Accepted => {
                                r = Err(format!("the compiler accepts an ill-formed program (operator {}) once the well-formed rules of the original program are appended: a defect in one rule is masked by other rules", m.op));
                                o.mutants.push((op.to_string(), r, q));
                                continue;
                            }
                            Verdict::Crashed(e) => {
                                r = Err(format!("compiler crashed on a mutant with appended well-formed rules ({}): {}", m.op, e));
                                o.mutants.push((op.to_string(), r, q));
                                continue;
                            }
                            Verdict::Rejected { class, first, .. } => {
                                if !m.expected.iter().any(|(c, _)| *c == class) {
                                    r = Err(format!("operator {} injects a defect of class {:?}; with the well-formed rules of the original program appended the compiler reports {:?} (`{}`) instead", m.op, m.expected.iter().map(|(c, _)| *c).collect::<Vec<_>>(), class, first));
                                    o.mutants.push((op.to_string(), r, q));
                                    continue;
                                }
                                o.locality += 1;
                            }
                            Verdict::Timeout => {}
                        }
                    }
                    o.mutants.push((op.to_string(), r, m.program));
                }
            }
            // 3. metamorphic relations on the well-formed program and on one mutant with a
            //    position-independent class
            o.meta.push((metamorphic(&pc.program, &mut t), pc.program.clone()));
            if let Some((_, Ok(Some(_)), mp)) = o.mutants.iter().find(|(op, r, _)| r.is_ok() && matches!(op.as_str(), "duplicate_decl" | "delete_used_decl" | "bad_kind_pred" | "bad_kind_func" | "wildcard_in_then" | "bang_on_non_ctor_enum")) {
                o.meta.push((metamorphic(mp, &mut t), mp.clone()));
            }
            o
        })
        .collect();
    let mut violations = 0;
    let mut reported: BTreeSet<String> = BTreeSet::new();
    let mut report = |msg: &str, program: &Program, ev: &mut Evidence, violations: &mut usize| {
        let class: String = msg.lines().next().unwrap_or("").chars().map(|c| if c.is_ascii_digit() { '#' } else { c }).take(110).collect();
        if !reported.insert(class.clone()) {
            ev.count("further_failures_of_a_reported_class", 1);
            return;
        }
        let rep = ProgReplay { kind: "c10".into(), property: "C10".into(), program: Some(program.clone()), source: print::print_with(program, true).text, message: msg.to_string(), detail: json!({}), seed };
        let sig = format!("C10:{}", class);
        if let Some(k) = known.known("C10", &sig) {
            println!("KNOWN-FINDING: property=C10 {}", k.what);
            return;
        }
        let path = evidence::write_replay("C10", "prog", &serde_json::to_value(&rep).unwrap());
        eprintln!("violation of C10: {}\n  signature: {}", msg.lines().next().unwrap_or(""), sig);
        evidence::print_violation("C10", &path);
        *violations += 1;
    };
    for (pc, o) in programs.iter().zip(outs.iter()) {
        ev.evaluations += 1;
        if let Some(m) = &o.wf_problem {
            report(m, &pc.program, &mut ev, &mut violations);
            continue;
        }
        if o.accepted {
            ev.count("wellformed_accepted", 1);
            if o.features {
                ev.nontrivial.insert(util::hash64(&[b"wf", pc.source.as_bytes()]));
            }
        }
        for (op, r, mp) in &o.mutants {
            ev.evaluations += 1;
            ev.count(&format!("mutant.{}", op), 1);
            match r {
                Ok(Some((class, first))) => {
                    ev.count("mutants_rejected_as_expected", 1);
                    ev.nontrivial.insert(util::hash64(&[op.as_bytes(), format!("{:?}", class).as_bytes()]));
                    ev.sample(json!({"operator": op, "class": format!("{:?}", class), "diagnostic": first, "mutant": print::print_with(mp, true).text}), 4);
                }
                Ok(None) => ev.count("timeouts", 1),
                Err(msg) => report(msg, mp, &mut ev, &mut violations),
            }
        }
        ev.count("rule_locality_comparisons", o.locality as u64);
        ev.evaluations += o.locality as u64;
        for (r, mp) in &o.meta {
            match r {
                Ok(n) => {
                    ev.count("metamorphic_comparisons", *n as u64);
                    ev.evaluations += *n as u64;
                }
                Err(msg) => report(msg, mp, &mut ev, &mut violations),
            }
        }
    }
    ev.extra.insert("programs".into(), json!(programs.len()));
    ev.rule = "well-formed programs from the typed generator must be accepted; single-defect mutants (operators: delete/duplicate declaration, wrong-kind symbol, extra/missing argument, variable of another type, fresh variable or wildcard in then, renamed occurrence, unknown application in then, ! on a non-constructor of enum type, bound variable in `x := t!`, match: dropped case, variable/wildcard pattern, application or bound variable as pattern argument, constructors of two enums) must be rejected with an error whose class and line belong to the defect the operator injects; metamorphic relations (alpha-renaming, declaration permutation, re-layout, unused declaration) must preserve verdict and class; rule-locality: a rejected rule-level mutant must stay rejected with a class of its defect when the well-formed rules of the original program are appended; evaluations = compiler verdicts compared; non-trivial = rejected mutants distinct by (operator, error class) plus accepted programs with a branch/match and a nested term".into();
    ev.assumptions = vec!["the reference verdict of a mutant is given by construction of its mutation operator (a set of admissible error classes and lines), not by a complete second implementation of the static semantics".into()];
    ev.violations = violations as u64;
    ev.wall_s = start.elapsed().as_secs_f64();
    ev.write();
    println!("C10 {} seed={} programs={} verdicts={} nontrivial={} violations={} wall={:.1}s", tier, seed, programs.len(), ev.evaluations, ev.nontrivial.len(), violations, ev.wall_s);
    campaign::CampaignResult { violations, inconclusive: ev.counters.get("wellformed_accepted").copied().unwrap_or(0) == 0 }
}

pub fn replay_c10(rep: &ProgReplay) -> Result<Option<String>, String> {
    // a replay stores the offending source; the stored message says what was expected
    let v = compile_verdict(&rep.source);
    let now = match &v {
        Verdict::Accepted => "accepted".to_string(),
        Verdict::Rejected { first, line, .. } => format!("`{}` at line {}", first, line),
        Verdict::Crashed(e) => format!("crashed: {}", e),
        Verdict::Timeout => return Err("timeout".into()),
    };
    let still = if rep.message.contains("accepts an ill-formed") {
        matches!(v, Verdict::Accepted)
    } else if rep.message.contains("rejects a well-formed") {
        matches!(v, Verdict::Rejected { .. })
    } else if rep.message.contains("crash") {
        matches!(v, Verdict::Crashed(_))
    } else if rep.message.contains("verdict changes under") {
        match &rep.program {
            Some(p) => metamorphic(p, &mut Tape::new(&[])).is_err(),
            None => false,
        }
    } else {
        // wrong class / line: compare with the recorded compiler answer
        rep.message.contains(&now) || rep.message.contains(&format!("at line {}", match &v { Verdict::Rejected { line, .. } => *line, _ => 0 }))
    };
    Ok(if still { Some(format!("{} (compiler now answers: {})", rep.message.lines().next().unwrap_or(""), now)) } else { None })
}
