//! Evidence files, known findings, VIOLATION lines.

use serde::{Deserialize, Serialize};
use serde_json::{json, Value};
use std::collections::BTreeMap;
use std::path::PathBuf;

pub fn verif_dir() -> PathBuf {
    PathBuf::from(crate::util::VERIF)
}

#[derive(Default)]
pub struct Evidence {
    pub property: String,
    pub tier: String,
    pub seed: u64,
    pub level: String,
    pub evaluations: u64,
    pub nontrivial: std::collections::BTreeSet<u64>,
    pub rule: String,
    pub samples: Vec<Value>,
    pub counters: BTreeMap<String, u64>,
    pub extra: BTreeMap<String, Value>,
    pub assumptions: Vec<String>,
    pub violations: u64,
    pub wall_s: f64,
}

impl Evidence {
    pub fn new(property: &str, tier: &str, seed: u64, level: &str) -> Evidence {
        Evidence { property: property.into(), tier: tier.into(), seed, level: level.into(), ..Default::default() }
    }
    pub fn count(&mut self, key: &str, n: u64) {
        *self.counters.entry(key.to_string()).or_default() += n;
    }
    pub fn sample(&mut self, v: Value, max: usize) {
        if self.samples.len() < max {
            self.samples.push(v);
        }
    }
    pub fn write(&self) {
        let mut cov = serde_json::Map::new();
        cov.insert("evaluations".into(), json!(self.evaluations));
        cov.insert("distinct_nontrivial".into(), json!(self.nontrivial.len()));
        cov.insert("rule".into(), json!(self.rule));
        cov.insert("samples".into(), json!(self.samples));
        cov.insert("classes".into(), json!(self.counters));
        for (k, v) in &self.extra {
            cov.insert(k.clone(), v.clone());
        }
        let doc = json!({
            "property_id": self.property,
            "tier": self.tier,
            "seed": self.seed,
            "level": self.level,
            "coverage": Value::Object(cov),
            "assumptions": self.assumptions,
            "wall_s": self.wall_s,
            "violations": self.violations,
        });
        let dir = verif_dir().join("evidence");
        let _ = std::fs::create_dir_all(&dir);
        let path = dir.join(format!("{}.json", self.property));
        std::fs::write(&path, serde_json::to_string_pretty(&doc).unwrap()).expect("writing evidence");
    }
}

#[derive(Clone, Debug, Serialize, Deserialize)]
pub struct KnownFinding {
    pub property: String,
    /// "known" or "fixed"
    pub status: String,
    /// exact signature the check computes for a failure (never just the property id)
    pub signature: String,
    pub what: String,
    #[serde(default)]
    pub replay: Option<String>,
    #[serde(default)]
    pub commit: Option<String>,
}

#[derive(Clone, Debug, Default, Serialize, Deserialize)]
pub struct KnownFindings {
    pub findings: Vec<KnownFinding>,
}

impl KnownFindings {
    pub fn load() -> KnownFindings {
        let p = verif_dir().join("KNOWN_FINDINGS.json");
        match std::fs::read_to_string(&p) {
            Ok(s) => serde_json::from_str(&s).expect("KNOWN_FINDINGS.json is malformed"),
            Err(_) => KnownFindings::default(),
        }
    }
    /// A listed, unfixed finding with exactly this signature.
    pub fn known(&self, property: &str, signature: &str) -> Option<&KnownFinding> {
        self.findings.iter().find(|f| f.status == "known" && f.property == property && f.signature == signature)
    }
    pub fn known_for(&self, property: &str) -> Vec<&KnownFinding> {
        self.findings.iter().filter(|f| f.status == "known" && f.property == property).collect()
    }
}

pub fn write_replay(property: &str, tag: &str, doc: &Value) -> PathBuf {
    let dir = verif_dir().join("replays").join("found");
    let _ = std::fs::create_dir_all(&dir);
    let h = crate::util::sha_hex(&[serde_json::to_string(doc).unwrap().as_bytes()]);
    let path = dir.join(format!("{}-{}-{}.json", property, tag, &h[..10]));
    std::fs::write(&path, serde_json::to_string_pretty(doc).unwrap()).expect("writing replay");
    path
}

pub fn print_violation(property: &str, replay: &std::path::Path) {
    println!("VIOLATION property={} replay={}", property, replay.display());
}
