// ---- eqv driver: program-independent part (textually included into the generated module) ----
// A dumb interpreter for a line-oriented command script. All oracles live in the eqv process;
// this code only executes API calls and prints what they returned.

pub trait EqvFacade: Sized {
    fn eqv_fresh() -> Self;
    fn eqv_ntypes() -> usize;
    fn eqv_nrels() -> usize;
    fn eqv_rel_cols(rel: usize) -> &'static [usize];
    fn eqv_rel_is_func(rel: usize) -> bool;
    fn eqv_type_is_enum(ty: usize) -> bool;
    fn eqv_new(&mut self, ty: usize) -> Option<u32>;
    fn eqv_insert(&mut self, rel: usize, a: &[u32]);
    fn eqv_define(&mut self, rel: usize, a: &[u32]) -> u32;
    fn eqv_equate(&mut self, ty: usize, a: u32, b: u32);
    fn eqv_root(&self, ty: usize, a: u32) -> u32;
    fn eqv_are_equal(&self, ty: usize, a: u32, b: u32) -> bool;
    fn eqv_holds(&self, rel: usize, a: &[u32]) -> bool;
    fn eqv_eval(&self, rel: usize, a: &[u32]) -> Option<u32>;
    fn eqv_len(&self, ty: usize) -> usize;
    fn eqv_iter_ty(&self, ty: usize) -> Vec<u32>;
    fn eqv_iter_rel(&self, rel: usize) -> Vec<Vec<u32>>;
    fn eqv_cases(&self, ty: usize, el: u32) -> Vec<(usize, Vec<u32>)>;
    fn eqv_case(&self, ty: usize, el: u32) -> (usize, Vec<u32>);
    fn eqv_close(&mut self);
    fn eqv_close_until(&mut self, f: &dyn Fn(&Self) -> bool) -> bool;
    fn eqv_dump_private(&self, out: &mut String);
    fn eqv_rules_once(&mut self, out: &mut String);
}

#[derive(Clone, Debug)]
enum EqvCond {
    False,
    True,
    Holds(usize, Vec<u32>),
    Defined(usize, Vec<u32>),
    Equal(usize, u32, u32),
    Count(usize, usize),
    Ids(usize),
    Tuples(usize, usize),
    Evals(usize),
    And(std::boxed::Box<EqvCond>, std::boxed::Box<EqvCond>),
    Or(std::boxed::Box<EqvCond>, std::boxed::Box<EqvCond>),
}

fn eqv_fmt_tuple(t: &[u32]) -> String {
    let v: Vec<String> = t.iter().map(|x| x.to_string()).collect();
    v.join(",")
}

fn eqv_dump_public<M: EqvFacade>(m: &M, out: &mut String) {
    use std::fmt::Write;
    for ty in 0..M::eqv_ntypes() {
        let len = m.eqv_len(ty);
        let _ = write!(out, "T {} {} :", ty, len);
        for i in 0..len {
            let _ = write!(out, " {}", m.eqv_root(ty, i as u32));
        }
        let _ = write!(out, " :");
        for e in m.eqv_iter_ty(ty) {
            let _ = write!(out, " {}", e);
        }
        out.push('\n');
    }
    for rel in 0..M::eqv_nrels() {
        let _ = write!(out, "R {} :", rel);
        for t in m.eqv_iter_rel(rel) {
            let _ = write!(out, " {}", if t.is_empty() { "()".to_string() } else { eqv_fmt_tuple(&t) });
        }
        out.push('\n');
    }
}

struct EqvInterp<M: EqvFacade> {
    m: M,
    regs: std::collections::BTreeMap<String, u32>,
    auto: u8,
}

struct EqvSkip;

impl<M: EqvFacade> EqvInterp<M> {
    fn el(&self, ty: usize, tok: &str) -> Result<u32, EqvSkip> {
        if let Some(sel) = tok.strip_prefix('#') {
            let k: usize = sel.parse().expect("selector");
            let len = self.m.eqv_len(ty);
            if len == 0 {
                return Err(EqvSkip);
            }
            Ok(((k * len) >> 16) as u32)
        } else if let Some(r) = tok.strip_prefix('$') {
            match self.regs.get(r) {
                Some(v) => Ok(*v),
                None => Err(EqvSkip),
            }
        } else {
            Ok(tok.parse().expect("literal id"))
        }
    }

    fn els(&self, tys: &[usize], toks: &[&str]) -> Result<Vec<u32>, EqvSkip> {
        let mut v = Vec::new();
        for (ty, tok) in tys.iter().zip(toks.iter()) {
            v.push(self.el(*ty, tok)?);
        }
        Ok(v)
    }

    fn parse_cond(&self, toks: &[&str], pos: &mut usize) -> Result<EqvCond, EqvSkip> {
        let head = toks[*pos];
        *pos += 1;
        Ok(match head {
            "false" => EqvCond::False,
            "true" => EqvCond::True,
            "holds" | "defined" => {
                let rel: usize = toks[*pos].parse().unwrap();
                *pos += 1;
                let cols = M::eqv_rel_cols(rel);
                let n = if head == "defined" { cols.len() - 1 } else { cols.len() };
                let args = self.els(&cols[..n], &toks[*pos..*pos + n])?;
                *pos += n;
                if head == "holds" {
                    EqvCond::Holds(rel, args)
                } else {
                    EqvCond::Defined(rel, args)
                }
            }
            "equal" => {
                let ty: usize = toks[*pos].parse().unwrap();
                let a = self.el(ty, toks[*pos + 1])?;
                let b = self.el(ty, toks[*pos + 2])?;
                *pos += 3;
                EqvCond::Equal(ty, a, b)
            }
            "count" => {
                let ty: usize = toks[*pos].parse().unwrap();
                let n: usize = toks[*pos + 1].parse().unwrap();
                *pos += 2;
                EqvCond::Count(ty, n)
            }
            "ids" => {
                let n: usize = toks[*pos].parse().unwrap();
                *pos += 1;
                EqvCond::Ids(n)
            }
            "tuples" => {
                let rel: usize = toks[*pos].parse().unwrap();
                let n: usize = toks[*pos + 1].parse().unwrap();
                *pos += 2;
                EqvCond::Tuples(rel, n)
            }
            "evals" => {
                let n: usize = toks[*pos].parse().unwrap();
                *pos += 1;
                EqvCond::Evals(n)
            }
            "and" | "or" => {
                let a = self.parse_cond(toks, pos)?;
                let b = self.parse_cond(toks, pos)?;
                if head == "and" {
                    EqvCond::And(std::boxed::Box::new(a), std::boxed::Box::new(b))
                } else {
                    EqvCond::Or(std::boxed::Box::new(a), std::boxed::Box::new(b))
                }
            }
            other => panic!("bad cond token {}", other),
        })
    }

    fn eval_cond(m: &M, c: &EqvCond, evals: usize) -> bool {
        match c {
            EqvCond::False => false,
            EqvCond::True => true,
            EqvCond::Holds(rel, a) => {
                if M::eqv_rel_is_func(*rel) {
                    let n = a.len() - 1;
                    match m.eqv_eval(*rel, &a[..n]) {
                        Some(v) => {
                            let ty = *M::eqv_rel_cols(*rel).last().unwrap();
                            m.eqv_are_equal(ty, v, a[n])
                        }
                        None => false,
                    }
                } else {
                    m.eqv_holds(*rel, a)
                }
            }
            EqvCond::Defined(rel, a) => m.eqv_eval(*rel, a).is_some(),
            EqvCond::Equal(ty, a, b) => m.eqv_are_equal(*ty, *a, *b),
            EqvCond::Count(ty, n) => m.eqv_iter_ty(*ty).len() >= *n,
            EqvCond::Ids(n) => (0..M::eqv_ntypes()).map(|t| m.eqv_len(t)).sum::<usize>() >= *n,
            EqvCond::Tuples(rel, n) => m.eqv_iter_rel(*rel).len() >= *n,
            EqvCond::Evals(n) => evals >= *n,
            EqvCond::And(a, b) => Self::eval_cond(m, a, evals) && Self::eval_cond(m, b, evals),
            EqvCond::Or(a, b) => Self::eval_cond(m, a, evals) || Self::eval_cond(m, b, evals),
        }
    }

    fn autodump(&self, out: &mut String) {
        if self.auto >= 1 {
            out.push_str("dump\n");
            eqv_dump_public(&self.m, out);
            if self.auto >= 2 {
                self.m.eqv_dump_private(out);
            }
            out.push_str("end\n");
        }
    }

    fn exec(&mut self, line: &str, out: &mut String) -> Result<(), EqvSkip> {
        use std::fmt::Write;
        let toks: Vec<&str> = line.split_whitespace().collect();
        if toks.is_empty() {
            return Ok(());
        }
        match toks[0] {
            "reset" => {
                self.m = M::eqv_fresh();
                self.regs.clear();
                self.auto = 0;
                out.push_str("ok\n");
            }
            "auto" => {
                self.auto = toks[1].parse().unwrap();
                out.push_str("ok\n");
            }
            "echo" => {
                let _ = writeln!(out, "{}", toks[1..].join(" "));
            }
            "new" => {
                let ty: usize = toks[1].parse().unwrap();
                match self.m.eqv_new(ty) {
                    Some(id) => {
                        if let Some(r) = toks.get(2) {
                            self.regs.insert(r.to_string(), id);
                        }
                        let _ = writeln!(out, "id {}", id);
                        self.autodump(out);
                    }
                    None => return Err(EqvSkip),
                }
            }
            "ins" => {
                let rel: usize = toks[1].parse().unwrap();
                let cols = M::eqv_rel_cols(rel);
                let args = self.els(cols, &toks[2..2 + cols.len()])?;
                self.m.eqv_insert(rel, &args);
                let _ = writeln!(out, "ok {}", eqv_fmt_tuple(&args));
                if self.auto >= 1 {
                    // the point query for what was just inserted
                    if M::eqv_rel_is_func(rel) {
                        let n = args.len() - 1;
                        match self.m.eqv_eval(rel, &args[..n]) {
                            Some(v) => { let _ = writeln!(out, "q {}", v); }
                            None => { let _ = writeln!(out, "q none"); }
                        }
                    } else {
                        let _ = writeln!(out, "q {}", if self.m.eqv_holds(rel, &args) { 1 } else { 0 });
                    }
                }
                self.autodump(out);
            }
            "def" => {
                let rel: usize = toks[1].parse().unwrap();
                let cols = M::eqv_rel_cols(rel);
                let n = cols.len() - 1;
                let args = self.els(&cols[..n], &toks[2..2 + n])?;
                let id = self.m.eqv_define(rel, &args);
                if let Some(r) = toks.get(2 + n) {
                    self.regs.insert(r.to_string(), id);
                }
                let _ = writeln!(out, "id {} {}", id, eqv_fmt_tuple(&args));
                if self.auto >= 1 {
                    match self.m.eqv_eval(rel, &args) {
                        Some(v) => { let _ = writeln!(out, "q {}", v); }
                        None => { let _ = writeln!(out, "q none"); }
                    }
                }
                self.autodump(out);
            }
            "eq" => {
                let ty: usize = toks[1].parse().unwrap();
                let a = self.el(ty, toks[2])?;
                let b = self.el(ty, toks[3])?;
                self.m.eqv_equate(ty, a, b);
                let _ = writeln!(out, "ok {},{}", a, b);
                self.autodump(out);
            }
            "close" => {
                self.m.eqv_close();
                out.push_str("closed\n");
                self.autodump(out);
            }
            "cu" => {
                // cu <observe> <cond...>
                let observe: u8 = toks[1].parse().unwrap();
                let mut pos = 2;
                let cond = self.parse_cond(&toks, &mut pos)?;
                let evals = std::cell::Cell::new(0usize);
                let obs = std::cell::RefCell::new(String::new());
                let auto = self.auto;
                let r = self.m.eqv_close_until(&|m: &M| {
                    let k = evals.get();
                    evals.set(k + 1);
                    let v = Self::eval_cond(m, &cond, k + 1);
                    if observe >= 1 {
                        let mut o = obs.borrow_mut();
                        let _ = writeln!(o, "obs {} {}", k, if v { 1 } else { 0 });
                        eqv_dump_public(m, &mut o);
                        if observe >= 2 || auto >= 2 {
                            m.eqv_dump_private(&mut o);
                        }
                        o.push_str("end\n");
                    }
                    v
                });
                out.push_str(&obs.borrow());
                let after = Self::eval_cond(&self.m, &cond, evals.get());
                let _ = writeln!(out, "cu {} {} {}", if r { 1 } else { 0 }, evals.get(), if after { 1 } else { 0 });
                self.autodump(out);
            }
            "dump" => {
                out.push_str("dump\n");
                eqv_dump_public(&self.m, out);
                out.push_str("end\n");
            }
            "dumpx" => {
                out.push_str("dump\n");
                eqv_dump_public(&self.m, out);
                self.m.eqv_dump_private(out);
                out.push_str("end\n");
            }
            "holds" => {
                let rel: usize = toks[1].parse().unwrap();
                let cols = M::eqv_rel_cols(rel);
                let args = self.els(cols, &toks[2..2 + cols.len()])?;
                let _ = writeln!(out, "b {} {}", if self.m.eqv_holds(rel, &args) { 1 } else { 0 }, eqv_fmt_tuple(&args));
            }
            "eval" => {
                let rel: usize = toks[1].parse().unwrap();
                let cols = M::eqv_rel_cols(rel);
                let n = cols.len() - 1;
                let args = self.els(&cols[..n], &toks[2..2 + n])?;
                match self.m.eqv_eval(rel, &args) {
                    Some(v) => {
                        let _ = writeln!(out, "v {} {}", v, eqv_fmt_tuple(&args));
                    }
                    None => {
                        let _ = writeln!(out, "v none {}", eqv_fmt_tuple(&args));
                    }
                }
            }
            "root" => {
                let ty: usize = toks[1].parse().unwrap();
                let a = self.el(ty, toks[2])?;
                let _ = writeln!(out, "v {} {}", self.m.eqv_root(ty, a), a);
            }
            "equal" => {
                let ty: usize = toks[1].parse().unwrap();
                let a = self.el(ty, toks[2])?;
                let b = self.el(ty, toks[3])?;
                let _ = writeln!(out, "b {} {},{}", if self.m.eqv_are_equal(ty, a, b) { 1 } else { 0 }, a, b);
            }
            "cases" => {
                // cases <ty>: for every id of the enum type (not only roots) all cases
                let ty: usize = toks[1].parse().unwrap();
                for el in 0..self.m.eqv_len(ty) as u32 {
                    let _ = write!(out, "cases {} {} :", ty, el);
                    for (c, a) in self.m.eqv_cases(ty, el) {
                        let _ = write!(out, " {}({})", c, eqv_fmt_tuple(&a));
                    }
                    // <enum>_case(el): must not panic and must return one of the cases
                    let first = std::panic::catch_unwind(std::panic::AssertUnwindSafe(|| self.m.eqv_case(ty, el)));
                    match first {
                        Ok((c, a)) => {
                            let _ = write!(out, " | {}({})", c, eqv_fmt_tuple(&a));
                        }
                        Err(_) => {
                            let _ = write!(out, " | PANIC");
                        }
                    }
                    out.push('\n');
                }
                out.push_str("end\n");
            }
            "case" => {
                let ty: usize = toks[1].parse().unwrap();
                let el = self.el(ty, toks[2])?;
                let (c, a) = self.m.eqv_case(ty, el);
                let _ = writeln!(out, "case {} {} : {}({})", ty, el, c, eqv_fmt_tuple(&a));
            }
            "xq" => {
                // cross-query: point queries on ALL id combinations (roots and non-roots) of
                // every relation whose combination count is <= cap; prints the true/defined ones
                let cap: usize = toks[1].parse().unwrap();
                out.push_str("xq\n");
                for rel in 0..M::eqv_nrels() {
                    let cols = M::eqv_rel_cols(rel);
                    let isf = M::eqv_rel_is_func(rel);
                    let n = if isf { cols.len() - 1 } else { cols.len() };
                    let lens: Vec<usize> = cols[..n].iter().map(|&t| self.m.eqv_len(t)).collect();
                    let combos: usize = lens.iter().product();
                    if combos > cap {
                        let _ = writeln!(out, "Q {} skipped", rel);
                        continue;
                    }
                    let _ = write!(out, "Q {} :", rel);
                    let mut idx = vec![0u32; n];
                    if combos > 0 {
                        let mut done = false;
                        while !done {
                            if isf {
                                if let Some(v) = self.m.eqv_eval(rel, &idx) {
                                    let _ = write!(out, " {}={}", if n == 0 { "()".to_string() } else { eqv_fmt_tuple(&idx) }, v);
                                }
                            } else if self.m.eqv_holds(rel, &idx) {
                                let _ = write!(out, " {}", if n == 0 { "()".to_string() } else { eqv_fmt_tuple(&idx) });
                            }
                            let mut i = n;
                            loop {
                                if i == 0 {
                                    done = true;
                                    break;
                                }
                                i -= 1;
                                idx[i] += 1;
                                if (idx[i] as usize) < lens[i] {
                                    break;
                                }
                                idx[i] = 0;
                            }
                        }
                    }
                    out.push('\n');
                }
                out.push_str("end\n");
            }
            "rules" => {
                // one iteration's worth of rule invocations into fresh deltas (nothing is applied)
                self.m.eqv_rules_once(out);
            }
            "len" => {
                let ty: usize = toks[1].parse().unwrap();
                let _ = writeln!(out, "v {}", self.m.eqv_len(ty));
            }
            other => panic!("unknown command {}", other),
        }
        Ok(())
    }
}

pub fn eqv_main<M: EqvFacade>() {
    use std::io::{BufRead, Write};
    std::panic::set_hook(Box::new(|_| {}));
    let stdin = std::io::stdin();
    let stdout = std::io::stdout();
    let mut w = std::io::BufWriter::new(stdout.lock());
    let mut it = EqvInterp::<M> { m: M::eqv_fresh(), regs: Default::default(), auto: 0 };
    let mut poisoned = false;
    for (i, line) in stdin.lock().lines().enumerate() {
        let line = line.expect("stdin");
        let line = line.trim();
        if line.is_empty() {
            continue;
        }
        let _ = writeln!(w, "> {}", i);
        if poisoned && !line.starts_with("reset") {
            let _ = writeln!(w, "poisoned");
            continue;
        }
        let mut out = String::new();
        let res = std::panic::catch_unwind(std::panic::AssertUnwindSafe(|| it.exec(line, &mut out)));
        match res {
            Ok(Ok(())) => {
                poisoned = false;
                let _ = w.write_all(out.as_bytes());
            }
            Ok(Err(EqvSkip)) => {
                let _ = writeln!(w, "skip");
            }
            Err(e) => {
                let msg = if let Some(s) = e.downcast_ref::<&str>() {
                    s.to_string()
                } else if let Some(s) = e.downcast_ref::<String>() {
                    s.clone()
                } else {
                    "?".to_string()
                };
                let _ = w.write_all(out.as_bytes());
                let _ = writeln!(w, "panic {}", msg.replace('\n', " "));
                // the model may be in an arbitrary state after a panic: ignore everything up
                // to the next reset
                poisoned = true;
            }
        }
    }
    let _ = w.flush();
}
